#!/usr/bin/env python3
"""Regenerates MANIFEST.json from the table below (kept in one place so it stays valid)."""
import json, sys

BASE_OFF = "cd /repo && go test -mod=mod -json -vet=off -count=1 -timeout 25m ./..."

# id -> (level, technique, level text, level note, design ref)
CHECKS = {
 "C17": ("model_checking",
         "exhaustive enumeration of read schedules (all 2^(n-1) partitions x EOF convention x carry split x limit) on the real codecs against the message sequence as reference model; plus the write side (WriteNext framing, caller-memory immutability, ReadNext->WriteNext relays over read granularities x buffer capacities)",
         "Every read schedule of the scripted reader (all partitions of short streams, all carry-over splits, both EOF conventions, limits around each message size, truncation at every offset, every 1..10-byte length prefix over a small byte alphabet) is executed on the real CodecProto/CodecJSON/HttpBody chunker; the oracle is the written sequence itself. Exhaustive within the stated alphabets; states = (bytes consumed, carry length, message index).",
         "Trusts the scripted reader as a model of io.Reader (incl. n>0 with io.EOF); limit<=0 not exercised; long streams use uniform chunkings and <=1 cut instead of all partitions.",
         "DESIGN.md §3 C17"),
}

CHECKS.update({
 "C01": ("exploration",
         "bounded-exhaustive enumeration of rule sets x request verbs x probe paths on the real Mux against an independent template matcher (liberal reading)",
         "Every rule set over the template alphabet (singles; pairs over the reduced alphabet; annotation / additional-binding / service-config sources) is registered on the real Mux and probed with every instantiation of every template plus near-miss variants (one segment more/less, verb suffixes, ':' in every position). A dispatch is sound iff some rule of the reached method covers verb+path under the liberal reference matcher and the received message equals exactly the captured text (proto.Equal).",
         "Exhaustive within the alphabets (literals {a,bb,v1}, fills {x,a,7}); percent-encoded paths and values outside the alphabets are not explored. Reference matcher ref/template is trusted.",
         "DESIGN.md §3 C01"),
 "C02": ("exploration",
         "bounded-exhaustive enumeration of rule sets x all registration-order permutations x every template instantiation on the real Mux; differential across orders plus reference precedence rule; plus bounded-exhaustive register/drop histories over every 3-subset of a template family (every order, every single removal) compared with a freshly built mux",
         "Every instantiation of every template of every rule set (singles, pairs incl. same-method pairs, triples) must be dispatched to a method owning a matching rule; a rule that is literal where the winner's rule is a pure wildcard must win; the (status, method, message) triple must be identical across every permutation of method order, service order and service-config order; 1..31-segment paths must route through '**'.",
         "Exhaustive within the alphabets; the grey zone listed in DESIGN.md (zero-segment **, ':' outside the verb position, non-convertible captures, literal vs patterned variable, same-method bindings covering identical paths) is excluded.",
         "DESIGN.md §3 C02"),
 "C16": ("exploration",
         "bounded-exhaustive enumeration of templates, all single-character edits, selector and conflict matrices, late-failing rule sets, own-node rebindings and second-owner descriptor revisions on the real registration path against the reference parser; rejection atomicity by snapshot fingerprint",
         "Every generated template and every single-character edit of it is classified by the independent grammar parser (accept / reject / grey) and registered on an empty and on a non-empty mux: accept<=>well-formed+resolvable, rejections are errors (no panic) that leave the snapshot fingerprint and all probe answers unchanged, accepted templates route every instantiation. Body/response_body selector matrix, nested additional bindings and binding conflicts likewise.",
         "Grey zone (either outcome accepted) documented in DESIGN.md; fingerprint hook VerifFingerprint is trusted to reflect the routing snapshot.",
         "DESIGN.md §3 C16"),
})

CHECKS.update({
 "C03": ("exploration",
         "bounded-exhaustive enumeration of (field, boundary value, spelling, channel, codec, compression) singles and pairs on the real Mux against a client-side transcoding reference",
         "Every URL-expressible field of ComplexRequest (all 15 scalar kinds, enum, bytes, repeated scalars, nested, oneof members, wrappers, Timestamp/Duration/FieldMask) with every boundary value and spelling is sent through every channel a rule offers (path variable, query by proto/JSON name, body in JSON/protobuf/octet-stream with and without gzip), singly and in all ordered pairs; the handler's message must proto.Equal the generated one. Texts invalid under every reading must be refused without invoking the handler.",
         "1-wise and 2-wise coverage over boundary values, not arbitrary messages; grey spellings listed in the evidence assumptions are not demanded; protojson/proto are trusted as encoders.",
         "DESIGN.md §3 C03"),
 "C07": ("exploration",
         "bounded-exhaustive enumeration of (path-bound field, rule shape, captured value, competing value, competitor channel) on the real Mux",
         "For every path-bindable field and rule shape (no body, body '*', body on the parent / an unrelated field) every competing boundary value is delivered simultaneously through the query (proto name, JSON name, repeated, mixed with other keys), the body (JSON / protobuf) and both; whenever the handler runs, the bound field must equal the path capture.",
         "A refusal (status >= 400, handler not run) is accepted; Go map iteration order of url.Values is not controlled (each case has a single competing key, so the verdict is order-independent).",
         "DESIGN.md §3 C07"),
})

CHECKS.update({
 "C05": ("exploration",
         "bounded-exhaustive enumeration of (protocol, shape, error position, status code, message, details, response writer with/without Flush) on the real Mux with independent wire decoders as oracle; conformance pass with a real grpc-go client",
         "Every status code 1..16 plus out-of-range values, every message of length <= 3 over {a,%,space,newline,é} plus boundary messages, with 0-2 details, returned before or after 1-2 replies, on HTTP (json/proto/implicit), Twirp, gRPC(+json), gRPC-web(+json), gRPC-web-text and WebSocket: the client-side decoders of ref/wire must recover the same code, message and details (HTTP status per code.proto, Twirp names per the Twirp spec, percent-decoding per the gRPC spec, RFC 6455 frame validity).",
         "The in-process recorder models net/http trailer delivery; WebSocket close-code mapping is only required to be a sendable non-1000 code; leading/trailing spaces in gRPC-web trailer frames are not compared.",
         "DESIGN.md §3 C05"),
 "C06": ("model_checking",
         "exhaustive enumeration of read schedules (all partitions of short streams, bounded cut sets and uniform chunkings beyond, both EOF conventions, truncation at every offset with EOF or connection error) of the request byte stream on the real Mux for every streaming transport, against the sent sequences",
         "For every transport x shape x client sequence x handler sequence, every read schedule of the scripted body/conn is executed on the real Mux: the handler must log exactly the complete client messages then io.EOF (or an error for a body cut inside a message), and the response must de-frame (independent decoders) into exactly the handler's replies and final status. HttpBody uploads of every length 0..3*limit+1 must re-assemble byte-exactly with every chunk <= limit.",
         "Scripted reader/conn model io.Reader / net.Conn; HTTP/2 flow control is not modelled; client-streaming-with-unary-reply over WebSocket is excluded (not expressible).",
         "DESIGN.md §3 C06"),
})

CHECKS.update({
 "C08": ("exploration",
         "exhaustive enumeration of the (protocol, compression, limit, size, position) matrix on the real Mux with messages of exactly known encoded size",
         "For every protocol and codec, with and without compression, limits 32/100/1000/default and encoded sizes L-1, L, L+1, 2L, 64KiB (alone or after a small message): an over-limit message must never reach the handler and must produce an error; a within-limit message must be delivered. Replies around the send limit with S<L and S>L must be delivered when within S. Bogus length prefixes up to 2^64-1 must be refused without panic.",
         "Sizes are exact because the message is one string field; only the listed boundary sizes are explored; over-limit replies are not part of the property.",
         "DESIGN.md §3 C08"),
 "C14": ("exploration",
         "exhaustive enumeration of header names/values (all byte strings <= 3 bytes over a 4-byte alphabet, padded/unpadded) and of every subset of handler header/trailer items incl. reserved keys, per protocol, shape and outcome, on the real Mux",
         "Incoming: every header reaches the handler as lower-cased metadata with all values in order and -bin values decoded. Outgoing: every subset of custom header/trailer items (SetHeader vs SendHeader, before/after the first reply) must reach the client on each protocol, -bin byte-exact; each reserved key set through metadata must leave the protocol's own value intact and the response well-formed.",
         "The recorder models net/http's trailer rules (announced keys + TrailerPrefix), confirmed end-to-end with a grpc-go client for the trailer cases.",
         "DESIGN.md §3 C14"),
})

CHECKS.update({
 "C04": ("exploration",
         "bounded-exhaustive enumeration of (reply, request type, Accept list, Accept-Encoding) on the real Mux, decoded with the codec the response names; independent Accept admission model",
         "Every reply (each field kind, maps/struct/any, all kinds, 64KiB, response_body selection, HttpBody with 4 content types x 4 sizes) under every Accept list of <= 2 ranges x q values (plus malformed and parameterised ranges), every request type and Accept-Encoding: the body, after undoing the declared Content-Encoding, must decode with the codec named by Content-Type to exactly the reply; the type must be admitted by Accept whenever a registered codec is, else equal the request type.",
         "Which admitted type is chosen and q=0 exclusions are not demanded; protojson/proto are the trusted decoders.",
         "DESIGN.md §3 C04"),
 "C09": ("exploration",
         "small-scope exhaustive enumeration of paths (all strings up to length 6/7 over a 9-symbol alphabet), query keys, header alphabets, frame/varint/JSON/WebSocket byte patterns x entry paths x mux options on the real Mux with a recover() oracle and a hang watchdog",
         "Every input of the stated families is sent through Mux.ServeHTTP on each entry path (transcoding, gRPC, gRPC-web(-text), WebSocket upgrade) and under each option set (plain, interceptors, stats handler, both): no panic, bounded reads after end of input, an HTTP status in 100..599 or a hijacked and closed connection; proxied client-streaming/bidi calls whose client leaves the upload open return once the back-end is done or the grpc-timeout has passed.",
         "Small-scope hypothesis (lengths/alphabets as stated); a request that does not return within 120 s (45 s after a 100 ms deadline in the proxied family) is reported as a hang.",
         "DESIGN.md §3 C09"),
})

CHECKS.update({
 "C18": ("exploration",
         "exhaustive enumeration of (protocol, shape, payload size, outcome, interceptor behaviour, stats, metadata) on the real Mux with logging interceptors/stats handler; differential against the same call without options; fault enumeration: every position of a failing response Write, early exits (undecodable body, passed deadline, failing WebSocket writes), and a goroutine left behind by the handler that receives while End is reported or after ServeHTTP returned",
         "For every combination the interceptor log must show exactly one call of the right kind with the method's full name and streaming flags, the client must get what the interceptor returned, the stats log must match Tag InHeader Begin (payload|OutHeader)* OutTrailer? End with one End carrying the chain's error and one payload event per message, no event after End, no server-side event claiming IsClient(), InHeader naming the announced grpc-encoding, and pass-through options must leave status, body and headers identical to the option-free mux.",
         "Payload events are not demanded on WebSocket; error framing after HTTP stream messages is not demanded.",
         "DESIGN.md §3 C18"),
 "C19": ("exploration",
         "exhaustive enumeration of selector lists (<= 2 selectors over all name prefixes, wildcards, siblings, case variants) x services on fresh muxes against the documented selector semantics; differential service-config vs annotation; healthz vs the health server",
         "Each selector carries its own path; a path is dispatched to a method iff the selector is the method's full name or a trailing wildcard covering it. Every template/kind/body rule behaves identically as service config and as annotation over the near-miss probe set. /v1/healthz (GET and WebSocket watch) and the implicit route report exactly what the health server reports for every service name x status.",
         "Selector lists that would bind one path to two methods of the registered service are skipped; selectors with a wildcard that is not their last component must be refused or never bound, never panic.",
         "DESIGN.md §3 C19"),
 "C20": ("exploration",
         "exhaustive enumeration of mount pattern sets (<= 3 of 6) x extra handlers x request prefixes x inner paths x protocols through NewServer's handler, differential against the bare mux on the stripped path",
         "For every accepted pattern set the response (status, headers, trailers, body, handler invocations) for prefix+path through the server handler equals the bare mux's response for path; paths outside every mount never reach the mux and are 404; extra handlers receive exactly their patterns.",
         "ServeMux redirects (bare prefix, unclean paths) are not demanded; the h2c wrapper is exercised only for non-upgrade requests.",
         "DESIGN.md §3 C20"),
})

CHECKS.update({
 "C11": ("model_checking",
         "explicit-state breadth-first search over registration histories in three worlds (state = shortest history, re-executed on a fresh Mux; dedup on reference registry + canonical implementation fingerprint), probes x all rand.Intn picks after every transition",
         "Every history over {RegisterService(local), RegisterConn x3 back-ends, DropConn x3, back-end changes its descriptors and re-registers (two directions), DropConn(unknown)} up to the depth bound is applied to the real Mux with scripted back-ends; after every transition each method is probed over its rule route, implicit route and gRPC under every handler pick: the answering back-end must be a live owner, a method with live owners is never unserved, a method with none is NotFound/Unimplemented, operation results match the reference registry, nothing panics, and a service without a live owner leaves no binding behind in the routing state. Both worlds carry service-config rules next to annotated ones; the second world has one descriptor file declaring two services served by two different back-ends, and a request must only be sent to a back-end that lists its service (also after the back-end changed what it serves, and not at all after a registration that reported an error); the third has two wire-compatible editions of one schema behind one method, and the answering back-end must receive every URL and body value in the field it was sent for.",
         "Back-ends are never-dialled grpc.ClientConns whose interceptors answer reflection and data calls (validated against real grpc-go servers in the conformance pass); state merging trusts VerifFingerprint.",
         "DESIGN.md §3 C11"),
 "C12": ("model_checking",
         "stateless preemption-bounded exploration (iterated bounds) of the interleavings of writer/reader threads on the real Mux under a controlled scheduler injected by go build -overlay, followed by an unbounded explicit-state depth-first search over every interleaving (state key computed by the scheduler from thread histories, the ordered observation log and the published snapshots; the key is validated on every run against a stateless search of two small scenarios); porcupine linearizability + snapshot-immutability monitor per schedule; separate free-running -race pass",
         "Scenarios of 3-4 threads (RegisterService, failing registration, RegisterConn, DropConn vs readers issuing 2-3 requests over three routes) are explored over every interleaving of the real synchronisation operations up to the preemption bound. Each schedule's call/return history must be linearizable against the registry specification (porcupine), every snapshot ever published must keep its fingerprint, a failing registration must leave the snapshot unchanged, no panic/deadlock. A second phase searches every interleaving without a preemption bound, not expanding a state twice, and reports per scenario whether it completed. The same bodies then run free under the race detector.",
         "Unsynchronised accesses between scheduling points are not interleaved (covered by the immutability monitor and the -race pass); pools are not scheduling points here.",
         "DESIGN.md §3 C12"),
 "C13": ("model_checking",
         "stateless deviation-bounded exploration (preemptions + 'pool emptied' environment answers, iterated bounds) of concurrent request pairs/triples on the real Mux under the controlled scheduler; differential against each request's solo run; pool-discipline and WaitGroup-contract monitors in the sync shims; separate free-running -race pass",
         "Pairs (thorough: all pairs + triples) of requests of 19 kinds chosen to collide on bytesPool, bufPool and the gzip pools - among them a bidi call served by a full-duplex handler (two goroutines on one stream) requests through NewServer's mounts after one the mount turned away, and requests that share their first Accept line - run concurrently on one Mux; scheduling points at every pool Get/Put, WaitGroup op, body Read, response Write and handler step. In every explored schedule each response and each handler-seen message must equal the request's solo run and messages retained by handlers must be unchanged at the end; no panic, no deadlock. The same bodies then run free under the race detector.",
         "Races inside grpc-go/net/http are outside the scheduler; proxied streams are covered by C10.",
         "DESIGN.md §3 C13"),
})

CHECKS.update({
 "C15": ("model_checking",
         "exhaustive enumeration of grpc-timeout strings (all 1..5/7-digit values x 6 units through the real gRPC path, remaining layers through the parser hook, malformed shapes) plus stateless preemption-bounded exploration of cancellation scenarios under the controlled scheduler",
         "Part 1: every legal timeout value of the enumerated layers must give the handler a deadline inside the bracket [receipt+T, handler start+T] (hours clamp), malformed values must be refused without invoking the handler. Part 2: for {gRPC, gRPC-web, HTTP} x {unary, client-, server-, bidi-streaming} a client-cancel thread races a feeder thread and the server thread (plus scenarios with a goroutine leaked by the handler): in every schedule the handler's ctx.Err() is non-nil at every observation after the cancel, sends started after it fail, a cancel is never reported as a clean EOF, ServeHTTP returns (deadlock detection), nothing is written to the ResponseWriter after it returned, and a healthy unary call made on the same mux right after the schedule runs its handler under the deadline it asked for.",
         "Promptness is 'at the next observation'; the cancel model (context cancel + failing reads/writes) mirrors net/http; signed timeouts are not demanded.",
         "DESIGN.md §3 C15"),
})

CHECKS.update({
 "C10": ("model_checking",
         "stateless preemption-bounded exploration (iterated bounds) of proxied-call scenarios on the real Mux under the controlled scheduler: front server thread, client thread, scripted back-end thread and larking's own pump goroutine; pool-discipline and WaitGroup-contract monitors in the sync shims; conformance replay of every script over real grpc-go transports; -race pass over the real-transport runs",
         "For every call script (shape x client sequence x half-close or wait-for-status x back-end read/send/finish behaviour incl. every failure point x request metadata x gRPC or HTTP front) every interleaving up to the preemption bound is executed: the back-end must receive exactly what it would receive directly (messages, EOF, metadata), the client exactly the back-end's replies and final status; hangs are deadlocks of the controlled threads. Every script is then re-run end to end with real grpc-go on both sides and compared with a direct call to the back-end.",
         "The scripted back-end stream follows grpc-go's documented ClientStream contract, confirmed by the conformance pass; response header/trailer metadata is not compared; real-transport schedules are not enumerated.",
         "DESIGN.md §3 C10"),
})

NOT_YET = {}

def main():
    props = [json.loads(l) for l in open("properties.jsonl")]
    checks = []
    na = []
    for p in props:
        pid = p["id"]
        if pid in CHECKS:
            level, tech, text, note, ref = CHECKS[pid]
            checks.append({
                "property_id": pid,
                "quick_cmd": f"./check.sh {pid} quick",
                "thorough_cmd": f"./check.sh {pid} thorough",
                "evidence_file": f"/verif/evidence/{pid}.json",
                "replay_cmd_template": "./check.sh replay {path}",
                "engine": "verif-mc",
                "level_claimed": {"category": level, "text": text, "design_ref": ref},
                "level_note": note,
                "technique": tech,
            })
        else:
            na.append({"property_id": pid, "reason": NOT_YET.get(pid, "check not built yet in this tree (planned per DESIGN.md §3); not claimed until it exists and passes")})
    hooks_commits = [l.strip() for l in open("hooks_commits.txt") if l.strip()]
    m = {
        "version": 1,
        "setup_cmd": "./setup.sh",
        "hooks": {
            "guard": "verif (Go build tag)",
            "enable": "go build -tags verif (file larking/verif_hooks.go); scheduler shims are injected with go build -overlay from /verif, /repo untouched",
            "baseline_off_cmd": BASE_OFF,
            "source_commits": hooks_commits,
            "add_only": True,
        },
        "engines": [{
            "name": "verif-mc",
            "path": "/verif/mc",
            "serves_properties": sorted(CHECKS),
            "kind_free_text": "hand-written Go explorer: bounded-exhaustive enumeration of inputs/configurations, environment-answer (read schedule / fault) DFS, explicit-state search over registration histories and a controlled scheduler injected by go build -overlay; all on the real code against small reference models",
        }],
        "checks": checks,
        "not_applicable": na,
        "notes": "All checks: ./check.sh <ID> quick|thorough rebuilds the checker against /repo's working tree. known_findings.json lists recorded (unrepaired) defects and, for the record, repaired ones.",
    }
    json.dump(m, open("MANIFEST.json", "w"), indent=1)
    print("checks:", len(checks), "not_applicable:", len(na))

main()
