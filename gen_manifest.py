#!/usr/bin/env python3
"""Regenerates MANIFEST.json from the table below (kept in one place so it stays valid)."""
import json, sys

BASE_OFF = "cd /repo && go test -mod=mod -json -vet=off -count=1 -timeout 25m ./..."

# id -> (level, technique, level text, level note, design ref)
CHECKS = {
 "C17": ("model_checking",
         "exhaustive enumeration of read schedules (all 2^(n-1) partitions x EOF convention x carry split x limit) on the real codecs against the message sequence as reference model",
         "Every read schedule of the scripted reader (all partitions of short streams, all carry-over splits, both EOF conventions, limits around each message size, truncation at every offset, every 1..10-byte length prefix over a small byte alphabet) is executed on the real CodecProto/CodecJSON/HttpBody chunker; the oracle is the written sequence itself. Exhaustive within the stated alphabets; states = (bytes consumed, carry length, message index).",
         "Trusts the scripted reader as a model of io.Reader (incl. n>0 with io.EOF); limit<=0 not exercised; long streams use uniform chunkings and <=1 cut instead of all partitions.",
         "DESIGN.md §3 C17"),
}

NOT_YET = {}

def main():
    props = [json.loads(l) for l in open("properties.jsonl")]
    checks = []
    na = []
    for p in props:
        pid = p["id"]
        if pid in CHECKS:
            level, tech, text, note, ref = CHECKS[pid]
            checks.append({
                "property_id": pid,
                "quick_cmd": f"./check.sh {pid} quick",
                "thorough_cmd": f"./check.sh {pid} thorough",
                "evidence_file": f"/verif/evidence/{pid}.json",
                "replay_cmd_template": "./check.sh replay {path}",
                "engine": "verif-mc",
                "level_claimed": {"category": level, "text": text, "design_ref": ref},
                "level_note": note,
                "technique": tech,
            })
        else:
            na.append({"property_id": pid, "reason": NOT_YET.get(pid, "check not built yet in this tree (planned per DESIGN.md §3); not claimed until it exists and passes")})
    hooks_commits = [l.strip() for l in open("hooks_commits.txt") if l.strip()]
    m = {
        "version": 1,
        "setup_cmd": "./setup.sh",
        "hooks": {
            "guard": "verif (Go build tag)",
            "enable": "go build -tags verif (file larking/verif_hooks.go); scheduler shims are injected with go build -overlay from /verif, /repo untouched",
            "baseline_off_cmd": BASE_OFF,
            "source_commits": hooks_commits,
            "add_only": True,
        },
        "engines": [{
            "name": "verif-mc",
            "path": "/verif/mc",
            "serves_properties": sorted(CHECKS),
            "kind_free_text": "hand-written Go explorer: bounded-exhaustive enumeration of inputs/configurations, environment-answer (read schedule / fault) DFS, explicit-state search over registration histories and a controlled scheduler injected by go build -overlay; all on the real code against small reference models",
        }],
        "checks": checks,
        "not_applicable": na,
        "notes": "All checks: ./check.sh <ID> quick|thorough rebuilds the checker against /repo's working tree. known_findings.json lists recorded (unrepaired) defects and, for the record, repaired ones.",
    }
    json.dump(m, open("MANIFEST.json", "w"), indent=1)
    print("checks:", len(checks), "not_applicable:", len(na))

main()
