#!/bin/bash
# usage: seedtest.sh <patch.diff> <ID> [<ID>...]   apply a property-breaking change to /repo, run
# the quick checks of the given properties, undo the change. Prints one line per check.
set -u
PATCH=$(readlink -f "$1"); shift
cd /repo || exit 2
if [ -n "$(git status --porcelain)" ]; then echo "seedtest: /repo is not clean"; exit 2; fi
git apply "$PATCH" || { echo "seedtest: patch does not apply"; exit 2; }
trap 'git -C /repo checkout -- . ; git -C /repo clean -fdq larking health 2>/dev/null' EXIT
export GOFLAGS=-mod=mod GOPROXY=off GOSUMDB=off GOTOOLCHAIN=local
if ! go build ./... >/dev/null 2>&1; then echo "seedtest: does not compile"; exit 2; fi
TIER=${TIER:-quick}
for id in "$@"; do
  out=$(cd /verif && ./check.sh "$id" "$TIER" 2>&1); rc=$?
  classes=$(echo "$out" | grep -a "violation classes" | head -1 | cut -c1-300)
  first=$(echo "$out" | grep -a -A1 "^VIOLATION" | grep -a "oracle=" | head -1 | cut -c1-300)
  echo "RESULT $id rc=$rc $classes"
  [ -n "$first" ] && echo "   $first"
done
