#!/bin/bash
# Builds the checker once (warms the Go build cache) and runs the explorer self-tests.
set -eu
HERE=$(cd "$(dirname "$0")" && pwd)
export GOFLAGS=-mod=mod GOPROXY=off GOSUMDB=off GOTOOLCHAIN=local
cd "$HERE/mc"
go build -tags verif -o /dev/null ./cmd/verif
# warm the caches of the scheduler-overlay and the -race variants as well
OVL=$(mktemp -d /var/tmp/verif-setup.XXXXXX)
trap 'rm -rf "$OVL"' EXIT
go run ./cmd/overlaygen -repo /repo -out "$OVL/overlay" >/dev/null
go build -tags verif -overlay "$OVL/overlay/overlay.json" -ldflags "-X main.schedOverlay=1" -o /dev/null ./cmd/verif
go build -race -tags verif -o /dev/null ./cmd/verif
go test -tags verif -count=1 ./explore/... ./sched/... ./env/... ./report/... ./ref/... 2>&1 | tail -20
echo "setup ok"
