#!/bin/bash
# Builds the checker once (warms the Go build cache) and runs the explorer self-tests.
set -eu
HERE=$(cd "$(dirname "$0")" && pwd)
export GOFLAGS=-mod=mod GOPROXY=off GOSUMDB=off GOTOOLCHAIN=local
cd "$HERE/mc"
go build -tags verif -o /dev/null ./cmd/verif
go test -tags verif -count=1 ./explore/... ./env/... ./report/... ./ref/... 2>&1 | tail -20
echo "setup ok"
