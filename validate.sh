#!/bin/bash
# Validates MANIFEST.json and every evidence file against the schemas.
python3-vt - <<'PY'
import json,jsonschema,glob,sys
jsonschema.validate(json.load(open('/verif/MANIFEST.json')), json.load(open('/root/.vp/MANIFEST.schema.json')))
print('manifest ok')
es=json.load(open('/root/.vp/EVIDENCE.schema.json'))
for f in sorted(glob.glob('/verif/evidence/*.json')):
    jsonschema.validate(json.load(open(f)), es)
    print('ok', f)
PY
