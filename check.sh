#!/bin/bash
# usage: ./check.sh <ID> <quick|thorough>     run the check for one property
#        ./check.sh replay <path>              re-execute one recorded violation
# Rebuilds the checker against /repo's *current working tree* on every call (go build is
# incremental), with the `verif` build tag enabled.  Exit 0 = property held on everything
# explored; exit 1 + "VIOLATION property=<ID> replay=<path>" = violation; exit 2/3 = the
# checker itself could not be built / run.
set -u
HERE=$(cd "$(dirname "$0")" && pwd)
export GOFLAGS=-mod=mod GOPROXY=off GOSUMDB=off GOTOOLCHAIN=local
export VERIF_ROOT="$HERE"
SCRATCH=$(mktemp -d /var/tmp/verif-check.XXXXXX)
trap 'rm -rf "$SCRATCH"' EXIT

ID=${1:?property id or "replay"}
ARG=${2:-quick}

build_plain() {
  (cd "$HERE/mc" && go build -tags verif -o "$SCRATCH/verif" ./cmd/verif) >"$SCRATCH/build.log" 2>&1 || {
    cat "$SCRATCH/build.log"; echo "BUILD-FAILED (plain) for $ID"; exit 2; }
}
build_sched() {
  (cd "$HERE/mc" && go run ./cmd/overlaygen -repo /repo -out "$SCRATCH/overlay" >"$SCRATCH/overlay.log" 2>&1 &&
    go build -tags verif -overlay "$SCRATCH/overlay/overlay.json" -ldflags "-X main.schedOverlay=1" -o "$SCRATCH/verif-sched" ./cmd/verif) >"$SCRATCH/build.log" 2>&1 || {
    cat "$SCRATCH/overlay.log" "$SCRATCH/build.log" 2>/dev/null; echo "BUILD-FAILED (sched overlay) for $ID"; exit 2; }
}

build_race() {
  (cd "$HERE/mc" && go build -race -tags verif -o "$SCRATCH/verif-race" ./cmd/verif) >"$SCRATCH/build-race.log" 2>&1 || {
    cat "$SCRATCH/build-race.log"; echo "BUILD-FAILED (race) for $ID"; exit 2; }
  export VERIF_RACE_BIN="$SCRATCH/verif-race"
}

needs_sched() { case "$1" in C10|C11|C12|C13|C15) return 0;; *) return 1;; esac; }
needs_race() { case "$1" in C10|C12|C13) return 0;; *) return 1;; esac; }

if [ "$ID" = replay ]; then
  PROP=$(sed -n 's/.*"property": *"\([A-Z0-9]*\)".*/\1/p' "$ARG" | head -1)
  if needs_sched "$PROP"; then build_sched; exec_bin="$SCRATCH/verif-sched"; else build_plain; exec_bin="$SCRATCH/verif"; fi
  "$exec_bin" replay "$ARG" --root "$HERE"
  exit $?
fi

if needs_sched "$ID"; then
  build_sched
  if needs_race "$ID"; then build_race; fi
  "$SCRATCH/verif-sched" check "$ID" --tier "$ARG" --root "$HERE"
else
  build_plain
  "$SCRATCH/verif" check "$ID" --tier "$ARG" --root "$HERE"
fi
exit $?
