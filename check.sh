#!/bin/bash
# usage: ./check.sh <ID> <quick|thorough>     run the check for one property
#        ./check.sh replay <path>              re-execute one recorded violation
# Rebuilds the checker against /repo's *current working tree* on every call (go build is
# incremental), with the `verif` build tag enabled.  Exit 0 = property held on everything
# explored; exit 1 + "VIOLATION property=<ID> replay=<path>" = violation; exit 2/3 = the
# checker itself could not be built / run.
set -u
HERE=$(cd "$(dirname "$0")" && pwd)
export GOFLAGS=-mod=mod GOPROXY=off GOSUMDB=off GOTOOLCHAIN=local
export VERIF_ROOT="$HERE"
SCRATCH=$(mktemp -d /var/tmp/verif-check.XXXXXX)
trap 'rm -rf "$SCRATCH"' EXIT

ID=${1:?property id or "replay"}
ARG=${2:-quick}

# VERIF_REPO (default /repo): the tree to check. Anything else (a snapshot for a long background
# run) is checked through a scratch copy of the checker module whose replace directive points there.
REPO=${VERIF_REPO:-/repo}
MC="$HERE/mc"
if [ "$REPO" != /repo ]; then
  cp -r "$HERE/mc" "$SCRATCH/mc" && MC="$SCRATCH/mc"
  (cd "$MC" && go mod edit -replace "larking.io=$REPO") || { echo "BUILD-FAILED (cannot point the checker at $REPO)"; exit 2; }
fi

build_plain() {
  (cd "$MC" && go build -tags verif -o "$SCRATCH/verif" ./cmd/verif) >"$SCRATCH/build.log" 2>&1 || {
    cat "$SCRATCH/build.log"; echo "BUILD-FAILED (plain) for $ID"; exit 2; }
}
build_sched() {
  (cd "$MC" && go run ./cmd/overlaygen -repo "$REPO" -out "$SCRATCH/overlay" >"$SCRATCH/overlay.log" 2>&1 &&
    go build -tags verif -overlay "$SCRATCH/overlay/overlay.json" -ldflags "-X main.schedOverlay=1" -o "$SCRATCH/verif-sched" ./cmd/verif) >"$SCRATCH/build.log" 2>&1 || {
    cat "$SCRATCH/overlay.log" "$SCRATCH/build.log" 2>/dev/null; echo "BUILD-FAILED (sched overlay) for $ID"; exit 2; }
}

build_race() {
  (cd "$MC" && go build -race -tags verif -o "$SCRATCH/verif-race" ./cmd/verif) >"$SCRATCH/build-race.log" 2>&1 || {
    cat "$SCRATCH/build-race.log"; echo "BUILD-FAILED (race) for $ID"; exit 2; }
  export VERIF_RACE_BIN="$SCRATCH/verif-race"
}

needs_sched() { case "$1" in C10|C11|C12|C13|C15) return 0;; *) return 1;; esac; }
needs_race() { case "$1" in C10|C12|C13) return 0;; *) return 1;; esac; }

if [ "$ID" = replay ]; then
  PROP=$(sed -n 's/.*"property": *"\([A-Z0-9]*\)".*/\1/p' "$ARG" | head -1)
  if grep -q '"go-runtime-fatal-error-in-larking"' "$ARG"; then
    exec "$0" "$PROP" quick # the crash needs the check's parallel workers: run the check again
  fi
  if needs_sched "$PROP"; then build_sched; exec_bin="$SCRATCH/verif-sched"; else build_plain; exec_bin="$SCRATCH/verif"; fi
  "$exec_bin" replay "$ARG" --root "$HERE"
  exit $?
fi

if needs_sched "$ID"; then
  build_sched
  if needs_race "$ID"; then build_race; fi
  "$SCRATCH/verif-sched" check "$ID" --tier "$ARG" --root "$HERE" 2>&1 | tee "$SCRATCH/run.log"
  rc=${PIPESTATUS[0]}
else
  build_plain
  "$SCRATCH/verif" check "$ID" --tier "$ARG" --root "$HERE" 2>&1 | tee "$SCRATCH/run.log"
  rc=${PIPESTATUS[0]}
fi
# A Go runtime "fatal error" (concurrent map writes, ...) cannot be recovered inside the checker:
# the process is gone before it can report. When the crash is in larking's own code it is what the
# code under test did to the checker's parallel workers, i.e. a violation, not a harness fault.
if [ "$rc" != 0 ] && [ "$rc" != 1 ] && grep -a -q '^fatal error:' "$SCRATCH/run.log" \
   && grep -a -A40 '^fatal error:' "$SCRATCH/run.log" | grep -a -q 'larking.io/larking\.'; then
  mkdir -p "$HERE/replays/$ID"
  what=$(grep -a -m1 '^fatal error:' "$SCRATCH/run.log")
  rp="$HERE/replays/$ID/runtime-fatal-$(echo "$what" | md5sum | cut -c1-12).json"
  python3 - "$ID" "$what" "$SCRATCH/run.log" "$rp" <<'PY'
import json,sys
pid,what,log,out=sys.argv[1:5]
lines=open(log,errors='replace').read().splitlines()
i=next(k for k,l in enumerate(lines) if l.startswith('fatal error:'))
json.dump({"property":pid,"oracle":"go-runtime-fatal-error-in-larking","key":what,
 "note":"the Go runtime aborted the checker inside larking code while its parallel workers exercised independent muxes (state shared between muxes, or an unsynchronised global)",
 "case":{"crash":lines[i:i+60]}},open(out,'w'),indent=1)
PY
  echo "VIOLATION property=$ID replay=$rp"
  echo "  oracle=go-runtime-fatal-error-in-larking $what"
  exit 1
fi
exit $rc
