#!/usr/bin/env python3
"""usage: logfix.py <property> <commit-subject-prefix> <what failed>  — appends a 'fixed:' line to known_findings.json"""
import json,subprocess,sys
prop,prefix,what=sys.argv[1:4]
log=subprocess.check_output(['git','-C','/repo','log','--format=%h %s']).decode().splitlines()
hh=None
for l in log:
    a,s=l.split(' ',1)
    if s.startswith(prefix): hh=a;break
if not hh: raise SystemExit('no commit with subject prefix '+prefix)
p='/verif/known_findings.json'
k=json.load(open(p))
k['fixed'].append(f"fixed: property={prop} {hh} {what}")
json.dump(k,open(p,'w'),indent=1)
print('logged',hh)
