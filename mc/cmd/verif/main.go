// Command verif runs one property check: verif check <ID> --tier quick|thorough, verif replay <file>.
package main

import (
	"encoding/json"
	"flag"
	"fmt"
	"os"
	"strconv"
	"strings"
	"time"

	"verif/explore"
	"verif/props"
	"verif/report"
)

// schedOverlay is set to "1" with -ldflags -X in the scheduler-overlay build.
var schedOverlay = "0"

func main() {
	if len(os.Args) < 3 {
		fmt.Fprintln(os.Stderr, "usage: verif check <ID> [--tier quick|thorough] | verif replay <file> | verif list")
		os.Exit(2)
	}
	cmd := os.Args[1]
	fs := flag.NewFlagSet(cmd, flag.ExitOnError)
	tier := fs.String("tier", envOr("VERIF_TIER", "quick"), "quick|thorough")
	root := fs.String("root", envOr("VERIF_ROOT", "/verif"), "verif root")
	workers := fs.Int("workers", 0, "parallel workers (0 = NumCPU)")
	budget := fs.Duration("budget", 0, "internal deadline (0 = tier default)")
	shard := fs.String("shard", "", "i/n: explore only the i-th of n scenario shards (worker mode)")
	partial := fs.String("partial", "", "worker mode: write mergeable partial results here instead of evidence")
	arg := os.Args[2]
	if cmd == "trace" {
		os.Args = append(os.Args[:3], os.Args[3:]...)
	}
	if cmd == "race" {
		fs.Int("iters", 150, "iterations per scenario")
	}
	if cmd != "trace" {
		_ = fs.Parse(os.Args[3:])
	}
	report.Root = *root
	if *workers > 0 {
		explore.Workers = *workers
	}
	seed, _ := strconv.ParseInt(os.Getenv("VERIF_SEED"), 10, 64)

	switch cmd {
	case "list":
		for _, id := range props.IDs() {
			fmt.Println(id)
		}
	case "check":
		ch := props.Lookup(arg)
		if ch == nil {
			fmt.Fprintf(os.Stderr, "unknown property %q\n", arg)
			os.Exit(2)
		}
		if ch.NeedsSched && schedOverlay != "1" {
			fmt.Fprintf(os.Stderr, "%s needs the scheduler-overlay build\n", arg)
			os.Exit(3)
		}
		run := report.NewRun(ch.ID, *tier, seed, ch.Level)
		d := *budget
		if d == 0 {
			d = 8 * time.Minute
			if *tier == "thorough" {
				d = 40 * time.Minute
			}
		}
		run.Deadline = time.Now().Add(d)
		ctx := &props.Ctx{Run: run, Tier: *tier, Seed: seed, Sched: schedOverlay == "1"}
		if *shard != "" {
			fmt.Sscanf(*shard, "%d/%d", &ctx.Shard, &ctx.Shards)
		}
		ch.Run(ctx)
		if *partial != "" {
			if err := run.ExportPartial(*partial); err != nil {
				fmt.Fprintln(os.Stderr, err)
				os.Exit(3)
			}
			os.Exit(0)
		}
		os.Exit(run.Finish())
	case "trace":
		// verif trace <ID> <scenario> <comma separated choices>: print the schedule's trace and log
		var choices []int
		if len(os.Args) > 4 && os.Args[4] != "" {
			for _, f := range strings.Split(os.Args[4], ",") {
				n, _ := strconv.Atoi(strings.TrimSpace(f))
				choices = append(choices, n)
			}
		}
		props.TraceScenario(arg, os.Args[3], choices)
		return
	case "race":
		it := 150
		if n, err := strconv.Atoi(envOr("VERIF_RACE_ITERS", "")); err == nil {
			it = n
		}
		for i, a := range os.Args {
			if a == "--iters" && i+1 < len(os.Args) {
				if n, err := strconv.Atoi(os.Args[i+1]); err == nil {
					it = n
				}
			}
		}
		os.Exit(props.RunFree(arg, it, *tier == "thorough"))
	case "replay":
		b, err := os.ReadFile(arg)
		if err != nil {
			fmt.Fprintln(os.Stderr, err)
			os.Exit(2)
		}
		var v report.Violation
		if err := json.Unmarshal(b, &v); err != nil {
			fmt.Fprintln(os.Stderr, err)
			os.Exit(2)
		}
		ch := props.Lookup(v.Property)
		if ch == nil || ch.Replay == nil {
			fmt.Fprintf(os.Stderr, "no replayer for %q\n", v.Property)
			os.Exit(2)
		}
		report.Root = os.TempDir() // replays never touch evidence
		run := report.NewRun(ch.ID, "quick", seed, ch.Level)
		report.Root = *root
		ch.Replay(&props.Ctx{Run: run, Tier: "quick", Seed: seed, Sched: schedOverlay == "1", ReplayOf: arg}, v)
		if run.NumViolations() > 0 {
			fmt.Printf("VIOLATION property=%s replay=%s\n", v.Property, arg)
			os.Exit(1)
		}
		fmt.Println("replay: property held on this case")
	default:
		os.Exit(2)
	}
}

func envOr(k, d string) string {
	if v := os.Getenv(k); v != "" {
		return v
	}
	return d
}
