// Command overlaygen rewrites the non-test Go files of /repo/larking so that their
// synchronisation goes through the verif shims, and writes a `go build -overlay` file.
// It is run at check time, so whatever is in /repo's working tree is what gets explored.
//
//	"sync"        -> sync   "verif/shim/vsync"
//	"sync/atomic" -> atomic "verif/shim/vatomic"
//	"math/rand"   -> rand   "verif/shim/vrand"
//	go f(x)       -> vsched.Go(func() { f(x) })   (arguments are evaluated first)
package main

import (
	"encoding/json"
	"flag"
	"fmt"
	"go/ast"
	"go/parser"
	"go/printer"
	"go/token"
	"os"
	"path/filepath"
	"strconv"
	"strings"
)

var rewrites = map[string][2]string{
	"sync":        {"sync", "verif/shim/vsync"},
	"sync/atomic": {"atomic", "verif/shim/vatomic"},
	"math/rand":   {"rand", "verif/shim/vrand"},
}

func main() {
	repo := flag.String("repo", "/repo", "repository root")
	out := flag.String("out", "", "output directory")
	pkgs := flag.String("pkgs", "larking", "comma separated package directories under the repo")
	flag.Parse()
	if *out == "" {
		fmt.Fprintln(os.Stderr, "overlaygen: -out required")
		os.Exit(2)
	}
	replace := map[string]string{}
	nGo, nImp := 0, 0
	for _, pkg := range strings.Split(*pkgs, ",") {
		dir := filepath.Join(*repo, pkg)
		ents, err := os.ReadDir(dir)
		if err != nil {
			fmt.Fprintln(os.Stderr, err)
			os.Exit(1)
		}
		outDir := filepath.Join(*out, pkg)
		if err := os.MkdirAll(outDir, 0o755); err != nil {
			panic(err)
		}
		for _, e := range ents {
			name := e.Name()
			if e.IsDir() || !strings.HasSuffix(name, ".go") || strings.HasSuffix(name, "_test.go") {
				continue
			}
			src := filepath.Join(dir, name)
			fset := token.NewFileSet()
			f, err := parser.ParseFile(fset, src, nil, parser.ParseComments)
			if err != nil {
				fmt.Fprintf(os.Stderr, "overlaygen: %v\n", err)
				os.Exit(1)
			}
			changed := false
			for _, imp := range f.Imports {
				p, _ := strconv.Unquote(imp.Path.Value)
				if rw, ok := rewrites[p]; ok {
					if imp.Name == nil {
						imp.Name = ast.NewIdent(rw[0])
					}
					imp.Path.Value = strconv.Quote(rw[1])
					changed = true
					nImp++
				}
			}
			goCount := rewriteGo(f)
			if goCount > 0 {
				addImport(f, "vsched", "verif/sched")
				changed = true
				nGo += goCount
			}
			if !changed {
				continue
			}
			dst := filepath.Join(outDir, name)
			w, err := os.Create(dst)
			if err != nil {
				panic(err)
			}
			if err := printer.Fprint(w, fset, f); err != nil {
				panic(err)
			}
			w.Close()
			replace[src] = dst
		}
	}
	b, _ := json.MarshalIndent(map[string]any{"Replace": replace}, "", " ")
	if err := os.WriteFile(filepath.Join(*out, "overlay.json"), b, 0o644); err != nil {
		panic(err)
	}
	fmt.Printf("overlaygen: %d files rewritten (%d imports, %d go statements)\n", len(replace), nImp, nGo)
}

func addImport(f *ast.File, name, path string) {
	spec := &ast.ImportSpec{Name: ast.NewIdent(name), Path: &ast.BasicLit{Kind: token.STRING, Value: strconv.Quote(path)}}
	for _, d := range f.Decls {
		if gd, ok := d.(*ast.GenDecl); ok && gd.Tok == token.IMPORT {
			gd.Specs = append(gd.Specs, spec)
			if !gd.Lparen.IsValid() {
				gd.Lparen = gd.Pos()
				gd.Rparen = gd.End()
			}
			f.Imports = append(f.Imports, spec)
			return
		}
	}
	gd := &ast.GenDecl{Tok: token.IMPORT, Specs: []ast.Spec{spec}}
	f.Decls = append([]ast.Decl{gd}, f.Decls...)
	f.Imports = append(f.Imports, spec)
}

// rewriteGo replaces every `go call` by an expression statement calling vsched.Go.
func rewriteGo(f *ast.File) int {
	n := 0
	var fix func(list []ast.Stmt)
	rewrite := func(s ast.Stmt) ast.Stmt {
		g, ok := s.(*ast.GoStmt)
		if !ok {
			return s
		}
		n++
		call := g.Call
		if len(call.Args) == 0 {
			if _, isLit := call.Fun.(*ast.FuncLit); isLit {
				// go func(){...}()  ->  vsched.Go(func(){...})
				return &ast.ExprStmt{X: &ast.CallExpr{Fun: sel("vsched", "Go"), Args: []ast.Expr{call.Fun}}}
			}
		}
		// general form: evaluate function value and arguments now, call later
		var lhs, rhs []ast.Expr
		fn := ast.NewIdent("_vgo_fn")
		lhs, rhs = append(lhs, fn), append(rhs, call.Fun)
		var args []ast.Expr
		for i, a := range call.Args {
			id := ast.NewIdent(fmt.Sprintf("_vgo_a%d", i))
			lhs, rhs = append(lhs, id), append(rhs, a)
			args = append(args, id)
		}
		inner := &ast.CallExpr{Fun: fn, Args: args, Ellipsis: call.Ellipsis}
		body := &ast.BlockStmt{List: []ast.Stmt{
			&ast.AssignStmt{Lhs: lhs, Tok: token.DEFINE, Rhs: rhs},
			&ast.ExprStmt{X: &ast.CallExpr{Fun: sel("vsched", "Go"), Args: []ast.Expr{&ast.FuncLit{Type: &ast.FuncType{Params: &ast.FieldList{}}, Body: &ast.BlockStmt{List: []ast.Stmt{&ast.ExprStmt{X: inner}}}}}}},
		}}
		return body
	}
	fix = func(list []ast.Stmt) {
		for i := range list {
			list[i] = rewrite(list[i])
		}
	}
	ast.Inspect(f, func(nd ast.Node) bool {
		switch b := nd.(type) {
		case *ast.BlockStmt:
			fix(b.List)
		case *ast.CaseClause:
			fix(b.Body)
		case *ast.CommClause:
			fix(b.Body)
		case *ast.LabeledStmt:
			b.Stmt = rewrite(b.Stmt)
		}
		return true
	})
	return n
}

func sel(pkg, name string) ast.Expr {
	return &ast.SelectorExpr{X: ast.NewIdent(pkg), Sel: ast.NewIdent(name)}
}
