package explore

import (
	"fmt"
	"strings"
	"time"

	"verif/sched"
)

// DFS is the deviation-bounded stateless explorer over choice sequences.
//
// Run must execute the system under sched.Run(prefix, …) and return the finished scheduler;
// Check is the oracle for one execution. The cost of an execution is its number of
// preemptions (a scheduling choice other than "keep the running thread" while that thread
// was still enabled) plus the number of non-default environment answers.
type DFS struct {
	Bound    int // maximum cost; < 0 = unbounded
	Run      func(prefix []int) *sched.S
	Check    func(x *sched.S)
	Deadline time.Time
	MaxExec  int64

	Executions  int64
	Points      int64 // choice points seen (transitions)
	MaxDepth    int
	Truncated   bool   // a cap (deadline / MaxExec) was hit
	HarnessErr  string // replay divergence: the harness is not deterministic
	Deadlocks   int64
	Livelocks   int64
	firstLogSet bool
	LastPrefix  []int // the prefix of the most recent execution (debugging)

	// Stateful exploration (only meaningful with Bound < 0): Visited holds the canonical keys
	// (sched.PointRec.StateKey) of the states whose outgoing choices have been or are being
	// expanded; an execution stops expanding at the first already-visited state it runs into.
	Stateful    bool
	Visited     map[string]struct{}
	Pruned      int64 // executions cut short at a visited state
	Transitions int64 // choices expanded out of distinct states
}

func choiceCost(p sched.PointRec, c int) int {
	if c == 0 {
		return 0
	}
	if p.Kind == sched.KindEnv {
		return 1
	}
	if p.RunningEnabled {
		return 1
	}
	return 0
}

// Explore runs the whole tree below the empty prefix.
func (d *DFS) Explore() { d.explore(nil, 0) }

// ExploreFrom explores the subtree below a prefix whose cost is known.
func (d *DFS) ExploreFrom(prefix []int, cost int) { d.explore(prefix, cost) }

func (d *DFS) stop() bool {
	if d.HarnessErr != "" {
		return true
	}
	if d.MaxExec > 0 && d.Executions >= d.MaxExec {
		d.Truncated = true
		return true
	}
	if !d.Deadline.IsZero() && d.Executions%64 == 0 && time.Now().After(d.Deadline) {
		d.Truncated = true
		return true
	}
	return false
}

func (d *DFS) explore(prefix []int, prefixCost int) {
	if d.stop() {
		return
	}
	d.LastPrefix = prefix
	x := d.Run(prefix)
	d.Executions++
	d.Points += int64(len(x.Trace))
	if len(x.Trace) > d.MaxDepth {
		d.MaxDepth = len(x.Trace)
	}
	if x.Diverged != "" {
		d.HarnessErr = fmt.Sprintf("replay of prefix %v diverged: %s", prefix, x.Diverged)
		return
	}
	if len(x.Trace) < len(prefix) {
		d.HarnessErr = fmt.Sprintf("replay of prefix %v ended after %d points", prefix, len(x.Trace))
		return
	}
	if x.Deadlock {
		d.Deadlocks++
	}
	if x.Livelock {
		d.Livelocks++
	}
	d.Check(x)
	cost := prefixCost
	choices := x.Choices()
	for i := len(prefix); i < len(x.Trace); i++ {
		p := x.Trace[i]
		if d.Stateful {
			if p.StateKey == "" {
				d.HarnessErr = "stateful exploration without state keys (sched.TrackState is off)"
				return
			}
			if _, seen := d.Visited[p.StateKey]; seen {
				d.Pruned++
				break
			}
			d.Visited[p.StateKey] = struct{}{}
			d.Transitions += int64(p.N)
		}
		for alt := 1; alt < p.N; alt++ {
			c := cost + choiceCost(p, alt)
			if d.Bound >= 0 && c > d.Bound {
				continue
			}
			next := append(append(make([]int, 0, i+1), choices[:i]...), alt)
			d.explore(next, c)
			if d.stop() {
				return
			}
		}
		// the default choice (0) taken at this point is free
	}
}

// FormatTrace renders a schedule for replay files.
func FormatTrace(tr []sched.PointRec) []string {
	var out []string
	for i, p := range tr {
		k := "sched"
		if p.Kind == sched.KindEnv {
			k = "env"
		}
		out = append(out, fmt.Sprintf("%d: %s choice %d/%d thread=%d %s", i, k, p.Chosen, p.N, p.Thread, p.Label))
	}
	return out
}

// HasPanic reports a real panic recorded in the execution log.
func HasPanic(x *sched.S) (string, bool) {
	for _, l := range x.Log {
		if strings.Contains(l, "PANIC in thread") {
			return l, true
		}
	}
	return "", false
}
