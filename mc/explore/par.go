// Package explore holds the enumeration drivers: parallel odometers and the
// deviation-bounded choice-sequence DFS.
package explore

import (
	"runtime"
	"sync"
	"sync/atomic"
)

// Workers is the number of parallel workers used by ParallelFor.
var Workers = runtime.NumCPU()

// ParallelFor runs fn(i) for i in [0,n) on Workers goroutines (dynamic scheduling, chunked).
// stop() is polled between items; when it returns true remaining items are skipped and
// ParallelFor reports false (not everything was executed).
func ParallelFor(n int, stop func() bool, fn func(worker, i int)) bool {
	if n == 0 {
		return true
	}
	var next int64
	var skipped atomic.Bool
	var wg sync.WaitGroup
	w := Workers
	if w > n {
		w = n
	}
	for k := 0; k < w; k++ {
		wg.Add(1)
		go func(k int) {
			defer wg.Done()
			for {
				i := int(atomic.AddInt64(&next, 1)) - 1
				if i >= n {
					return
				}
				if stop != nil && stop() {
					skipped.Store(true)
					return
				}
				fn(k, i)
			}
		}(k)
	}
	wg.Wait()
	return !skipped.Load()
}
