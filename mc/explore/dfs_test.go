package explore

import (
	"testing"

	"verif/sched"
	"verif/shim/vatomic"
	"verif/shim/vsync"
)

// Toy 1: lost update. Two threads do a non-atomic increment through atomic Load/Store.
func lostUpdate(prefix []int, result *int64) *sched.S {
	return sched.Run(prefix, 10000, func() {
		var x vatomic.Int64
		var wg vsync.WaitGroup
		wg.Add(2)
		for i := 0; i < 2; i++ {
			sched.Go(func() {
				v := x.Load()
				x.Store(v + 1)
				wg.Done()
			})
		}
		wg.Wait()
		*result = x.Load()
	})
}

func TestLostUpdate(t *testing.T) {
	for bound, wantLost := range map[int]bool{0: false, 1: true, 2: true} {
		outcomes := map[int64]int{}
		var res int64
		d := &DFS{Bound: bound, Run: func(p []int) *sched.S { return lostUpdate(p, &res) }, Check: func(x *sched.S) {
			if x.Deadlock {
				t.Fatalf("unexpected deadlock: %s", x.DeadInfo)
			}
			outcomes[res]++
		}}
		d.Explore()
		if d.HarnessErr != "" {
			t.Fatal(d.HarnessErr)
		}
		if (outcomes[1] > 0) != wantLost || outcomes[2] == 0 {
			t.Errorf("bound %d: outcomes %v (executions %d)", bound, outcomes, d.Executions)
		}
		t.Logf("bound %d: executions=%d outcomes=%v", bound, d.Executions, outcomes)
	}
}

// Toy 2: lock-order inversion deadlocks under one preemption.
func TestDeadlock(t *testing.T) {
	run := func(p []int) *sched.S {
		return sched.Run(p, 10000, func() {
			var a, b vsync.Mutex
			var wg vsync.WaitGroup
			wg.Add(2)
			sched.Go(func() { a.Lock(); b.Lock(); b.Unlock(); a.Unlock(); wg.Done() })
			sched.Go(func() { b.Lock(); a.Lock(); a.Unlock(); b.Unlock(); wg.Done() })
			wg.Wait()
		})
	}
	for bound, want := range map[int]bool{0: false, 1: true} {
		d := &DFS{Bound: bound, Run: run, Check: func(x *sched.S) {}}
		d.Explore()
		if d.HarnessErr != "" {
			t.Fatal(d.HarnessErr)
		}
		if (d.Deadlocks > 0) != want {
			t.Errorf("bound %d: deadlocks=%d executions=%d", bound, d.Deadlocks, d.Executions)
		}
	}
}

// Toy 3: an environment answer (short read) exposes a bug only when taken.
func TestEnvChoice(t *testing.T) {
	bad := 0
	run := func(p []int) *sched.S {
		return sched.Run(p, 10000, func() {
			n := 4
			if sched.Choose("short read", 2) == 1 {
				n = 2
			}
			if n != 4 { // planted bug: caller assumes a full read
				bad++
			}
		})
	}
	d := &DFS{Bound: 1, Run: run, Check: func(x *sched.S) {}}
	d.Explore()
	if bad != 1 || d.Executions != 2 {
		t.Errorf("bad=%d executions=%d", bad, d.Executions)
	}
}

// Toy 4: replaying the same schedule twice gives the same log; a pool hit is an env choice.
func TestDeterminismAndPool(t *testing.T) {
	run := func(p []int) *sched.S {
		vsync.ResetPools()
		return sched.Run(p, 10000, func() {
			pool := vsync.Pool{New: func() any { return new(int) }}
			a := pool.Get().(*int)
			*a = 7
			pool.Put(a)
			b := pool.Get().(*int)
			sched.Logf("reused=%v", *b == 7)
		})
	}
	seen := map[string]bool{}
	d := &DFS{Bound: 1, Run: run, Check: func(x *sched.S) { seen[x.Log[0]] = true }}
	d.Explore()
	if len(seen) != 2 {
		t.Errorf("want both pool outcomes, got %v", seen)
	}
	x1, x2 := run([]int{1}), run([]int{1})
	if x1.Log[0] != x2.Log[0] {
		t.Errorf("nondeterministic replay: %v vs %v", x1.Log, x2.Log)
	}
}
