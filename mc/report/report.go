// Package report writes evidence files, violation replays and matches known findings.
package report

import (
	"crypto/sha1"
	"encoding/hex"
	"encoding/json"
	"fmt"
	"os"
	"path/filepath"
	"regexp"
	"sort"
	"strings"
	"sync"
	"sync/atomic"
	"time"
)

// Root is the /verif directory (set by main from --root or VERIF_ROOT).
var Root = "/verif"

// Violation is one failing case, replayable from its Case field.
type Violation struct {
	Property string `json:"property"`
	Oracle   string `json:"oracle"` // short id of the oracle clause that failed
	Key      string `json:"key"`    // canonical identity of the failing case (used for known-finding matching)
	Case     any    `json:"case"`   // what to replay
	Got      any    `json:"got,omitempty"`
	Want     any    `json:"want,omitempty"`
	Note     string `json:"note,omitempty"`
	Repro    string `json:"repro,omitempty"` // e.g. "5/5"
}

type knownFinding struct {
	Property string `json:"property"`
	Oracle   string `json:"oracle"`
	KeyRegex string `json:"key_regex"`
	What     string `json:"what"`
	re       *regexp.Regexp
	seen     int64
}

type knownFile struct {
	Findings []*knownFinding `json:"findings"`
	Fixed    []string        `json:"fixed"`
}

// Run accumulates what one check execution covered.
type Run struct {
	ID    string
	Tier  string
	Seed  int64
	Level string

	start       time.Time
	evaluations atomic.Int64
	mu          sync.Mutex
	distinct    map[string]struct{}
	outcomes    map[string]int64
	samples     []any
	sampleCap   int
	violations  []Violation
	vioClasses  map[string]int
	vioTotal    int
	known       []*knownFinding
	extra       map[string]any
	assumptions []string
	rule        string
	exhaustive  bool
	capsHit     []string
	states      int64
	transitions int64
	validated   int64
	Deadline    time.Time
}

func NewRun(id, tier string, seed int64, level string) *Run {
	r := &Run{ID: id, Tier: tier, Seed: seed, Level: level, start: time.Now(),
		distinct: map[string]struct{}{}, outcomes: map[string]int64{}, sampleCap: 12,
		vioClasses: map[string]int{}, extra: map[string]any{}, exhaustive: true}
	r.loadKnown()
	return r
}

func (r *Run) loadKnown() {
	b, err := os.ReadFile(filepath.Join(Root, "known_findings.json"))
	if err != nil {
		return
	}
	var kf knownFile
	if err := json.Unmarshal(b, &kf); err != nil {
		fmt.Fprintf(os.Stderr, "known_findings.json: %v\n", err)
		os.Exit(3)
	}
	for _, k := range kf.Findings {
		if k.Property != r.ID {
			continue
		}
		k.re = regexp.MustCompile(k.KeyRegex)
		r.known = append(r.known, k)
	}
}

// Eval counts n executed cases.
func (r *Run) Eval(n int64) { r.evaluations.Add(n) }

// Evaluations returns the number of executed cases so far.
func (r *Run) Evaluations() int64 { return r.evaluations.Load() }

// Distinct records a distinct non-trivial case class (dedup by key).
func (r *Run) Distinct(key string) {
	r.mu.Lock()
	r.distinct[key] = struct{}{}
	r.mu.Unlock()
}

// Outcome counts an observed outcome class (for vacuity detection).
func (r *Run) Outcome(key string) {
	r.mu.Lock()
	r.outcomes[key]++
	r.mu.Unlock()
}

// OutcomeN counts n observations of an outcome class.
func (r *Run) OutcomeN(key string, n int64) {
	r.mu.Lock()
	r.outcomes[key] += n
	r.mu.Unlock()
}

// Sample keeps a few actual cases for the evidence file.
func (r *Run) Sample(s any) {
	r.mu.Lock()
	if len(r.samples) < r.sampleCap {
		r.samples = append(r.samples, s)
	}
	r.mu.Unlock()
}

// WantSample reports whether more samples are wanted (cheap pre-check).
func (r *Run) WantSample() bool {
	r.mu.Lock()
	defer r.mu.Unlock()
	return len(r.samples) < r.sampleCap
}

func (r *Run) Rule(s string)          { r.rule = s }
func (r *Run) Assume(s ...string)     { r.assumptions = append(r.assumptions, s...) }
func (r *Run) Set(k string, v any)    { r.mu.Lock(); r.extra[k] = v; r.mu.Unlock() }
func (r *Run) AddStates(n int64)      { atomic.AddInt64(&r.states, n) }
func (r *Run) AddTransitions(n int64) { atomic.AddInt64(&r.transitions, n) }
func (r *Run) AddValidated(n int64)   { atomic.AddInt64(&r.validated, n) }
func (r *Run) CapHit(what string) {
	r.mu.Lock()
	r.exhaustive = false
	r.capsHit = append(r.capsHit, what)
	r.mu.Unlock()
}
func (r *Run) Expired() bool      { return !r.Deadline.IsZero() && time.Now().After(r.Deadline) }
func (r *Run) NumViolations() int { r.mu.Lock(); defer r.mu.Unlock(); return r.vioTotal }
func (r *Run) Add(k string, n int64) {
	r.mu.Lock()
	v, _ := r.extra[k].(int64)
	r.extra[k] = v + n
	r.mu.Unlock()
}
func (r *Run) ElapsedSeconds() float64 { return time.Since(r.start).Seconds() }
func (r *Run) ViolationClasses() int   { r.mu.Lock(); defer r.mu.Unlock(); return len(r.vioClasses) }
func (r *Run) TooManyViolations() bool { r.mu.Lock(); defer r.mu.Unlock(); return r.vioTotal >= 20000 }

// Violation records a failing case. Known findings are matched on (oracle, key).
func (r *Run) Violation(v Violation) {
	v.Property = r.ID
	if v.Oracle == "panic" || v.Oracle == "register-panic" {
		// sub-classify panics by their message so that different crashes get their own replays
		first := v.Note
		if i := strings.IndexByte(first, '\n'); i >= 0 {
			first = first[:i]
		}
		var site string
		for _, l := range strings.Split(v.Note, "\n") {
			if strings.Contains(l, "/repo/larking/") {
				site = l[strings.Index(l, "/repo/larking/")+len("/repo/larking/"):]
				if j := strings.IndexByte(site, ' '); j >= 0 {
					site = site[:j]
				}
				break
			}
		}
		v.Oracle += "[" + site + "]"
		_ = first
	}
	r.mu.Lock()
	defer r.mu.Unlock()
	for _, k := range r.known {
		if (k.Oracle == "" || k.Oracle == v.Oracle) && k.re.MatchString(v.Key) {
			k.seen++
			return
		}
	}
	r.vioClasses[v.Oracle]++
	r.vioTotal++
	if r.vioClasses[v.Oracle] <= 20 {
		r.violations = append(r.violations, v)
	}
}

func keyHash(s string) string {
	h := sha1.Sum([]byte(s))
	return hex.EncodeToString(h[:6])
}

// Finish writes evidence + replay files, prints VIOLATION / KNOWN-FINDING lines and returns the exit code.
func (r *Run) Finish() int {
	r.mu.Lock()
	defer r.mu.Unlock()
	wall := time.Since(r.start).Seconds()

	for _, k := range r.known {
		if k.seen > 0 {
			fmt.Printf("KNOWN-FINDING: property=%s %s (oracle=%s, %d cases)\n", r.ID, k.What, k.Oracle, k.seen)
		}
	}

	// Replay files: at most 5 per oracle class, sorted for determinism.
	sort.SliceStable(r.violations, func(i, j int) bool {
		if r.violations[i].Oracle != r.violations[j].Oracle {
			return r.violations[i].Oracle < r.violations[j].Oracle
		}
		if len(r.violations[i].Key) != len(r.violations[j].Key) {
			return len(r.violations[i].Key) < len(r.violations[j].Key)
		}
		return r.violations[i].Key < r.violations[j].Key
	})
	perClass := map[string]int{}
	dir := filepath.Join(Root, "replays", r.ID)
	printed := 0
	for _, v := range r.violations {
		if perClass[v.Oracle] >= 3 {
			continue
		}
		perClass[v.Oracle]++
		_ = os.MkdirAll(dir, 0o755)
		name := fmt.Sprintf("%s-%s.json", sanitize(v.Oracle), keyHash(v.Key))
		p := filepath.Join(dir, name)
		b, _ := json.MarshalIndent(v, "", " ")
		_ = os.WriteFile(p, append(b, '\n'), 0o644)
		fmt.Printf("VIOLATION property=%s replay=%s\n", r.ID, p)
		fmt.Printf("  oracle=%s key=%s note=%s\n", v.Oracle, trunc(v.Key, 300), trunc(v.Note, 300))
		printed++
	}

	nd := int64(len(r.distinct))
	cov := map[string]any{
		"evaluations":         r.evaluations.Load(),
		"distinct_nontrivial": nd,
		"rule":                r.rule,
		"samples":             r.samples,
		"exhaustive":          r.exhaustive,
		"distinct_outcomes":   len(r.outcomes),
		"outcomes":            topOutcomes(r.outcomes, 40),
	}
	if r.samples == nil {
		cov["samples"] = []any{}
	}
	if len(r.capsHit) > 0 {
		cov["caps_hit"] = r.capsHit
	}
	if r.Level == "model_checking" {
		cov["states"] = atomic.LoadInt64(&r.states)
		cov["transitions"] = atomic.LoadInt64(&r.transitions)
		cov["traces_validated_against_impl"] = atomic.LoadInt64(&r.validated)
	} else if v := atomic.LoadInt64(&r.validated); v > 0 {
		cov["traces_validated_against_impl"] = v
	}
	for k, v := range r.extra {
		cov[k] = v
	}
	var knownSeen []string
	for _, k := range r.known {
		if k.seen > 0 {
			knownSeen = append(knownSeen, fmt.Sprintf("%s: %s (%d cases)", k.Oracle, k.What, k.seen))
		}
	}
	if len(knownSeen) > 0 {
		cov["known_findings_observed"] = knownSeen
	}
	ev := map[string]any{
		"property_id": r.ID,
		"tier":        r.Tier,
		"seed":        r.Seed,
		"level":       r.Level,
		"coverage":    cov,
		"assumptions": r.assumptions,
		"wall_s":      wall,
		"violations":  r.vioTotal,
	}
	if len(r.vioClasses) > 0 {
		ev["violation_classes"] = r.vioClasses
	}
	b, err := json.MarshalIndent(ev, "", " ")
	if err != nil {
		fmt.Fprintf(os.Stderr, "evidence marshal: %v\n", err)
		return 3
	}
	_ = os.MkdirAll(filepath.Join(Root, "evidence"), 0o755)
	if err := os.WriteFile(filepath.Join(Root, "evidence", r.ID+".json"), append(b, '\n'), 0o644); err != nil {
		fmt.Fprintf(os.Stderr, "evidence write: %v\n", err)
		return 3
	}
	fmt.Printf("%s %s: evaluations=%d distinct=%d outcomes=%d states=%d transitions=%d violations=%d exhaustive=%v wall=%.1fs\n",
		r.ID, r.Tier, r.evaluations.Load(), nd, len(r.outcomes), r.states, r.transitions, r.vioTotal, r.exhaustive, wall)
	if len(r.vioClasses) > 0 {
		fmt.Printf("violation classes: %v\n", r.vioClasses)
	}
	if r.vioTotal > 0 {
		return 1
	}
	return 0
}

func topOutcomes(m map[string]int64, n int) map[string]int64 {
	type kv struct {
		k string
		v int64
	}
	var kvs []kv
	for k, v := range m {
		kvs = append(kvs, kv{k, v})
	}
	sort.Slice(kvs, func(i, j int) bool {
		if kvs[i].v != kvs[j].v {
			return kvs[i].v > kvs[j].v
		}
		return kvs[i].k < kvs[j].k
	})
	out := map[string]int64{}
	for i, e := range kvs {
		if i >= n {
			break
		}
		out[e.k] = e.v
	}
	return out
}

func sanitize(s string) string {
	return strings.Map(func(r rune) rune {
		if r >= 'a' && r <= 'z' || r >= 'A' && r <= 'Z' || r >= '0' && r <= '9' || r == '-' || r == '_' {
			return r
		}
		return '_'
	}, s)
}

func trunc(s string, n int) string {
	if len(s) > n {
		return s[:n] + "…"
	}
	return s
}

// Partial is the mergeable state of a Run (used to combine worker subprocesses).
type Partial struct {
	Evaluations int64            `json:"evaluations"`
	Distinct    []string         `json:"distinct"`
	Outcomes    map[string]int64 `json:"outcomes"`
	Samples     []any            `json:"samples"`
	Violations  []Violation      `json:"violations"`
	VioClasses  map[string]int   `json:"vio_classes"`
	VioTotal    int              `json:"vio_total"`
	Extra       map[string]any   `json:"extra"`
	CapsHit     []string         `json:"caps_hit"`
	States      int64            `json:"states"`
	Transitions int64            `json:"transitions"`
	Validated   int64            `json:"validated"`
	KnownSeen   map[string]int64 `json:"known_seen"`
}

// ExportPartial writes the run's state to path instead of finishing it.
func (r *Run) ExportPartial(path string) error {
	r.mu.Lock()
	defer r.mu.Unlock()
	p := Partial{Evaluations: r.evaluations.Load(), Outcomes: r.outcomes, Samples: r.samples, Violations: r.violations, VioClasses: r.vioClasses,
		VioTotal: r.vioTotal, Extra: r.extra, CapsHit: r.capsHit, States: r.states, Transitions: r.transitions, Validated: r.validated, KnownSeen: map[string]int64{}}
	for k := range r.distinct {
		p.Distinct = append(p.Distinct, k)
	}
	for _, k := range r.known {
		if k.seen > 0 {
			p.KnownSeen[k.KeyRegex] = k.seen
		}
	}
	b, err := json.Marshal(p)
	if err != nil {
		return err
	}
	return os.WriteFile(path, b, 0o644)
}

// MergePartial adds a worker's partial results.
func (r *Run) MergePartial(path string) error {
	b, err := os.ReadFile(path)
	if err != nil {
		return err
	}
	var p Partial
	if err := json.Unmarshal(b, &p); err != nil {
		return err
	}
	r.evaluations.Add(p.Evaluations)
	r.mu.Lock()
	defer r.mu.Unlock()
	for _, k := range p.Distinct {
		r.distinct[k] = struct{}{}
	}
	for k, v := range p.Outcomes {
		r.outcomes[k] += v
	}
	for _, s := range p.Samples {
		if len(r.samples) < r.sampleCap {
			r.samples = append(r.samples, s)
		}
	}
	r.violations = append(r.violations, p.Violations...)
	for k, v := range p.VioClasses {
		r.vioClasses[k] += v
	}
	r.vioTotal += p.VioTotal
	for k, v := range p.Extra {
		if old, ok := r.extra[k]; ok {
			// numeric minima for "*_completed*" keys, otherwise keep a list
			if of, ok1 := old.(float64); ok1 {
				if nf, ok2 := v.(float64); ok2 && strings.Contains(k, "completed") {
					if nf < of {
						r.extra[k] = nf
					}
					continue
				}
			}
			if oi, ok1 := old.(int); ok1 {
				if nf, ok2 := v.(float64); ok2 && strings.Contains(k, "completed") {
					if int(nf) < oi {
						r.extra[k] = int(nf)
					}
					continue
				}
			}
			if fmt.Sprint(old) == fmt.Sprint(v) {
				continue
			}
			r.extra[k] = []any{old, v}
			continue
		}
		r.extra[k] = v
	}
	if len(p.CapsHit) > 0 {
		r.exhaustive = false
		r.capsHit = append(r.capsHit, p.CapsHit...)
	}
	r.states += p.States
	r.transitions += p.Transitions
	r.validated += p.Validated
	for _, k := range r.known {
		k.seen += p.KnownSeen[k.KeyRegex]
	}
	return nil
}
