package props

import (
	"bytes"
	"compress/gzip"
	"errors"
	"fmt"
	"io"
	"net/http"
	"net/url"
	"strings"

	"google.golang.org/protobuf/encoding/protojson"
	"google.golang.org/protobuf/proto"
	"google.golang.org/protobuf/reflect/protoreflect"

	"larking.io/larking"

	"verif/dyn"
	"verif/explore"
	"verif/report"
)

// C03 — transcoded request reconstruction: path + query + body rebuild the message.

func init() {
	register(&Check{ID: "C03", Level: "exploration", Run: runC03, Replay: replayC03})
}

// assignment = one field value delivered through one channel with one spelling.
type c03Assign struct {
	Field   string `json:"field"`
	Text    string `json:"text"`    // spelling used on the wire (URL channels)
	Value   string `json:"value"`   // canonical text of the value (identifies it)
	Channel string `json:"channel"` // path | query | queryjson | body
}

type c03Case struct {
	Assigns  []c03Assign `json:"assigns"`
	Rule     string      `json:"rule"`
	Codec    string      `json:"codec,omitempty"` // json | protobuf | octet-stream
	Gzip     bool        `json:"gzip,omitempty"`
	Chunked  bool        `json:"chunked,omitempty"` // body of unknown length (Content-Length -1)
	Accept   string      `json:"accept,omitempty"`  // Accept header (a reply type other than the body's type)
	Rot      bool        `json:"x_rot,omitempty"`   // Content-Encoding: x-rot (the custom compressor)
	Negative bool        `json:"negative,omitempty"`
	Damage   string      `json:"damage,omitempty"` // "" | cut | flip: the gzip body is cut to DamageAt bytes / has byte DamageAt inverted
	DamageAt int         `json:"damage_at,omitempty"`
}

type c03Env struct {
	schema  *routeSchema
	mux     *larking.Mux
	impl    *recImpl
	fields  []fieldRef
	byPath  map[string]fieldRef
	pathIdx map[string]int // field path -> index used in the /pv/<idx>/{field} rules
}

func c03PathFields(fields []fieldRef) []fieldRef {
	var out []fieldRef
	for _, f := range fields {
		fd := f.leaf()
		if fd.IsList() || fd.ContainingOneof() != nil {
			continue
		}
		// wrappers are accepted by larking as path variables; time types contain ':' (not path-safe)
		out = append(out, f)
	}
	return out
}

func newC03Env() (*c03Env, error) {
	schema, err := newComplexSchema()
	if err != nil {
		return nil, err
	}
	e := &c03Env{schema: schema, fields: urlFields(), byPath: map[string]fieldRef{}, pathIdx: map[string]int{}}
	rules := []boundRule{
		{M: 0, Rule: dyn.Rule{Kind: "get", Path: "/c03/q"}},
		{M: 0, Rule: dyn.Rule{Kind: "post", Path: "/c03/b", Body: "*"}},
		{M: 0, Rule: dyn.Rule{Kind: "post", Path: "/c03/n", Body: "nested"}},
		{M: 0, Rule: dyn.Rule{Kind: "put", Path: "/c03/q"}}, // a PUT without body selector: everything in the query
	}
	for _, f := range e.fields {
		e.byPath[f.path] = f
	}
	for i, f := range c03PathFields(e.fields) {
		e.pathIdx[f.path] = i
		rules = append(rules,
			boundRule{M: 0, Rule: dyn.Rule{Kind: "get", Path: fmt.Sprintf("/c03/pv/f%d/{%s}", i, f.path)}},
			boundRule{M: 0, Rule: dyn.Rule{Kind: "post", Path: fmt.Sprintf("/c03/pb/f%d/{%s}", i, f.path), Body: "*"}},
			boundRule{M: 0, Rule: dyn.Rule{Kind: "post", Path: fmt.Sprintf("/c03/pn/f%d/{%s}", i, f.path), Body: "nested"}},
		)
	}
	m, impl, err := schema.newMux(rules, nil, customOpts()...) // plus a custom codec (application/x-rev) and compressor (x-rot)
	if err != nil {
		return nil, err
	}
	e.mux, e.impl = m, impl
	return e, nil
}

// c03Build assembles the HTTP request for a case and the message it must deliver.
func (e *c03Env) build(tc *c03Case) (req *http.Request, want protoreflect.Message, err error) {
	want = newComplexMsg()
	bodyMsg := newComplexMsg()
	q := url.Values{}
	var pathField, pathText string
	hasBody := false
	for _, a := range tc.Assigns {
		ref, ok := e.byPath[a.Field]
		if !ok {
			return nil, nil, fmt.Errorf("unknown field %s", a.Field)
		}
		var val *textVal
		for _, v := range valuesOf(ref) {
			if v.name == a.Value {
				v := v
				val = &v
			}
		}
		if val == nil && !tc.Negative {
			return nil, nil, fmt.Errorf("unknown value %q of %s", a.Value, a.Field)
		}
		if val != nil {
			setRef(want, ref, val.val)
		}
		switch a.Channel {
		case "path":
			pathField, pathText = a.Field, a.Text
		case "query":
			q.Add(ref.path, a.Text)
		case "queryjson":
			q.Add(ref.json, a.Text)
		case "body":
			hasBody = true
			setRef(bodyMsg, ref, val.val)
		}
	}
	var path, verb string
	switch tc.Rule {
	case "q":
		path, verb = "/c03/q", "GET"
	case "putq":
		path, verb = "/c03/q", "PUT"
	case "b":
		path, verb = "/c03/b", "POST"
	case "n":
		path, verb = "/c03/n", "POST"
	case "pv", "pb", "pn":
		idx, ok := e.pathIdx[pathField]
		if !ok {
			return nil, nil, fmt.Errorf("no path rule for %q", pathField)
		}
		path = fmt.Sprintf("/c03/%s/f%d/%s", tc.Rule, idx, pathText)
		verb = "POST"
		if tc.Rule == "pv" {
			verb = "GET"
		}
	default:
		return nil, nil, fmt.Errorf("rule %q", tc.Rule)
	}
	var body []byte
	hdr := http.Header{}
	if hasBody || tc.Rule == "b" || tc.Rule == "pb" {
		var bm proto.Message = bodyMsg.Interface()
		if tc.Rule == "n" || tc.Rule == "pn" {
			nfd := complexDesc.Fields().ByName("nested")
			if !bodyMsg.Has(nfd) {
				bm = nil
			} else {
				bm = bodyMsg.Get(nfd).Message().Interface()
			}
		}
		if bm != nil {
			switch tc.Codec {
			case "protobuf", "octet-stream":
				body, err = proto.Marshal(bm)
				hdr.Set("Content-Type", "application/"+tc.Codec)
			case "x-rev":
				body, err = revCodec{}.Marshal(bm)
				hdr.Set("Content-Type", "application/x-rev")
			case "json":
				body, err = protojson.Marshal(bm)
				hdr.Set("Content-Type", "application/json")
			default: // no Content-Type header: JSON is the default
				body, err = protojson.Marshal(bm)
			}
			if err != nil {
				return nil, nil, err
			}
			if len(body) == 0 && !tc.Gzip && (tc.Rule == "n" || tc.Rule == "pn") {
				// An empty sub-message has no bytes in protobuf: "present but empty" cannot be
				// expressed through a body-field rule; the reference expects it absent.
				want.Clear(complexDesc.Fields().ByName("nested"))
			}
			if tc.Rot {
				body = rotBytes(body)
				hdr.Set("Content-Encoding", "x-rot")
			}
			if tc.Gzip {
				var zb bytes.Buffer
				zw := gzip.NewWriter(&zb)
				zw.Write(body)
				zw.Close()
				body = zb.Bytes()
				hdr.Set("Content-Encoding", "gzip")
				switch {
				case tc.Damage == "cut" && tc.DamageAt < len(body):
					body = body[:tc.DamageAt]
				case tc.Damage == "flip" && tc.DamageAt < len(body):
					body[tc.DamageAt] ^= 0xff
				case tc.Damage != "":
					return nil, nil, errBeyondBody
				}
			}
		}
	}
	if tc.Accept != "" {
		hdr.Set("Accept", tc.Accept)
	}
	req = &http.Request{Method: verb, URL: &url.URL{Path: path, RawQuery: q.Encode()}, Header: hdr,
		Proto: "HTTP/1.1", ProtoMajor: 1, ProtoMinor: 1, Host: "verif.test"}
	if len(body) > 0 {
		req.Body = io.NopCloser(bytes.NewReader(body))
		req.ContentLength = int64(len(body))
		if tc.Chunked {
			req.ContentLength = -1
			req.TransferEncoding = []string{"chunked"}
		}
	} else {
		req.Body = http.NoBody
	}
	return req, want, nil
}

var errBeyondBody = errors.New("damage offset beyond the body")

func (e *c03Env) exec(tc *c03Case) (oracle, note string) {
	req, want, err := e.build(tc)
	if err == errBeyondBody {
		return "", "n/a"
	}
	if err != nil {
		return "harness", err.Error()
	}
	e.impl.reset()
	res := serveReq(e.mux, req)
	if res.Panicked {
		return "panic", res.Panic
	}
	if tc.Damage != "" {
		// a damaged compressed body: refused, or (damage the decompressor does not notice, or only
		// in the trailer) delivered whole - never a message that was not sent
		if e.impl.n > 0 && !proto.Equal(want.Interface(), e.impl.req) {
			return "damaged-body-delivered", fmt.Sprintf("gzip body %s at byte %d: the handler was invoked with {%s}, sent was {%s}", tc.Damage, tc.DamageAt, truncS(fmtMsg(e.impl.req), 300), truncS(fmtMsg(want.Interface()), 300))
		}
		if e.impl.n == 0 && res.Code < 400 {
			return "damaged-body-no-error", fmt.Sprintf("status %d", res.Code)
		}
		return "", ""
	}
	if tc.Negative {
		if e.impl.n > 0 {
			return "invalid-text-coerced", fmt.Sprintf("handler invoked with {%s}", fmtMsg(e.impl.req))
		}
		if res.Code < 400 {
			return "invalid-text-no-error", fmt.Sprintf("status %d", res.Code)
		}
		return "", ""
	}
	if e.impl.n != 1 {
		return "request-refused", fmt.Sprintf("status=%d body=%s", res.Code, truncS(string(res.Body), 200))
	}
	if !proto.Equal(want.Interface(), e.impl.req) {
		return "message-mismatch", fmt.Sprintf("want {%s} got {%s}", fmtMsg(want.Interface()), fmtMsg(e.impl.req))
	}
	return "", ""
}

func truncS(s string, n int) string {
	if len(s) > n {
		return s[:n] + "…"
	}
	return s
}

type c03Gen struct {
	env   *c03Env
	cases []c03Case
}

// singleCases: one field, every value, every spelling, every channel that can carry it.
func (g *c03Gen) singles(thorough bool) {
	codecs := []string{"json", "protobuf"}
	for _, f := range g.env.fields {
		fd := f.leaf()
		vals := valuesOf(f)
		_, hasPathRule := g.env.pathIdx[f.path]
		isNested := strings.HasPrefix(f.path, "nested.")
		for _, v := range vals {
			for ti, text := range v.texts {
				a := c03Assign{Field: f.path, Text: text, Value: v.name}
				// query by proto name and by JSON name, on GET and on a body-less PUT
				a.Channel = "query"
				g.cases = append(g.cases, c03Case{Assigns: []c03Assign{a}, Rule: "q"})
				a.Channel = "queryjson"
				g.cases = append(g.cases, c03Case{Assigns: []c03Assign{a}, Rule: "q"})
				if ti == 0 {
					g.cases = append(g.cases, c03Case{Assigns: []c03Assign{a}, Rule: "putq"})
				}
				if hasPathRule && v.pathSafe[ti] {
					a.Channel = "path"
					g.cases = append(g.cases, c03Case{Assigns: []c03Assign{a}, Rule: "pv"})
					g.cases = append(g.cases, c03Case{Assigns: []c03Assign{a}, Rule: "pb", Codec: "json"})
					if !isNested {
						g.cases = append(g.cases, c03Case{Assigns: []c03Assign{a}, Rule: "pn", Codec: "json"})
					}
				}
				if ti == 0 {
					a.Channel = "body"
					for _, cd := range append(codecs, "", "octet-stream", "x-rev") {
						for _, gz := range []bool{false, true} {
							g.cases = append(g.cases, c03Case{Assigns: []c03Assign{a}, Rule: "b", Codec: cd, Gzip: gz})
							if isNested {
								g.cases = append(g.cases, c03Case{Assigns: []c03Assign{a}, Rule: "n", Codec: cd, Gzip: gz})
							}
						}
					}
				}
			}
			// repeated scalars: 2 and 3 elements through the query
			if fd.IsList() {
				second := vals[(indexOf(vals, v)+1)%len(vals)]
				as := []c03Assign{{Field: f.path, Text: v.texts[0], Value: v.name, Channel: "query"}, {Field: f.path, Text: second.texts[0], Value: second.name, Channel: "query"}}
				g.cases = append(g.cases, c03Case{Assigns: as, Rule: "q"})
				as3 := append(append([]c03Assign{}, as...), c03Assign{Field: f.path, Text: v.texts[len(v.texts)-1], Value: v.name, Channel: "queryjson"})
				as3[0].Channel, as3[1].Channel = "queryjson", "queryjson"
				g.cases = append(g.cases, c03Case{Assigns: as3, Rule: "q"})
				// and 40 elements, cycling through the values (once per field)
				// (one spelling of the name per request: the order between two different keys of a
				// query string is not defined)
				if indexOf(vals, v) == 0 {
					for _, ch := range []string{"query", "queryjson"} {
						var many []c03Assign
						for k := 0; k < 40; k++ {
							e := vals[k%len(vals)]
							many = append(many, c03Assign{Field: f.path, Text: e.texts[k%len(e.texts)], Value: e.name, Channel: ch})
						}
						g.cases = append(g.cases, c03Case{Assigns: many, Rule: "q"})
					}
				}
			}
		}
	}
}

func indexOf(vs []textVal, v textVal) int {
	for i := range vs {
		if vs[i].name == v.name {
			return i
		}
	}
	return 0
}

// pairs: two different fields in two channels.
func (g *c03Gen) pairs(thorough bool) {
	fields := g.env.fields
	pick := func(f fieldRef) []textVal {
		vs := valuesOf(f)
		if len(vs) > 2 && !thorough {
			return []textVal{vs[1], vs[len(vs)-1]}
		}
		return vs // thorough: every boundary value of the field
	}
	step := 1
	if !thorough {
		step = 1
	}
	k := 0
	for i, f1 := range fields {
		for j, f2 := range fields {
			if i == j {
				continue
			}
			// oneof members exclude each other
			if o1, o2 := f1.leaf().ContainingOneof(), f2.leaf().ContainingOneof(); o1 != nil && o1 == o2 {
				continue
			}
			k++
			if k%step != 0 {
				continue
			}
			_, f1Path := g.env.pathIdx[f1.path]
			f1Nested := strings.HasPrefix(f1.path, "nested.")
			f2Nested := strings.HasPrefix(f2.path, "nested.")
			for _, v1 := range pick(f1) {
				v2s := pick(f2)
				if !thorough {
					v2s = v2s[:1]
				}
				for _, v2 := range v2s {
					a1 := c03Assign{Field: f1.path, Text: v1.texts[0], Value: v1.name}
					a2 := c03Assign{Field: f2.path, Text: v2.texts[0], Value: v2.name}
					mk := func(c1, c2, rule, codec string, gz bool) {
						x, y := a1, a2
						x.Channel, y.Channel = c1, c2
						g.cases = append(g.cases, c03Case{Assigns: []c03Assign{x, y}, Rule: rule, Codec: codec, Gzip: gz})
					}
					mk("query", "queryjson", "q", "", false)
					mk("body", "body", "b", "json", false)
					mk("body", "body", "b", "protobuf", true)
					if f1Path && v1.pathSafe[0] {
						mk("path", "query", "pv", "", false)
						mk("path", "body", "pb", "json", false)
						mk("path", "body", "pb", "protobuf", false)
						if f2Nested && !f1Nested {
							mk("path", "body", "pn", "json", true)
						}
					}
					if f2Nested && !f1Nested {
						mk("query", "body", "n", "json", false)
						mk("queryjson", "body", "n", "protobuf", false)
					}
				}
			}
		}
	}
}

// triples (thorough): three different fields, one in the path, one in the query, one in the
// body — every ordered triple whose first field is path-bindable, one value each, rotating
// through the fields' value tables so that all values take part.
func (g *c03Gen) triples() {
	fields := g.env.fields
	n := 0
	for i, f1 := range fields {
		if _, ok := g.env.pathIdx[f1.path]; !ok {
			continue
		}
		if strings.HasPrefix(f1.path, "nested.") {
			continue
		}
		for j, f2 := range fields {
			for k, f3 := range fields {
				if i == j || j == k || i == k {
					continue
				}
				excl := func(a, b fieldRef) bool {
					o1, o2 := a.leaf().ContainingOneof(), b.leaf().ContainingOneof()
					return o1 != nil && o1 == o2
				}
				if excl(f1, f2) || excl(f1, f3) || excl(f2, f3) {
					continue
				}
				n++
				v1s, v2s, v3s := valuesOf(f1), valuesOf(f2), valuesOf(f3)
				var v1 textVal
				ok := false
				for d := 0; d < len(v1s); d++ {
					if c := v1s[(n+d)%len(v1s)]; c.pathSafe[0] {
						v1, ok = c, true
						break
					}
				}
				if !ok {
					continue
				}
				v2, v3 := v2s[n%len(v2s)], v3s[(n/3)%len(v3s)]
				a1 := c03Assign{Field: f1.path, Text: v1.texts[0], Value: v1.name, Channel: "path"}
				a2 := c03Assign{Field: f2.path, Text: v2.texts[0], Value: v2.name, Channel: "query"}
				a3 := c03Assign{Field: f3.path, Text: v3.texts[0], Value: v3.name, Channel: "body"}
				if strings.HasPrefix(f3.path, "nested.") && !strings.HasPrefix(f2.path, "nested.") {
					codec := "json"
					if n%2 == 0 {
						codec = "protobuf"
					}
					g.cases = append(g.cases, c03Case{Assigns: []c03Assign{a1, a2, a3}, Rule: "pn", Codec: codec, Gzip: n%4 < 2})
				}
			}
		}
	}
}

func (g *c03Gen) negatives() {
	for _, f := range g.env.fields {
		_, hasPathRule := g.env.pathIdx[f.path]
		for _, text := range invalidTexts(f.leaf()) {
			a := c03Assign{Field: f.path, Text: text, Value: "<invalid>"}
			a.Channel = "query"
			g.cases = append(g.cases, c03Case{Assigns: []c03Assign{a}, Rule: "q", Negative: true})
			a.Channel = "queryjson"
			g.cases = append(g.cases, c03Case{Assigns: []c03Assign{a}, Rule: "putq", Negative: true})
			if hasPathRule && isPathSafe(text) {
				a.Channel = "path"
				g.cases = append(g.cases, c03Case{Assigns: []c03Assign{a}, Rule: "pv", Negative: true})
				g.cases = append(g.cases, c03Case{Assigns: []c03Assign{a}, Rule: "pb", Negative: true})
			}
		}
	}
}

// damaged: a body of several fields, gzip-compressed, cut at every length and with every single
// byte inverted, with known and unknown Content-Length.
func (g *c03Gen) damaged() {
	var as []c03Assign
	for _, fp := range []string{"string_value", "uint32_value", "double_value", "sint64_value", "bytes_value", "string_list", "nested.string_value", "nested.int64_value"} {
		f, ok := g.env.byPath[fp]
		if !ok {
			continue
		}
		vs := valuesOf(f)
		v := vs[len(vs)-1]
		if fp == "string_value" {
			v = vs[0] // the 300-byte one
		}
		as = append(as, c03Assign{Field: fp, Text: v.texts[0], Value: v.name, Channel: "body"})
	}
	for _, cd := range []string{"json", "protobuf"} {
		for _, kind := range []string{"cut", "flip"} {
			for at := 0; at < 400; at++ {
				for _, ch := range []bool{false, true} {
					if kind == "cut" && at == 0 {
						continue // an empty body is not a damaged one
					}
					g.cases = append(g.cases, c03Case{Assigns: as, Rule: "b", Codec: cd, Gzip: true, Chunked: ch, Damage: kind, DamageAt: at})
				}
			}
		}
	}
}

func c03Key(tc *c03Case) string {
	var as []string
	for _, a := range tc.Assigns {
		as = append(as, fmt.Sprintf("%s=%q@%s", a.Field, a.Text, a.Channel))
	}
	dmg := ""
	if tc.Damage != "" {
		dmg = fmt.Sprintf(" damage=%s@%d", tc.Damage, tc.DamageAt)
	}
	return fmt.Sprintf("rule=%s codec=%s gzip=%v x-rot=%v chunked=%v accept=%q neg=%v%s %s", tc.Rule, tc.Codec, tc.Gzip, tc.Rot, tc.Chunked, tc.Accept, tc.Negative, dmg, truncS(strings.Join(as, " & "), 300))
}

// c03Class groups cases for reporting (one replay per class and oracle).
func c03Class(tc *c03Case) string {
	var as []string
	for _, a := range tc.Assigns {
		f := a.Field
		if i := strings.LastIndex(f, "."); i >= 0 {
			f = "nested.*"
		}
		as = append(as, fmt.Sprintf("%s@%s", f, a.Channel))
	}
	return fmt.Sprintf("%s|%s|%v|%v|%v|%s|%s|%s", tc.Rule, tc.Codec, tc.Gzip, tc.Rot, tc.Chunked, tc.Accept, tc.Damage, strings.Join(as, "&"))
}

func runC03(c *Ctx) {
	r := c.Run
	r.Rule("ComplexRequest (15 scalar kinds, enum, bytes, repeated scalars (1-3 and 40 elements), strings of 300 / 5600 / 6000 bytes, nested message, oneof members, wrappers, Timestamp/Duration/FieldMask) × rules {no body, body '*', body 'nested', path variable on every bindable field ± body} × every field × every boundary value × every spelling × every channel (path, query by proto name, query by JSON name, body JSON/protobuf/octet-stream/a custom codec registered with CodecOption ± gzip or a custom compressor registered with CompressorOption, with known and with unknown Content-Length, without and with an Accept header naming another codec); pairs of fields in different channels (quick: all ordered pairs, 2 × 1 values; thorough: all ordered pairs × every value of both fields, plus every ordered triple path+query+nested-body); negative: texts invalid under every reading, in query and path; a gzip body of eight fields cut at every length and with every single byte inverted (refused or delivered whole, never a message that was not sent); distinct = (rule, codec, channels, field) classes")
	r.Assume("not demanded: NaN/Infinity, 'True'/'1' for bool, leading '+'/zeros, exponent or '.0' forms for integers, mixed base64 alphabets, empty or quoted wrapper text, Content-Type with parameters, JSON null, empty sub-message as protobuf body")
	env0, err := newC03Env()
	if err != nil {
		panic(err)
	}
	g := &c03Gen{env: env0}
	g.singles(c.Thorough())
	nSingles := len(g.cases)
	g.pairs(c.Thorough())
	nPairs := len(g.cases) - nSingles
	nTriples := 0
	if c.Thorough() {
		g.triples()
		nTriples = len(g.cases) - nSingles - nPairs
	}
	// every case that carries a body, again with the body's length unknown to the server
	nBefore := len(g.cases)
	for i := 0; i < nBefore; i++ {
		if tc := g.cases[i]; tc.Codec != "" {
			tc.Chunked = true
			g.cases = append(g.cases, tc)
		}
	}
	// … and with an Accept header that negotiates a reply type other than the body's own type
	// (the request body must still be decoded by its Content-Type)
	for i := 0; i < nBefore; i++ {
		if tc := g.cases[i]; tc.Codec != "" {
			switch tc.Codec {
			case "json":
				tc.Accept = "application/protobuf"
			case "x-rev":
				tc.Accept = "application/json"
			default:
				tc.Accept = []string{"application/json", "*/*"}[i%2]
			}
			g.cases = append(g.cases, tc)
		}
	}
	// … and content-encoded with the custom compressor
	for i := 0; i < nBefore; i++ {
		if tc := g.cases[i]; tc.Codec != "" && !tc.Gzip {
			tc.Rot = true
			tc.Chunked = i%2 == 0
			g.cases = append(g.cases, tc)
		}
	}
	nChunked := len(g.cases) - nBefore
	g.negatives()
	g.damaged()
	r.Set("chunked_and_accept_variants", nChunked)
	r.Set("cases", map[string]int{"singles": nSingles, "pairs": nPairs, "triples": nTriples, "negatives": len(g.cases) - nSingles - nPairs - nTriples - nChunked})

	envs := make([]*c03Env, explore.Workers)
	done := explore.ParallelFor(len(g.cases), func() bool { return r.TooManyViolations() || r.Expired() }, func(w, i int) {
		if envs[w] == nil {
			e, err := newC03Env()
			if err != nil {
				panic(err)
			}
			envs[w] = e
		}
		tc := &g.cases[i]
		oracle, note := envs[w].exec(tc)
		if note == "n/a" {
			return
		}
		r.Eval(1)
		if oracle == "" {
			if tc.Negative {
				r.Outcome("rejected-invalid")
			} else if tc.Damage != "" {
				r.Outcome("damaged-body-refused-or-whole")
			} else {
				r.Outcome("delivered-equal")
			}
			if i%3 == 0 {
				r.Distinct(c03Class(tc))
			}
		} else {
			r.Outcome("FAIL:" + oracle)
			r.Violation(report.Violation{Oracle: oracle, Key: oracle + " " + c03Key(tc), Case: *tc, Note: note})
		}
		if r.WantSample() && i%2503 == 17 {
			r.Sample(*tc)
		}
	})
	if !done {
		r.CapHit("deadline or violation cap reached")
	}
}

func replayC03(c *Ctx, v report.Violation) {
	var tc c03Case
	if !remarshal(v.Case, &tc) {
		fmt.Println("replay: cannot decode case")
		return
	}
	e, err := newC03Env()
	if err != nil {
		panic(err)
	}
	oracle, note := e.exec(&tc)
	fmt.Printf("replay: %s -> oracle=%q %s\n", c03Key(&tc), oracle, note)
	if oracle != "" {
		c.Run.Violation(report.Violation{Oracle: oracle, Key: v.Key, Case: tc, Note: note})
	}
}
