package props

import (
	"bytes"
	"errors"
	"fmt"
	"io"
	"net/http"
	"strings"
	"sync"

	"google.golang.org/grpc/codes"
	"google.golang.org/grpc/status"
	"google.golang.org/protobuf/encoding/protojson"
	"google.golang.org/protobuf/proto"
	"google.golang.org/protobuf/reflect/protoreflect"
	"google.golang.org/protobuf/types/dynamicpb"

	"larking.io/larking"

	"verif/env"
	"verif/explore"
	"verif/ref/wire"
	"verif/report"
)

// C06 — stream sequence fidelity on every streaming transport, under every read schedule.

func init() {
	register(&Check{ID: "C06", Level: "model_checking", Run: runC06, Replay: replayC06})
}

type c06Case struct {
	Transport string `json:"transport"` // grpc grpc-gzip grpc+json web webtext http-json http-proto http-body http-raw ws
	Shape     string `json:"shape"`     // cs ss bidi pingpong
	In        []int  `json:"in_payload_sizes"`
	Out       []int  `json:"out_payload_sizes"`
	Cuts      []int  `json:"cuts"`
	MaxRead   int    `json:"max_read"`
	EOFWith   bool   `json:"eof_with_data"`
	Truncate  int    `json:"truncate_at"` // -1 = none
	TruncErr  bool   `json:"truncate_with_conn_error"`
	Limit     int    `json:"recv_limit,omitempty"`
	Plain     bool   `json:"plain_response_writer,omitempty"` // the ResponseWriter offers Header/Write/WriteHeader only
	H2        bool   `json:"over_http2,omitempty"`            // gRPC-web / HTTP transcoding request arriving over HTTP/2
}

var errConnReset = errors.New("env: read: connection reset by peer")

type c06Env struct {
	t     *tSchema
	muxes map[int]*larking.Mux
	impls map[int]*tImpl
}

func newC06Env() *c06Env {
	t, err := newTSchema()
	if err != nil {
		panic(err)
	}
	return &c06Env{t: t, muxes: map[int]*larking.Mux{}, impls: map[int]*tImpl{}}
}

func (e *c06Env) mux(limit int) (*larking.Mux, *tImpl) {
	if m, ok := e.muxes[limit]; ok {
		return m, e.impls[limit]
	}
	opts := customOpts() // a custom codec ("rev") and a custom compressor ("x-rot") are registered too
	if limit > 0 {
		opts = append(opts, larking.MaxReceiveMessageSizeOption(limit))
	}
	m, impl, err := e.t.newMux(opts...)
	if err != nil {
		panic(err)
	}
	e.muxes[limit], e.impls[limit] = m, impl
	return m, impl
}

func c06Payload(i, size int) []byte {
	b := make([]byte, size)
	for k := range b {
		b[k] = byte('A' + (i*7+k)%26)
	}
	return b
}

// c06Encode encodes the client messages for a transport and returns the byte stream plus the
// offsets at which each message ends (in stream coordinates).
func (e *c06Env) encode(tc *c06Case) (stream []byte, ends []int, msgs []proto.Message) {
	for i, sz := range tc.In {
		// single-field messages: protobuf-go marshals multi-field dynamic messages in unstable
		// field order, which would make gzip sizes (and so stream lengths) vary between runs
		m := e.t.newReq("", append([]byte(fmt.Sprintf("m%d:", i)), c06Payload(i, max(sz, 0))...), 0)
		if sz < 0 {
			// a string field whose JSON form is full of what a brace scanner must not trip over:
			// it ends in an escaped backslash, and contains quotes, braces and an escaped quote
			m = e.t.newReq(fmt.Sprintf(`m%d {"}\" \\" C:\dir\`, i), nil, 0)
		}
		msgs = append(msgs, m)
		var enc []byte
		switch tc.Transport {
		case "grpc", "web", "webtext":
			pb, _ := proto.Marshal(m)
			enc = wire.GRPCFrame(0, pb)
		case "grpc-gzip", "web-gzip":
			pb, _ := proto.Marshal(m)
			enc = wire.GRPCFrame(1, gzipBytes(pb))
		case "grpc+json":
			js, _ := protojson.Marshal(m)
			enc = wire.GRPCFrame(0, js)
		case "grpc+rev": // custom codec selected by the content-subtype
			rb, _ := revCodec{}.Marshal(m)
			enc = wire.GRPCFrame(0, rb)
		case "grpc-xrot": // custom compressor selected by grpc-encoding
			pb, _ := proto.Marshal(m)
			enc = wire.GRPCFrame(1, rotBytes(pb))
		case "http-json", "http-json-gzip":
			enc, _ = protojson.Marshal(m)
		case "http-json-nl": // newline-delimited: whitespace between the objects and after the last one
			enc, _ = protojson.Marshal(m)
			enc = append(append([]byte(" "), enc...), '\n')
		case "http-proto-gzip":
			pb, _ := proto.Marshal(m)
			enc = append(refVarint(uint64(len(pb))), pb...)
		case "http-proto":
			pb, _ := proto.Marshal(m)
			enc = append(refVarint(uint64(len(pb))), pb...)
			if tc.Shape == "ss" {
				enc = pb // not client-streaming: the body is the bare message
			}
		case "ws":
			js, _ := protojson.Marshal(m)
			enc = wsText(js)
		case "ws-frag":
			// every message in 2, 3 or 4 frames (text + continuation frames)
			js, _ := protojson.Marshal(m)
			enc = wsFrag(js, 2+i%3)
		}
		stream = append(stream, enc...)
		ends = append(ends, len(stream))
	}
	if tc.Transport == "http-json-gzip" || tc.Transport == "http-proto-gzip" {
		// the whole request body is one gzip stream (Content-Encoding: gzip); message boundaries
		// are not visible on the wire, so these transports are run complete only (no truncation)
		stream = gzipBytes(stream)
		for i := range ends {
			ends[i] = len(stream)
		}
	}
	return
}

type c06Result struct {
	oracle, note string
	reads        int
	consumed     int
}

func (e *c06Env) exec(tc *c06Case) c06Result {
	if tc.Transport == "http-body" || tc.Transport == "http-raw" {
		return e.execBody(tc)
	}
	m, impl := e.mux(0)
	stream, ends, inMsgs := e.encode(tc)
	if isWS(tc.Transport) {
		stream = append(stream, wsClose(1000, "")...) // the client ends its stream by closing
	}
	var replies []proto.Message
	for i, sz := range tc.Out {
		replies = append(replies, e.t.newRsp("", append([]byte(fmt.Sprintf("r%d:", i)), c06Payload(i+3, sz)...), 0))
	}
	wireBytes := stream
	if tc.Transport == "webtext" {
		wireBytes = wire.EncodeWebText(stream)
	}
	truncated := tc.Truncate >= 0 && tc.Truncate < len(wireBytes)
	complete := len(inMsgs)
	onBoundary := true
	if truncated {
		wireBytes = wireBytes[:tc.Truncate]
		dec := tc.Truncate
		if tc.Transport == "webtext" {
			dec = tc.Truncate / 4 * 3
			onBoundary = tc.Truncate%4 == 0
		}
		complete = 0
		atEnd := dec == 0
		for _, end := range ends {
			if end <= dec {
				complete++
			}
			if end == dec {
				atEnd = true
			}
		}
		onBoundary = onBoundary && atEnd
		if isWS(tc.Transport) && len(ends) > 0 && dec > ends[len(ends)-1] || isWS(tc.Transport) && len(ends) == 0 {
			// cut inside the client's close frame: the connection dropped after the last
			// message; either a clean end or an error is acceptable
			onBoundary = true
		}
	}
	sc := &env.Script{Cuts: tc.Cuts, MaxRead: tc.MaxRead, EOFWithData: tc.EOFWith}
	if truncated && tc.TruncErr {
		sc.Err = errConnReset
	}
	recvErrStatus := status.Error(codes.DataLoss, "recv failed")
	hs := hScript{RecvN: -1, Replies: replies, PingPong: tc.Shape == "pingpong"}
	if tc.Shape == "ss" {
		hs.RecvN = 1
	}
	if truncated {
		hs.Err = recvErrStatus
		hs.ErrAfter = len(replies)
	}
	impl.reset(hs)
	method := map[string]string{"cs": "CS", "ss": "SS", "bidi": "Bidi", "pingpong": "Bidi"}[tc.Shape]
	route := map[string]string{"cs": "/t/cs", "ss": "/t/ss", "bidi": "/t/bidi", "pingpong": "/t/bidi"}[tc.Shape]
	wsRoute := map[string]string{"cs": "/ws/cs", "ss": "/ws/ss", "bidi": "/ws/bidi", "pingpong": "/ws/bidi"}[tc.Shape]
	full := "/vs.T/" + method
	var h http.Handler = m
	if tc.Plain {
		h = plainMux{m}
	}
	if tc.H2 {
		h = h2Mux{h}
	}
	body := reqBody{Data: wireBytes, Script: sc, CL: -1}
	var res *callResult
	codec := "proto"
	switch tc.Transport {
	case "grpc":
		res = doGRPC(h, full, "application/grpc", nil, body)
	case "grpc-gzip":
		res = doGRPC(h, full, "application/grpc+proto", http.Header{"Grpc-Encoding": {"gzip"}}, body)
	case "grpc+json":
		codec = "json"
		res = doGRPC(h, full, "application/grpc+json", nil, body)
	case "grpc+rev":
		codec = "rev"
		res = doGRPC(h, full, "application/grpc+rev", nil, body)
	case "grpc-xrot":
		res = doGRPC(h, full, "application/grpc", http.Header{"Grpc-Encoding": {"x-rot"}}, body)
		// un-rot the reply frames for the common decoder
		if !res.Panicked {
			res.Msgs, res.ParseErr = nil, ""
			frames, rest := wire.ParseFrames(res.Body)
			if len(rest) > 0 {
				res.ParseErr = fmt.Sprintf("%d trailing bytes do not form a frame", len(rest))
			}
			for _, f := range frames {
				switch {
				case f.Flag == 1 && res.Header.Get("Grpc-Encoding") == "x-rot":
					res.Msgs = append(res.Msgs, rotBytes(f.Payload))
				case f.Flag == 0:
					res.Msgs = append(res.Msgs, f.Payload)
				default:
					res.ParseErr = fmt.Sprintf("frame flag %d with grpc-encoding %q", f.Flag, res.Header.Get("Grpc-Encoding"))
				}
			}
		}
	case "web":
		res = doWeb(h, full, "application/grpc-web+proto", nil, body)
	case "web-gzip":
		res = doWeb(h, full, "application/grpc-web+proto", http.Header{"Grpc-Encoding": {"gzip"}}, body)
	case "webtext":
		// doWeb base64-encodes Data itself; hand it the already encoded (and truncated) text
		res = doWebRaw(h, full, "application/grpc-web-text", body)
	case "http-json", "http-json-nl":
		codec = "json"
		res = doHTTP(h, "POST", route, "", http.Header{"Content-Type": {"application/json"}}, body)
	case "http-proto":
		res = doHTTP(h, "POST", route, "", http.Header{"Content-Type": {"application/protobuf"}}, body)
	case "http-json-gzip":
		codec = "json"
		res = doHTTP(h, "POST", route, "", http.Header{"Content-Type": {"application/json"}, "Content-Encoding": {"gzip"}}, body)
	case "http-proto-gzip":
		res = doHTTP(h, "POST", route, "", http.Header{"Content-Type": {"application/protobuf"}, "Content-Encoding": {"gzip"}}, body)
	case "ws", "ws-frag":
		codec = "json"
		res = doWS(m, wsRoute, "", nil, wireBytes, sc)
	default:
		return c06Result{oracle: "harness", note: "transport " + tc.Transport}
	}
	out := c06Result{}
	if res.Reader != nil {
		out.reads, out.consumed = res.Reader.Reads, res.Reader.Consumed()
	}
	fail := func(o, n string) c06Result { out.oracle, out.note = o, n; return out }
	if res.Panicked {
		return fail("panic", res.Panic)
	}
	if res.Reader != nil && res.Reader.PostEnd > 8 {
		return fail("reads-after-end", fmt.Sprintf("%d reads after the body ended", res.Reader.PostEnd))
	}
	lg := &impl.log
	if lg.Calls != 1 {
		return fail("handler-not-invoked", fmt.Sprintf("calls=%d http=%d %s", lg.Calls, res.HTTPCode, truncS(string(res.Body), 100)))
	}
	// ---- what the handler saw
	wantIn := inMsgs[:complete]
	if tc.Shape == "ss" {
		// server-streaming: exactly one request message is read
		if len(wantIn) > 1 {
			wantIn = wantIn[:1]
		}
	}
	if len(lg.Recv) > len(wantIn) {
		extra := lg.Recv[len(wantIn)]
		return fail("phantom-message", fmt.Sprintf("client sent %d complete messages, handler received %d; extra: {%v}", len(wantIn), len(lg.Recv), extra))
	}
	for i, got := range lg.Recv {
		if !proto.Equal(got, wantIn[i]) {
			return fail("message-corrupted", fmt.Sprintf("message %d: got {%v} want {%v}", i, got, wantIn[i]))
		}
	}
	if len(lg.Recv) < len(wantIn) {
		return fail("message-lost", fmt.Sprintf("client sent %d complete messages, handler received %d then err=%v", len(wantIn), len(lg.Recv), lg.RecvErr))
	}
	if tc.Shape != "ss" {
		switch {
		case truncated && isWS(tc.Transport) && onBoundary:
			// connection dropped between frames without a close frame: io.EOF or an error
			if lg.RecvErr == nil {
				return fail("end-of-stream-missing", "handler kept receiving after the connection dropped")
			}
		case !truncated || (onBoundary && !tc.TruncErr):
			if lg.RecvErr != io.EOF {
				return fail("end-of-stream-not-clean", fmt.Sprintf("after %d messages the handler got err=%v (%T), want io.EOF", len(lg.Recv), lg.RecvErr, lg.RecvErr))
			}
		default:
			if lg.RecvErr == nil || lg.RecvErr == io.EOF {
				return fail("truncation-reported-as-clean-end", fmt.Sprintf("body cut at %d (inside a message or by a connection error) but the handler got err=%v", tc.Truncate, lg.RecvErr))
			}
		}
	}
	if truncated {
		return out // client side not compared for broken requests
	}
	// ---- what the client saw
	if res.ParseErr != "" {
		return fail("response-framing", res.ParseErr)
	}
	var payloads [][]byte
	switch tc.Transport {
	case "http-json", "http-json-gzip", "http-json-nl":
		var err error
		payloads, err = splitJSONStream(res.Body)
		if tc.Shape == "cs" {
			payloads, err = [][]byte{res.Body}, nil
		}
		if err != nil {
			return fail("response-framing", err.Error()+": "+truncS(string(res.Body), 120))
		}
	case "http-proto", "http-proto-gzip":
		var err error
		payloads, err = splitVarintStream(res.Body)
		if tc.Shape == "cs" {
			payloads, err = [][]byte{res.Body}, nil
		}
		if err != nil {
			return fail("response-framing", err.Error())
		}
	default:
		payloads = res.Msgs
	}
	wantOut := replies
	if tc.Shape == "cs" {
		wantOut = []proto.Message{dynamicpb.NewMessage(e.t.rsp)}
		if len(replies) > 0 {
			wantOut = replies[:1]
		}
	}
	if tc.Shape == "pingpong" && len(wantOut) > len(wantIn) {
		wantOut = wantOut[:len(wantIn)]
	}
	if len(payloads) != len(wantOut) {
		return fail("reply-count", fmt.Sprintf("handler sent %d replies (%d ok), client parsed %d", len(wantOut), lg.SendOK, len(payloads)))
	}
	for i, p := range payloads {
		got := dynamicpb.NewMessage(e.t.rsp)
		var err error
		switch codec {
		case "json":
			err = protojson.Unmarshal(p, got)
		case "rev":
			err = revCodec{}.Unmarshal(p, got)
		default:
			err = proto.Unmarshal(p, got)
		}
		if err != nil || !proto.Equal(got, wantOut[i]) {
			return fail("reply-corrupted", fmt.Sprintf("reply %d: %v got {%v} want {%v}", i, err, got, wantOut[i]))
		}
	}
	switch tc.Transport {
	case "grpc", "grpc-gzip", "grpc+json", "grpc+rev", "grpc-xrot", "web", "web-gzip", "webtext":
		if res.Status == nil || res.Status.Code != 0 {
			return fail("final-status", fmt.Sprintf("want grpc-status 0, got %+v", res.Status))
		}
	case "ws", "ws-frag":
		if res.WSClose == nil || (len(res.WSClose.Payload) > 0 && (res.Status == nil || res.Status.Code != 1000)) {
			return fail("final-status", fmt.Sprintf("want close 1000, got %+v", res.Status))
		}
	default:
		if res.HTTPCode != 200 {
			return fail("final-status", fmt.Sprintf("HTTP %d", res.HTTPCode))
		}
	}
	return out
}

// doWebRaw is doWeb for an already base64-encoded body.
func doWebRaw(m http.Handler, fullMethod, ct string, body reqBody) *callResult {
	dec := body
	// doWeb encodes Data; feed it pre-decoded data is impossible for truncated text, so build the request here.
	rd, _ := dec.reader()
	hdr := http.Header{"Content-Type": {ct}}
	req := newPostRequest(fullMethod, hdr, rd, int64(len(body.Data)))
	sr := serveReq(m, req)
	r := &callResult{Proto: "web", Panicked: sr.Panicked, Panic: sr.Panic, HTTPCode: sr.Code, Header: sr.Header, Body: sr.Body, Rec: sr.Rec, Reader: rd}
	if r.Panicked {
		return r
	}
	b, err := wire.DecodeWebText(sr.Body)
	if err != nil {
		r.ParseErr = "base64: " + err.Error()
	}
	r.parseGRPCBody(b, true)
	tr := r.Trailer
	if tr == nil {
		tr = http.Header{}
	}
	r.statusFromTrailers(tr, r.Header)
	return r
}

// execBody: HttpBody chunk framing (Upload) and the AsHTTPBodyReader/Writer passthrough.
func (e *c06Env) execBody(tc *c06Case) c06Result {
	limit := tc.Limit
	m, impl := e.mux(limit)
	total := tc.In[0]
	upload := c06Payload(1, total)
	var replies []proto.Message
	for i, sz := range tc.Out {
		r := dynamicpb.NewMessage(e.t.body)
		r.Set(e.t.body.Fields().ByName("content_type"), protoreflect.ValueOfString("text/x-verif"))
		r.Set(e.t.body.Fields().ByName("data"), protoreflect.ValueOfBytes(c06Payload(i+5, sz)))
		replies = append(replies, r)
	}
	truncated := tc.Truncate >= 0 && tc.Truncate < len(upload)
	data := upload
	if truncated {
		data = upload[:tc.Truncate]
	}
	sc := &env.Script{Cuts: tc.Cuts, MaxRead: tc.MaxRead, EOFWithData: tc.EOFWith}
	if truncated && tc.TruncErr {
		sc.Err = errConnReset
	}
	impl.reset(hScript{RecvN: -1, Replies: replies, RawUpload: tc.Transport == "http-raw"})
	res := doHTTP(m, "POST", "/t/up/cat.jpg", "", http.Header{"Content-Type": {"image/jpeg"}}, reqBody{Data: data, Script: sc, CL: -1})
	out := c06Result{reads: res.Reader.Reads, consumed: res.Reader.Consumed()}
	fail := func(o, n string) c06Result { out.oracle, out.note = o, n; return out }
	if res.Panicked {
		return fail("panic", res.Panic)
	}
	if res.Reader.PostEnd > 8 {
		return fail("reads-after-end", fmt.Sprintf("%d reads after the body ended", res.Reader.PostEnd))
	}
	lg := &impl.log
	if lg.Calls != 1 {
		return fail("handler-not-invoked", fmt.Sprintf("calls=%d http=%d", lg.Calls, res.HTTPCode))
	}
	var got []byte
	if tc.Transport == "http-raw" {
		got = lg.RawBytes
		if len(lg.Recv) != 1 {
			return fail("raw-first-message", fmt.Sprintf("%d", len(lg.Recv)))
		}
	} else {
		for i, mm := range lg.Recv {
			file := mm.ProtoReflect().Get(e.t.up.Fields().ByName("file")).Message()
			chunk := file.Get(e.t.body.Fields().ByName("data")).Bytes()
			if len(chunk) > limit {
				return fail("chunk-over-limit", fmt.Sprintf("chunk %d has %d bytes, limit %d", i, len(chunk), limit))
			}
			if ct := file.Get(e.t.body.Fields().ByName("content_type")).String(); ct != "image/jpeg" {
				return fail("chunk-content-type", fmt.Sprintf("chunk %d content_type %q", i, ct))
			}
			got = append(got, chunk...)
		}
	}
	if len(lg.Recv) > 0 {
		fn := lg.Recv[0].ProtoReflect().Get(e.t.up.Fields().ByName("filename")).String()
		if fn != "cat.jpg" {
			return fail("first-message-params", fmt.Sprintf("filename=%q", fn))
		}
	}
	if !bytes.Equal(got, data) {
		// under a connection error only a prefix is demanded
		if !(truncated && tc.TruncErr && bytes.HasPrefix(data, got)) {
			return fail("upload-bytes-differ", fmt.Sprintf("uploaded %d bytes %q, handler assembled %d bytes %q", len(data), truncS(string(data), 60), len(got), truncS(string(got), 60)))
		}
	}
	if truncated && tc.TruncErr {
		if lg.RecvErr == nil || lg.RecvErr == io.EOF {
			return fail("truncation-reported-as-clean-end", fmt.Sprintf("connection error after %d bytes surfaced as err=%v", tc.Truncate, lg.RecvErr))
		}
		return out
	}
	if tc.Transport != "http-raw" && lg.RecvErr != io.EOF {
		return fail("end-of-stream-not-clean", fmt.Sprintf("err=%v", lg.RecvErr))
	}
	if tc.Transport == "http-raw" {
		if lg.RecvErr != nil {
			return fail("raw-read-error", lg.RecvErr.Error())
		}
		if !bytes.Equal(res.Body, data) {
			return fail("raw-echo-differs", fmt.Sprintf("echoed %d bytes of %d", len(res.Body), len(data)))
		}
		if ct := res.Header.Get("Content-Type"); ct != "application/x-raw" {
			return fail("raw-content-type", ct)
		}
		return out
	}
	// response: concatenation of the replies' data under the first reply's content type
	var want []byte
	for i := range tc.Out {
		want = append(want, c06Payload(i+5, tc.Out[i])...)
	}
	if !bytes.Equal(res.Body, want) {
		return fail("download-bytes-differ", fmt.Sprintf("handler sent %d bytes, client got %d", len(want), len(res.Body)))
	}
	if len(tc.Out) > 0 {
		if ct := res.Header.Get("Content-Type"); ct != "text/x-verif" {
			return fail("download-content-type", ct)
		}
	}
	return out
}

type c06Base struct {
	Transport, Shape string
	In, Out          []int
	Limit            int
	Plain            bool // behind a ResponseWriter without Flush (complete streams, coarse schedules)
	H2               bool // the request arrives over HTTP/2
	Scale            bool // long stream or large messages: coarse read schedules only
}

func c06Bases(thorough bool) []c06Base {
	var out []c06Base
	seqs := [][]int{{}, {0}, {1}, {5}, {0, 0}, {1, 5}, {5, 0, 1}}
	seqs = append(seqs, []int{-1}, []int{-1, 5}, []int{0, -1}) // -1: the string message with backslashes, quotes and braces
	if thorough {
		seqs = append(seqs, []int{0, 1, 5}, []int{300}, []int{5, 300, 0}, []int{70, 70})
	} else {
		seqs = append(seqs, []int{300})
	}
	outs := [][]int{{}, {0}, {3}, {3, 0, 70}}
	for _, tr := range []string{"grpc", "grpc-gzip", "grpc+json", "grpc+rev", "grpc-xrot", "web", "web-gzip", "webtext", "http-json", "http-proto", "http-json-gzip", "http-proto-gzip", "http-json-nl", "ws", "ws-frag"} {
		for _, sh := range []string{"cs", "bidi", "pingpong", "ss"} {
			if tr == "http-json-nl" && sh == "ss" {
				continue
			}
			if strings.HasSuffix(tr, "-gzip") && strings.HasPrefix(tr, "http-") && sh == "ss" {
				continue // a unary gzip body is C03's subject
			}
			if isWS(tr) && sh == "cs" {
				continue // a WebSocket client can only end its stream by closing, which also ends the reply channel
			}
			for _, in := range seqs {
				if sh == "ss" && len(in) != 1 {
					continue
				}
				if isWS(tr) && sh == "bidi" && len(in) > 0 {
					// batch bidi over WebSocket: replies after the client's close are undeliverable; use pingpong
					continue
				}
				for _, o := range outs {
					if sh == "cs" && len(o) > 1 {
						continue
					}
					if sh != "ss" && sh != "cs" && !thorough && len(o) == 1 && len(in) > 2 {
						continue
					}
					if isWS(tr) && sh == "bidi" && len(o) > 0 {
						continue
					}
					out = append(out, c06Base{Transport: tr, Shape: sh, In: in, Out: o})
				}
			}
		}
	}
	// scale: 40-message streams and messages of 5 kB / 70 kB (beyond every pooled buffer, the 16 KiB
	// HTTP/2 frame size, 64 KiB WebSocket length form) on every transport, coarse schedules
	var many []int
	for i := 0; i < 40; i++ {
		many = append(many, []int{0, 1, 5, 70, 300}[i%5])
	}
	for _, tr := range []string{"grpc", "grpc-gzip", "grpc+json", "grpc+rev", "grpc-xrot", "web", "web-gzip", "webtext", "http-json", "http-proto", "http-json-gzip", "http-proto-gzip", "http-json-nl", "ws", "ws-frag"} {
		gzHTTP := strings.HasSuffix(tr, "-gzip") && strings.HasPrefix(tr, "http-")
		if !isWS(tr) {
			out = append(out, c06Base{Transport: tr, Shape: "cs", In: many, Out: []int{3}, Scale: true},
				c06Base{Transport: tr, Shape: "cs", In: []int{5000, 70000, 1}, Out: []int{3}, Scale: true})
		}
		out = append(out, c06Base{Transport: tr, Shape: "pingpong", In: many, Out: many, Scale: true},
			c06Base{Transport: tr, Shape: "pingpong", In: []int{70000, 1, 5000}, Out: []int{5000, 70000, 0}, Scale: true})
		if tr != "http-json-nl" && !gzHTTP {
			out = append(out, c06Base{Transport: tr, Shape: "ss", In: []int{5}, Out: many, Scale: true},
				c06Base{Transport: tr, Shape: "ss", In: []int{70000}, Out: []int{70000, 5000}, Scale: true})
		}
	}
	// behind a ResponseWriter that is not a Flusher: reply sizes of every residue mod 3 (what a
	// base64 body leaves pending), one to three replies
	for _, tr := range []string{"web", "web-gzip", "webtext", "http-json", "http-proto"} {
		for _, sh := range []string{"ss", "pingpong", "cs"} {
			for _, o := range [][]int{{0}, {1}, {2}, {3}, {4}, {3, 0, 70}, {1, 1}} {
				if sh == "cs" && len(o) > 1 {
					continue
				}
				in := []int{5}
				if sh == "pingpong" {
					in = o
				}
				out = append(out, c06Base{Transport: tr, Shape: sh, In: in, Out: o, Plain: true, Scale: true})
				if len(o) != 2 {
					// and the same calls arriving over HTTP/2 (gRPC-web from a browser over TLS)
					out = append(out, c06Base{Transport: tr, Shape: sh, In: in, Out: o, H2: true, Scale: true})
				}
			}
		}
	}
	// HttpBody chunking: uploads of every length 0..3*limit+1 and the raw passthrough
	for _, lim := range []int{4, 8} {
		for n := 0; n <= 3*lim+1; n++ {
			out = append(out, c06Base{Transport: "http-body", Shape: "bidi", In: []int{n}, Out: []int{3, 0, 9}, Limit: lim})
		}
	}
	for _, n := range []int{0, 1, 63, 64, 65, 200} {
		out = append(out, c06Base{Transport: "http-body", Shape: "bidi", In: []int{n}, Out: []int{}, Limit: 64})
		out = append(out, c06Base{Transport: "http-raw", Shape: "bidi", In: []int{n}, Out: nil, Limit: 64})
	}
	return out
}

func (e *c06Env) streamLen(b c06Base) int {
	tc := c06Case{Transport: b.Transport, Shape: b.Shape, In: b.In}
	if b.Transport == "http-body" || b.Transport == "http-raw" {
		return b.In[0]
	}
	s, _, _ := e.encode(&tc)
	if b.Transport == "webtext" {
		return len(wire.EncodeWebText(s))
	}
	if isWS(b.Transport) {
		return len(s) + len(wsClose(1000, ""))
	}
	return len(s)
}

func isWS(transport string) bool { return transport == "ws" || transport == "ws-frag" }

func runC06(c *Ctx) {
	r := c.Run
	r.Rule("transport{gRPC identity/gzip/+json/+a custom codec/a custom compressor, gRPC-web identity/gzip, gRPC-web-text, HTTP JSON stream (also newline-delimited with whitespace after the last object), HTTP varint-delimited protobuf, both also inside a gzip Content-Encoding (complete streams only), HttpBody chunking (limits 4, 8, 64; uploads of every length 0..3·limit+1), AsHTTPBodyReader/Writer passthrough, WebSocket with whole and with fragmented (2-4 frames) messages} × shape{client-, server-, bidi batch, bidi ping-pong} × client sequence (0..3 messages, payloads 0/1/5/300, and a string message with backslashes, quotes and braces) × handler sequence (0..3 replies) × [gRPC-web, gRPC-web-text and HTTP streams also behind a ResponseWriter without Flush and arriving over HTTP/2, reply sizes of every residue mod 3] × [scale: 40-message streams in both directions and 5 kB / 70 kB messages on every transport and shape, with uniform read sizes 1..65536 and four truncation points] × read schedule (all 2^(n-1) partitions for streams <= 10 (thorough 13) bytes; uniform chunk sizes, every single cut and every pair of cuts (bounded) beyond) × EOF convention × truncation at every offset followed by EOF or a connection error; plus 3-message streams whose 1st/2nd/3rd message exceeds a receive limit of 40 with a field boundary exactly at the limit (9 transports); states = (transport, bytes consumed, messages delivered); distinct = (transport, shape, sequence) bases")
	r.Assume("an empty client stream is sent as an empty chunked body (Content-Length unknown)", "client-streaming with a unary reply over WebSocket is excluded: the only way for a WebSocket client to end its stream is to close, which also ends the reply channel", "HTTP/2 flow control and real half-close are seen only in the conformance runs")
	fullMax := 10
	if c.Thorough() {
		fullMax = 13
	}
	env0 := newC06Env()
	bases := c06Bases(c.Thorough())
	var mu sync.Mutex
	states := map[string]struct{}{}
	envs := make([]*c06Env, explore.Workers)
	done := explore.ParallelFor(len(bases), func() bool { return r.TooManyViolations() || r.Expired() }, func(w, bi int) {
		if envs[w] == nil {
			envs[w] = newC06Env()
		}
		e := envs[w]
		b := bases[bi]
		n := env0.streamLen(b)
		var execs, reads int64
		local := map[[2]int]struct{}{}
		outc := map[string]int64{}
		reported := map[string]bool{}
		tc := c06Case{Transport: b.Transport, Shape: b.Shape, In: b.In, Out: b.Out, Limit: b.Limit, Truncate: -1, Plain: b.Plain, H2: b.H2}
		run := func() {
			res := e.exec(&tc)
			execs++
			reads += int64(res.reads)
			local[[2]int{res.consumed, len(tc.Cuts)}] = struct{}{}
			if res.oracle == "" {
				switch {
				case tc.Truncate >= 0 && tc.TruncErr:
					outc["ok:"+tc.Transport+":connection-error"]++
				case tc.Truncate >= 0:
					outc["ok:"+tc.Transport+":truncated"]++
				default:
					outc["ok:"+tc.Transport+":complete"]++
				}
				return
			}
			outc["FAIL:"+res.oracle]++
			if reported[res.oracle] {
				return
			}
			reported[res.oracle] = true
			cp := tc
			cp.Cuts = append([]int(nil), tc.Cuts...)
			r.Violation(report.Violation{Oracle: res.oracle, Key: fmt.Sprintf("%s transport=%s shape=%s in=%v out=%v limit=%d cuts=%v maxread=%d eofwith=%v trunc=%d truncerr=%v%s", res.oracle, tc.Transport, tc.Shape, tc.In, tc.Out, tc.Limit, tc.Cuts, tc.MaxRead, tc.EOFWith, tc.Truncate, tc.TruncErr, map[bool]string{true: " plain-writer"}[tc.Plain]+map[bool]string{true: " over-http2"}[tc.H2]), Case: cp, Note: res.note})
		}
		for _, eofWith := range []bool{false, true} {
			tc.EOFWith = eofWith
			tc.MaxRead, tc.Truncate, tc.TruncErr = 0, -1, false
			if b.Scale {
				tc.Cuts = nil
				for _, mr := range []int{0, 1, 7, 64, 1000, 4096, 16384, 65536} {
					if mr == 1 && n > 20000 {
						continue
					}
					tc.MaxRead = mr
					run()
				}
				if b.Transport == "http-json-nl" || b.Shape == "ss" && strings.HasPrefix(b.Transport, "http-") || strings.HasPrefix(b.Transport, "http-") && strings.HasSuffix(b.Transport, "-gzip") {
					continue
				}
				for _, t := range []int{1, n / 3, n / 2, n - 1} {
					for _, terr := range []bool{false, true} {
						if terr && eofWith {
							continue
						}
						tc.Truncate, tc.TruncErr, tc.MaxRead = t, terr, 4096
						run()
					}
				}
				continue
			}
			if n <= fullMax {
				env.AllCutSets(n, func(cuts []int) { tc.Cuts = cuts; run() })
			} else {
				k := 2
				if n > 48 {
					k = 1
				}
				if n > 400 {
					k = 0
				}
				if k > 1 && strings.HasPrefix(b.Transport, "http-") && strings.HasSuffix(b.Transport, "-gzip") {
					k = 1 // message boundaries are not wire offsets inside one gzip stream: single cuts suffice
				}
				env.SmallCutSets(n, k, func(cuts []int) { tc.Cuts = cuts; run() })
			}
			tc.Cuts = nil
			for _, mr := range []int{1, 2, 3, 4, 5, 6, 7, 8, 9, 16, 63, 64, 65} {
				if mr > n+1 {
					break
				}
				tc.MaxRead = mr
				run()
			}
			// truncation at every offset
			for t := 0; t < n; t++ {
				if strings.HasPrefix(b.Transport, "http-") && strings.HasSuffix(b.Transport, "-gzip") {
					break // one gzip stream: message boundaries are not wire offsets
				}
				if b.Transport == "http-json-nl" {
					break // a cut inside the whitespace between objects is a clean end, not a truncation: complete streams only
				}
				if b.Shape == "ss" && strings.HasPrefix(b.Transport, "http-") {
					break // a unary request body has no framing: a truncated message is not detectable
				}
				if n > 120 && t > 20 && t < n-20 && t%17 != 0 {
					continue
				}
				for _, terr := range []bool{false, true} {
					if terr && eofWith {
						continue // a connection error delivered together with data: not demanded
					}
					for _, mr := range []int{0, 1, 3} {
						tc.Truncate, tc.TruncErr, tc.MaxRead = t, terr, mr
						run()
					}
				}
			}
		}
		r.Eval(execs)
		r.AddTransitions(reads)
		for k, v := range outc {
			r.OutcomeN(k, v)
		}
		r.Distinct(fmt.Sprintf("%s|%s|%v|%v|%d|%v|%v", b.Transport, b.Shape, b.In, b.Out, b.Limit, b.Plain, b.H2))
		if r.WantSample() && bi%53 == 1 {
			r.Sample(map[string]any{"transport": b.Transport, "shape": b.Shape, "in": b.In, "out": b.Out, "limit": b.Limit, "stream_len": n, "schedules": execs})
		}
		mu.Lock()
		for s := range local {
			states[fmt.Sprintf("%s|%s|%d|%v", b.Transport, b.Shape, n, s)] = struct{}{}
		}
		mu.Unlock()
	})
	if !done {
		r.CapHit("deadline or violation cap reached before all bases were explored")
	}
	r.AddStates(int64(len(states)))
	r.AddValidated(r.Evaluations())
	c06LimitInStream(c)
	runC06Conformance(c)
	r.Set("validation_note", "every read schedule is executed on the real Mux (no separate model of larking); the environment model (recorder, scripted body, scripted WebSocket conn) is validated against net/http and grpc-go by the conformance pass (see C05/C10 evidence)")
	r.Set("full_partition_max_stream_len", fullMax)
	_ = strings.Join
}

// c06LimitInStream: a stream whose middle message exceeds the receive limit (and whose first
// `limit` encoded bytes are complete fields, so a reader that stops at the limit still sees a
// well-formed message): the handler gets the preceding message, then an error - never a
// shortened message, never a clean end, never the messages after it.
func c06LimitInStream(c *Ctx) {
	r := c.Run
	const L = 40
	e := newC06Env()
	m, impl := e.mux(L)
	small := func(i int) proto.Message { return e.t.newReq("", []byte(fmt.Sprintf("m%d", i)), 0) }
	big := e.t.newReq(strings.Repeat("x", L-2), []byte("yyy"), 0) // field s ends exactly at byte L of the protobuf encoding
	for _, tr := range []string{"grpc", "grpc-gzip", "web", "web-gzip", "webtext", "grpc+json", "http-proto", "http-json", "ws"} {
		for _, pos := range []int{0, 1, 2} {
			msgs := []proto.Message{small(0), small(1), small(2)}
			msgs[pos] = big
			var body []byte
			for _, mm := range msgs {
				pb, _ := proto.Marshal(mm)
				// protobuf-go may emit s and b in either order for a dynamic message: force s first
				if mm == big {
					pb = append(append([]byte{0x0a, L - 2}, []byte(strings.Repeat("x", L-2))...), 0x12, 3, 'y', 'y', 'y')
				}
				js, _ := protojson.Marshal(mm)
				switch tr {
				case "grpc", "web", "webtext":
					body = append(body, wire.GRPCFrame(0, pb)...)
				case "grpc-gzip", "web-gzip":
					body = append(body, wire.GRPCFrame(1, gzipBytes(pb))...)
				case "grpc+json":
					body = append(body, wire.GRPCFrame(0, js)...)
				case "http-proto":
					body = append(append(body, refVarint(uint64(len(pb)))...), pb...)
				case "http-json":
					body = append(body, js...)
				case "ws":
					body = append(body, wsText(js)...)
				}
			}
			impl.reset(hScript{RecvN: -1})
			var res *callResult
			switch tr {
			case "grpc":
				res = doGRPC(m, "/vs.T/CS", "application/grpc", nil, reqBody{Data: body})
			case "grpc-gzip":
				res = doGRPC(m, "/vs.T/CS", "application/grpc", http.Header{"Grpc-Encoding": {"gzip"}}, reqBody{Data: body})
			case "grpc+json":
				res = doGRPC(m, "/vs.T/CS", "application/grpc+json", nil, reqBody{Data: body})
			case "web":
				res = doWeb(m, "/vs.T/CS", "application/grpc-web+proto", nil, reqBody{Data: body})
			case "web-gzip":
				res = doWeb(m, "/vs.T/CS", "application/grpc-web+proto", http.Header{"Grpc-Encoding": {"gzip"}}, reqBody{Data: body})
			case "webtext":
				res = doWeb(m, "/vs.T/CS", "application/grpc-web-text", nil, reqBody{Data: body})
			case "http-proto":
				res = doHTTP(m, "POST", "/t/cs", "", http.Header{"Content-Type": {"application/protobuf"}}, reqBody{Data: body, CL: -1})
			case "http-json":
				res = doHTTP(m, "POST", "/t/cs", "", http.Header{"Content-Type": {"application/json"}}, reqBody{Data: body, CL: -1})
			case "ws":
				impl.reset(hScript{RecvN: 3})
				res = doWS(m, "/ws/bidi", "", nil, append(body, wsClose(1000, "")...), nil)
			}
			r.Eval(1)
			key := fmt.Sprintf("limit-in-stream transport=%s over-limit-message-at=%d limit=%d", tr, pos, L)
			cs := map[string]any{"transport": tr, "limit": L, "over_limit_message_at": pos, "messages": 3}
			lg := impl.log
			bad := ""
			switch {
			case res.Panicked:
				bad = "panic: " + res.Panic
			case len(lg.Recv) != pos:
				bad = fmt.Sprintf("the handler received %d messages, want the %d before the over-limit one (then err=%v)", len(lg.Recv), pos, lg.RecvErr)
				if len(lg.Recv) > pos {
					bad += fmt.Sprintf("; message %d as delivered: {%v}", pos, lg.Recv[pos])
				}
			case lg.Calls == 1 && (lg.RecvErr == nil || lg.RecvErr == io.EOF):
				bad = fmt.Sprintf("after %d messages the handler got err=%v, want an error for the over-limit message", pos, lg.RecvErr)
			}
			if bad != "" {
				r.Outcome("FAIL:limit-in-stream")
				r.Violation(report.Violation{Oracle: "limit-in-stream", Key: key, Case: cs, Note: bad})
				continue
			}
			r.Outcome("ok:" + tr + ":limit-in-stream")
			r.Distinct("limit-in-stream|" + tr)
		}
	}
}

func replayC06(c *Ctx, v report.Violation) {
	if strings.HasPrefix(v.Key, "limit-in-stream") {
		sub := *c
		sub.Run = report.NewRun("C06", "quick", 0, "exploration")
		c06LimitInStream(&sub)
		fmt.Printf("replay: limit-in-stream family re-run -> %d violations\n", sub.Run.NumViolations())
		if sub.Run.NumViolations() > 0 {
			c.Run.Violation(report.Violation{Oracle: v.Oracle, Key: v.Key, Case: v.Case, Note: "still violated"})
		}
		return
	}
	var tc c06Case
	if !remarshal(v.Case, &tc) {
		fmt.Println("replay: cannot decode case")
		return
	}
	e := newC06Env()
	res := e.exec(&tc)
	fmt.Printf("replay: %+v -> oracle=%q %s\n", tc, res.oracle, res.note)
	if res.oracle != "" {
		c.Run.Violation(report.Violation{Oracle: res.oracle, Key: v.Key, Case: tc, Note: res.note})
	}
}
