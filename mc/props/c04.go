package props

import (
	"bytes"
	"fmt"
	"net/http"
	"strconv"
	"strings"

	"google.golang.org/grpc"
	"google.golang.org/grpc/metadata"
	"google.golang.org/protobuf/encoding/protojson"
	"google.golang.org/protobuf/proto"
	"google.golang.org/protobuf/reflect/protoreflect"
	"google.golang.org/protobuf/types/dynamicpb"

	"larking.io/larking"

	"verif/dyn"
	"verif/explore"
	"verif/report"
)

// C04 — unary response fidelity and truthful response headers.

func init() {
	register(&Check{ID: "C04", Level: "exploration", Run: runC04, Replay: replayC04})
}

type c04Case struct {
	Method    string `json:"method"` // echo (ComplexRequest reply) | raw (HttpBody reply) | sel (response_body)
	Reply     string `json:"reply"`  // name of the reply
	ReqCT     string `json:"request_content_type"`
	Accept    string `json:"accept"`
	AcceptEnc string `json:"accept_encoding"`
	Verb      string `json:"verb"`
	SendHdr   bool   `json:"handler_calls_SendHeader_first"`
}

type c04Env struct {
	t          *tSchema
	tmux       http.Handler
	timpl      *tImpl
	cs         *routeSchema
	cmux       *larking.Mux
	cimpl      *recImpl
	replies    map[string]proto.Message
	names      []string
	cached     map[int]proto.Message // retained HttpBody replies by size
	cachedWant map[int][]byte
}

func newC04Env() *c04Env {
	t, err := newTSchema()
	if err != nil {
		panic(err)
	}
	tm, timpl, err := t.newMux(customOpts()...)
	if err != nil {
		panic(err)
	}
	cs, err := newComplexSchema()
	if err != nil {
		panic(err)
	}
	cm, cimpl, err := cs.newMux([]boundRule{
		{M: 0, Rule: dyn.Rule{Kind: "post", Path: "/c04/echo", Body: "*"}},
		{M: 0, Rule: dyn.Rule{Kind: "get", Path: "/c04/echo"}},
	}, nil, customOpts()...)
	if err != nil {
		panic(err)
	}
	e := &c04Env{t: t, tmux: tm, timpl: timpl, cs: cs, cmux: cm, cimpl: cimpl, replies: map[string]proto.Message{}}
	add := func(name string, m proto.Message) {
		e.replies[name] = m
		e.names = append(e.names, name)
	}
	add("empty", newComplexMsg().Interface())
	all := newComplexMsg()
	for _, f := range urlFields() {
		vals := valuesOf(f)
		v := vals[len(vals)-1]
		if f.leaf().ContainingOneof() != nil {
			continue
		}
		one := newComplexMsg()
		setRef(one, f, v.val)
		add("field:"+f.path, one.Interface())
		setRef(all, f, v.val)
	}
	// maps, repeated messages, struct/any (body-only kinds)
	extra := newComplexMsg()
	if err := protojson.Unmarshal([]byte(`{"stringMap":{"k":"v","k2":"v2"},"int32Map":{"1":2},"nestedList":[{"stringValue":"n1"},{"int32Value":2}],"nestedMap":{"a":{"boolValue":true}},"struct":{"a":[1,"x",null,{"b":true}]},"value":"str","listValue":[1,2],"enumList":["ENUM_VALUE","ENUM_UNSPECIFIED"],"oneofStringValue":"{}}\"{","any":{"@type":"type.googleapis.com/google.protobuf.Duration","value":"1.5s"}}`), extra.Interface()); err != nil {
		panic(err)
	}
	add("maps-struct-any", extra.Interface())
	proto.Merge(all.Interface(), extra.Interface())
	add("all-kinds", all.Interface())
	big := newComplexMsg()
	setRef(big, resolveRef(complexDesc, "string_value"), protoreflect.ValueOfString(strings.Repeat("0123456789abcdef", 4096)))
	add("big-64KiB", big.Interface())
	return e
}

type acceptRange struct {
	typ string
	q   float64
}

// refParseAccept is an independent, deliberately simple Accept parser: comma-separated ranges,
// optional ";q=" parameter; anything unparsable is ignored.
func refParseAccept(h string) []acceptRange {
	var out []acceptRange
	for _, part := range strings.Split(h, ",") {
		part = strings.TrimSpace(part)
		if part == "" {
			continue
		}
		fields := strings.Split(part, ";")
		typ := strings.TrimSpace(fields[0])
		if !strings.Contains(typ, "/") && typ != "*" {
			continue
		}
		q := 1.0
		for _, p := range fields[1:] {
			p = strings.TrimSpace(p)
			if strings.HasPrefix(p, "q=") {
				v, err := strconv.ParseFloat(strings.TrimPrefix(p, "q="), 64)
				if err != nil {
					q = -1
				} else {
					q = v
				}
			}
		}
		out = append(out, acceptRange{typ, q})
	}
	return out
}

func rangeMatches(r, offer string) bool {
	if r == "*/*" || r == offer {
		return true
	}
	if strings.HasSuffix(r, "/*") {
		return strings.HasPrefix(offer, strings.TrimSuffix(r, "*"))
	}
	return false
}

var c04Offers = []string{"application/json", "application/protobuf", "application/octet-stream", "application/x-rev"} // x-rev: a custom codec registered with CodecOption

// admitted lists the registered response types some Accept range with q>0 admits.
func admitted(accept string) (offers []string, dubious bool) {
	rs := refParseAccept(strings.ReplaceAll(accept, "\n", ", "))
	for _, o := range c04Offers {
		ok := false
		for _, r := range rs {
			if r.q < 0 {
				dubious = true // unparsable q: readings differ
			}
			if r.q > 0 && rangeMatches(r.typ, o) {
				ok = true
			}
			if r.q == 0 && rangeMatches(r.typ, o) {
				dubious = true // q=0 exclusions: not demanded
			}
		}
		if ok {
			offers = append(offers, o)
		}
	}
	return
}

func (e *c04Env) exec(tc *c04Case) (oracle, note string) {
	hdr := http.Header{}
	if tc.ReqCT != "" {
		hdr.Set("Content-Type", tc.ReqCT)
	}
	if tc.Accept != "" {
		// "\n" separates header lines: several Accept lines mean the same as one comma-joined line
		for _, line := range strings.Split(tc.Accept, "\n") {
			hdr.Add("Accept", line)
		}
	}
	if tc.AcceptEnc != "" {
		hdr.Set("Accept-Encoding", tc.AcceptEnc)
	}
	var res *callResult
	var wantMsg proto.Message
	var wantRaw []byte
	wantRawCT := ""
	reqBodyFor := func(m proto.Message) reqBody {
		if tc.Verb == "GET" {
			return reqBody{CL: 0}
		}
		switch tc.ReqCT {
		case "application/protobuf", "application/octet-stream":
			b, _ := proto.Marshal(m)
			return reqBody{Data: b, CL: -2}
		case "application/x-rev":
			b, _ := revCodec{}.Marshal(m)
			return reqBody{Data: b, CL: -2}
		default:
			b, _ := protojson.Marshal(m)
			return reqBody{Data: b, CL: -2}
		}
	}
	switch tc.Method {
	case "echo":
		wantMsg = e.replies[tc.Reply]
		e.cimpl.reset()
		e.cimpl.reply = func(c *dyn.Call) (proto.Message, error) {
			if tc.SendHdr {
				if err := grpc.SendHeader(c.Ctx, metadata.Pairs("x-early", "1")); err != nil {
					return nil, err
				}
			}
			return proto.Clone(wantMsg), nil
		}
		body := reqBodyFor(newComplexMsg().Interface())
		res = doHTTP(e.cmux, tc.Verb, "/c04/echo", "", hdr, body)
		if e.cimpl.n != 1 && !res.Panicked {
			return e.notInvoked(tc, res)
		}
	case "sel":
		inner := e.t.newRsp("selected", []byte{1, 2, 3}, 7)
		if tc.Reply == "empty" {
			inner = dynamicpb.NewMessage(e.t.rsp)
		}
		w := dynamicpb.NewMessage(e.t.wrap)
		w.Set(e.t.wrap.Fields().ByName("rsp"), protoreflect.ValueOfMessage(proto.Clone(inner).ProtoReflect()))
		w.Set(e.t.wrap.Fields().ByName("other"), protoreflect.ValueOfString("must-not-appear"))
		wantMsg = inner
		e.timpl.reset(hScript{Replies: []proto.Message{w}})
		res = doHTTP(e.tmux, "POST", "/t/sel", "", hdr, reqBodyFor(e.t.newReq("q", nil, 0)))
		if e.timpl.log.Calls != 1 && !res.Panicked {
			return e.notInvoked(tc, res)
		}
	case "raw":
		parts := strings.SplitN(tc.Reply, "|", 2)
		wantRawCT = parts[0]
		n, _ := strconv.Atoi(parts[1])
		wantRaw = []byte(strings.Repeat(`{"a":1}`, n/7+1))[:n]
		if wantRawCT == "cached/asset" {
			// a handler that serves the same retained HttpBody message every time (a static asset
			// cache): the bytes must still be the pristine ones after all the other traffic this
			// mux has served in between
			if e.cached == nil {
				e.cachedWant = map[int][]byte{}
				e.cached = map[int]proto.Message{}
			}
			if e.cached[n] == nil {
				hb := dynamicpb.NewMessage(e.t.body)
				hb.Set(e.t.body.Fields().ByName("content_type"), protoreflect.ValueOfString(wantRawCT))
				hb.Set(e.t.body.Fields().ByName("data"), protoreflect.ValueOfBytes(append(make([]byte, 0, 96), wantRaw...)))
				e.cached[n], e.cachedWant[n] = hb, append([]byte(nil), wantRaw...)
			}
			e.timpl.reset(hScript{Replies: []proto.Message{e.cached[n]}})
			up := reqBody{Data: []byte("upload-that-is-not-the-asset-upload-that-is-not-the-asset"), CL: -2}
			if hdr.Get("Content-Type") == "" {
				hdr.Set("Content-Type", "text/plain")
			}
			res = doHTTP(e.tmux, "POST", "/t/raw/f.bin", "", hdr, up)
			if e.timpl.log.Calls != 1 && !res.Panicked {
				return e.notInvoked(tc, res)
			}
			wantRaw = e.cachedWant[n]
			break
		}
		hb := dynamicpb.NewMessage(e.t.body)
		if wantRawCT != "" {
			hb.Set(e.t.body.Fields().ByName("content_type"), protoreflect.ValueOfString(wantRawCT))
		}
		hb.Set(e.t.body.Fields().ByName("data"), protoreflect.ValueOfBytes(wantRaw))
		hs := hScript{Replies: []proto.Message{hb}}
		if tc.SendHdr {
			hs.SendHdr = metadata.Pairs("x-early", "1")
		}
		e.timpl.reset(hs)
		up := reqBody{Data: []byte("upload"), CL: -2}
		if hdr.Get("Content-Type") == "" {
			hdr.Set("Content-Type", "text/plain")
		}
		res = doHTTP(e.tmux, "POST", "/t/raw/f.bin", "", hdr, up)
		if e.timpl.log.Calls != 1 && !res.Panicked {
			return e.notInvoked(tc, res)
		}
	}
	if res.Panicked {
		return "panic", res.Panic
	}
	registeredReq := tc.ReqCT == "" || tc.ReqCT == "application/json" || tc.ReqCT == "application/protobuf" || tc.ReqCT == "application/octet-stream" || tc.ReqCT == "application/x-rev"
	if res.HTTPCode != 200 {
		if offers, _ := admitted(tc.Accept); !registeredReq && len(offers) == 0 && res.HTTPCode >= 400 && tc.Method != "raw" {
			// neither the Accept header nor the request's own type names a registered codec:
			// the reply cannot be encoded, an error status is the only truthful answer
			return "", "refused-no-codec"
		}
		return "reply-not-delivered", fmt.Sprintf("HTTP %d %s", res.HTTPCode, truncS(string(res.Body), 160))
	}
	body := res.Body
	switch ce := res.Header.Get("Content-Encoding"); ce {
	case "", "identity":
	case "gzip":
		b, err := gunzipBytes(body)
		if err != nil {
			return "content-encoding-untruthful", "Content-Encoding: gzip but the body is not gzip: " + err.Error()
		}
		body = b
	case "x-rot": // the custom compressor registered with CompressorOption
		body = rotBytes(body)
	default:
		return "content-encoding-untruthful", fmt.Sprintf("Content-Encoding %q", ce)
	}
	ct := res.Header.Get("Content-Type")
	if tc.Method == "raw" {
		if ct != wantRawCT {
			return "httpbody-content-type", fmt.Sprintf("reply content_type %q, response Content-Type %q", wantRawCT, ct)
		}
		if !bytes.Equal(body, wantRaw) {
			return "httpbody-bytes", fmt.Sprintf("reply data %d bytes, response %d bytes: %q", len(wantRaw), len(body), truncS(string(body), 60))
		}
		return "", ""
	}
	// negotiation
	offers, dubious := admitted(tc.Accept)
	if !dubious {
		if len(offers) > 0 {
			ok := false
			for _, o := range offers {
				if o == ct {
					ok = true
				}
			}
			if !ok {
				return "content-type-not-acceptable", fmt.Sprintf("Accept %q admits %v, response Content-Type %q", tc.Accept, offers, ct)
			}
		} else {
			want := tc.ReqCT
			if want == "" {
				want = "application/json"
			}
			if ct != want {
				return "content-type-fallback", fmt.Sprintf("Accept %q admits no registered type; response Content-Type %q, request type %q", tc.Accept, ct, want)
			}
		}
	}
	got := dynamicpb.NewMessage(wantMsg.ProtoReflect().Descriptor())
	var err error
	switch ct {
	case "application/json":
		err = protojson.Unmarshal(body, got)
	case "application/protobuf", "application/octet-stream":
		err = proto.Unmarshal(body, got)
	case "application/x-rev":
		err = revCodec{}.Unmarshal(body, got)
	default:
		return "content-type-unknown", fmt.Sprintf("response Content-Type %q names no codec", ct)
	}
	if err != nil {
		return "body-undecodable", fmt.Sprintf("as %s: %v; body=%q", ct, err, truncS(string(body), 80))
	}
	if !proto.Equal(got, wantMsg) {
		return "reply-mismatch", fmt.Sprintf("decoded {%s} want {%s}", truncS(fmtMsg(got), 200), truncS(fmtMsg(wantMsg), 200))
	}
	return "", ""
}

// c04CachedAsset: history-dependent part. One mux; a handler that serves the same retained
// HttpBody message every time (a static-asset cache), interleaved with other traffic through
// the same mux (JSON echo, protobuf echo, an upload, a response_body call): every serving of
// the asset must still deliver the pristine bytes.
func c04CachedAsset(c *Ctx) {
	r := c.Run
	e := newC04Env()
	others := []c04Case{
		{Method: "echo", Reply: "all-kinds", ReqCT: "application/json", Verb: "POST"},
		{Method: "echo", Reply: "all-kinds", ReqCT: "application/protobuf", Accept: "application/protobuf", Verb: "POST"},
		{Method: "raw", Reply: "image/jpeg|70"},
		{Method: "sel", Reply: "full", ReqCT: "application/json"},
		{Method: "echo", Reply: "empty", ReqCT: "application/json", AcceptEnc: "gzip", Verb: "POST"},
	}
	for round := 0; round < 8; round++ {
		for _, n := range []int{5, 40, 90} {
			tc := c04Case{Method: "raw", Reply: fmt.Sprintf("cached/asset|%d", n), Accept: []string{"", "*/*", "application/json"}[round%3]}
			oracle, note := e.exec(&tc)
			r.Eval(1)
			if oracle != "" {
				r.Outcome("FAIL:" + oracle)
				r.Violation(report.Violation{Oracle: oracle, Key: fmt.Sprintf("%s cached-asset size=%d serving=%d", oracle, n, round+1), Case: map[string]any{"kind": "cached-asset", "size": n, "serving": round + 1, "between": "json echo, protobuf echo, upload, response_body, gzip echo"}, Note: note})
				return
			}
			r.Outcome("raw:cached-asset-intact")
			o := others[(round*3+n)%len(others)]
			if oracle, note := e.exec(&o); oracle != "" {
				r.Violation(report.Violation{Oracle: oracle, Key: fmt.Sprintf("%s between cached-asset servings method=%s reply=%s", oracle, o.Method, o.Reply), Case: o, Note: note})
				return
			}
			r.Eval(1)
		}
	}
	r.Distinct("cached-asset")
}

func (e *c04Env) notInvoked(tc *c04Case, res *callResult) (string, string) {
	// An unregistered request content type with a body is legitimately refused.
	switch tc.ReqCT {
	case "", "application/json", "application/protobuf", "application/octet-stream", "application/x-rev":
		return "handler-not-invoked", fmt.Sprintf("HTTP %d %s", res.HTTPCode, truncS(string(res.Body), 120))
	}
	if res.HTTPCode >= 400 {
		return "", "refused-unregistered-request-type"
	}
	return "handler-not-invoked", fmt.Sprintf("HTTP %d", res.HTTPCode)
}

func c04Accepts() []string {
	types := []string{"application/json", "application/protobuf", "application/octet-stream", "application/x-rev", "application/*", "*/*", "text/plain", "junk", "google.api.HttpBody"}
	qs := []string{"", ";q=0", ";q=0.5", ";q=1"}
	out := []string{""}
	var singles []string
	for _, t := range types {
		for _, q := range qs {
			singles = append(singles, t+q)
		}
	}
	out = append(out, singles...)
	for _, a := range singles {
		for _, b := range singles {
			if a != b {
				out = append(out, a+", "+b)
			}
		}
	}
	// the same ranges on several header lines (RFC 9110 5.3: equivalent to one comma-joined line)
	out = append(out, "text/html\napplication/protobuf", "\napplication/protobuf", "image/png;q=0.9\ntext/*\napplication/json;q=0.5", "application/json;q=0\napplication/protobuf",
		"junk\napplication/x-rev", "text/plain\n*/*;q=0.1", "application/protobuf\napplication/json", "application/json\napplication/protobuf")
	// scale: long lists (legacy browsers, merging gateways): the only satisfiable range after
	// 7, 8, 12, 40 and 300 others, on one line and spread over lines; and first with many after it
	for _, k := range []int{7, 8, 12, 40, 300} {
		var fill []string
		for i := 0; i < k; i++ {
			fill = append(fill, fmt.Sprintf("%s/x-t%d;q=0.%d", []string{"text", "image", "application", "audio"}[i%4], i, 1+i%9))
		}
		for _, target := range []string{"application/protobuf", "application/json;q=0.3", "application/x-rev"} {
			out = append(out, strings.Join(fill, ", ")+", "+target, target+", "+strings.Join(fill, ","), strings.Join(fill[:k/2], ", ")+"\n"+strings.Join(fill[k/2:], ", ")+", "+target)
		}
	}
	out = append(out, "application/json;q=abc", ",", ";", "application/json;level=1;q=0.2, */*;q=0.1", "APPLICATION/JSON",
		"application/json; charset=utf-8", "application/json;charset=utf-8;q=0.9, application/protobuf;q=0.1", "application/protobuf; a=b", "application/protobuf ; a=b ; q=0.3 , text/plain")
	return out
}

func c04Cases(e *c04Env, thorough bool) []c04Case {
	var out []c04Case
	accepts := c04Accepts()
	encs := []string{"", "gzip", "identity", "*", "gzip;q=0", "junk", "gzip, identity;q=0.5", "application/json", "x-rot"}
	reqCTs := []string{"", "application/json", "application/protobuf", "application/octet-stream", "text/unregistered", "application/x-rev"}
	// every reply × request type × a few Accept values × every Accept-Encoding
	fewAccept := []string{"", "application/json", "application/protobuf", "application/octet-stream", "*/*", "text/plain", "application/x-rev"}
	for _, name := range e.names {
		for _, rct := range reqCTs {
			for _, a := range fewAccept {
				for _, enc := range encs {
					if !thorough && strings.HasPrefix(name, "field:") && enc != "" && enc != "gzip" {
						continue
					}
					out = append(out, c04Case{Method: "echo", Reply: name, ReqCT: rct, Accept: a, AcceptEnc: enc, Verb: "POST"})
				}
			}
		}
	}
	// the handler sends its header metadata itself before returning the reply
	for _, name := range []string{"empty", "all-kinds", "big-64KiB"} {
		for _, rct := range reqCTs[:4] {
			for _, a := range fewAccept {
				out = append(out, c04Case{Method: "echo", Reply: name, ReqCT: rct, Accept: a, Verb: "POST", SendHdr: true})
			}
		}
	}
	for _, ct := range []string{"image/jpeg", "application/x-blob"} {
		for _, a := range []string{"", "application/json", "*/*"} {
			out = append(out, c04Case{Method: "raw", Reply: ct + "|1000", Accept: a, SendHdr: true})
		}
	}
	// every Accept list × request types × three replies (POST and body-less GET)
	for _, a := range accepts {
		for _, rct := range reqCTs {
			for _, name := range []string{"empty", "all-kinds"} {
				out = append(out, c04Case{Method: "echo", Reply: name, ReqCT: rct, Accept: a, Verb: "POST"})
			}
			out = append(out, c04Case{Method: "echo", Reply: "maps-struct-any", ReqCT: rct, Accept: a, AcceptEnc: "gzip", Verb: "GET"})
			out = append(out, c04Case{Method: "sel", Reply: "full", ReqCT: rct, Accept: a})
		}
	}
	for _, rct := range reqCTs {
		for _, enc := range encs {
			out = append(out, c04Case{Method: "sel", Reply: "empty", ReqCT: rct, AcceptEnc: enc})
		}
	}
	// HttpBody replies
	for _, ct := range []string{"image/jpeg", "text/plain; charset=utf-8", "", "application/json"} {
		for _, n := range []int{0, 1, 7, 1000} {
			for _, a := range []string{"", "application/json", "*/*", "image/*", "google.api.HttpBody", "text/plain;q=0"} {
				for _, enc := range encs {
					out = append(out, c04Case{Method: "raw", Reply: fmt.Sprintf("%s|%d", ct, n), Accept: a, AcceptEnc: enc})
				}
			}
		}
	}
	if thorough {
		// full cross: every reply × request type × every Accept list × four Accept-Encoding
		// classes × handler sends its headers itself or not; GET for every third reply
		for ni, name := range e.names {
			for _, rct := range reqCTs {
				for _, a := range accepts {
					for _, enc := range []string{"", "gzip", "gzip;q=0", "*"} {
						for _, sh := range []bool{false, true} {
							out = append(out, c04Case{Method: "echo", Reply: name, ReqCT: rct, Accept: a, AcceptEnc: enc, Verb: "POST", SendHdr: sh})
						}
						if ni%3 == 0 {
							out = append(out, c04Case{Method: "echo", Reply: name, ReqCT: rct, Accept: a, AcceptEnc: enc, Verb: "GET"})
						}
					}
				}
			}
		}
		for _, a := range accepts {
			for _, ct := range []string{"image/jpeg", "text/plain; charset=utf-8", "", "application/json"} {
				for _, n := range []int{0, 7, 70000} {
					for _, enc := range []string{"", "gzip"} {
						for _, sh := range []bool{false, true} {
							out = append(out, c04Case{Method: "raw", Reply: fmt.Sprintf("%s|%d", ct, n), Accept: a, AcceptEnc: enc, SendHdr: sh})
						}
					}
				}
			}
			for _, rct := range reqCTs {
				for _, enc := range encs {
					out = append(out, c04Case{Method: "sel", Reply: "full", ReqCT: rct, Accept: a, AcceptEnc: enc})
				}
			}
		}
	}
	return out
}

func runC04(c *Ctx) {
	r := c.Run
	r.Rule("reply{empty, each field kind with a boundary value, maps/struct/any/repeated messages, all kinds at once, 64KiB} × request Content-Type{none,json,protobuf,octet-stream,unregistered, a custom codec registered with CodecOption} × Accept{every list of <= 2 ranges from {json,protobuf,octet-stream,the custom codec,application/*,*/*,text/plain,junk,google.api.HttpBody} × q{none,0,0.5,1}, plus malformed, plus ranges spread over several Accept header lines} × Accept-Encoding{none,gzip,identity,*,gzip;q=0,junk,list,a content type}; response_body selector; handlers that call grpc.SendHeader before replying; google.api.HttpBody replies (4 content types × 4 sizes incl. JSON-looking bytes); a retained HttpBody reply (cached asset, 3 sizes) served 8 times on one mux with other requests in between; distinct = (method, reply, request type, Accept class, Accept-Encoding); thorough adds the full cross reply × request type × every Accept list × Accept-Encoding{none,gzip,gzip;q=0,*} × SendHeader{no,yes}, and every Accept list on HttpBody and response_body replies")
	r.Assume("which admitted type is chosen and q=0 exclusions of a more specific range are not demanded", "a request with an unregistered content type and a body may be refused")
	e0 := newC04Env()
	cases := c04Cases(e0, c.Thorough())
	envs := make([]*c04Env, explore.Workers)
	explore.ParallelFor(len(cases), func() bool { return r.TooManyViolations() || r.Expired() }, func(w, i int) {
		if envs[w] == nil {
			envs[w] = newC04Env()
		}
		tc := &cases[i]
		oracle, note := envs[w].exec(tc)
		r.Eval(1)
		if oracle != "" {
			r.Outcome("FAIL:" + oracle)
			r.Violation(report.Violation{Oracle: oracle, Key: fmt.Sprintf("%s method=%s reply=%s reqct=%q accept=%q accept-encoding=%q verb=%s sendheader=%v", oracle, tc.Method, tc.Reply, tc.ReqCT, tc.Accept, tc.AcceptEnc, tc.Verb, tc.SendHdr), Case: *tc, Note: note})
			return
		}
		if note == "" {
			note = "decoded-equal"
		}
		r.Outcome(tc.Method + ":" + note)
		offers, dub := admitted(tc.Accept)
		r.Distinct(fmt.Sprintf("%s|%s|%s|%d|%v|%s|%v", tc.Method, tc.Reply, tc.ReqCT, len(offers), dub, tc.AcceptEnc, tc.SendHdr))
		if r.WantSample() && i%1999 == 3 {
			r.Sample(*tc)
		}
	})
	c04CachedAsset(c)
}

func replayC04(c *Ctx, v report.Violation) {
	if strings.Contains(v.Key, "cached-asset") {
		sub := *c
		sub.Run = report.NewRun("C04", "quick", 0, "exploration")
		c04CachedAsset(&sub)
		fmt.Printf("replay: cached-asset history re-run -> %d violations\n", sub.Run.NumViolations())
		if sub.Run.NumViolations() > 0 {
			c.Run.Violation(report.Violation{Oracle: v.Oracle, Key: v.Key, Case: v.Case, Note: "still violated"})
		}
		return
	}
	var tc c04Case
	if !remarshal(v.Case, &tc) {
		fmt.Println("replay: cannot decode case")
		return
	}
	oracle, note := newC04Env().exec(&tc)
	fmt.Printf("replay: %+v -> oracle=%q %s\n", tc, oracle, note)
	if oracle != "" {
		c.Run.Violation(report.Violation{Oracle: oracle, Key: v.Key, Case: tc, Note: note})
	}
}
