package props

import (
	"context"
	"errors"
	"fmt"
	"io"
	"math"
	"math/big"
	"net/http"
	"strings"
	"sync/atomic"
	"time"

	"google.golang.org/grpc"
	"google.golang.org/grpc/codes"
	"google.golang.org/grpc/stats"
	"google.golang.org/grpc/status"
	"google.golang.org/protobuf/proto"
	"google.golang.org/protobuf/types/dynamicpb"

	"larking.io/larking"

	"verif/dyn"
	"verif/env"
	"verif/explore"
	"verif/ref/wire"
	"verif/report"
	"verif/sched"
)

// C15 — gRPC deadlines and cancellation reach the handler.
//
// Part 1 (exhaustive enumeration): every grpc-timeout string of 1..d digits × 6 units, leading
// zeros, and malformed shapes through the real gRPC entry path.
// Part 2 (controlled scheduler): client cancellation at every point of unary and streaming
// calls on gRPC, gRPC-web and HTTP transcoding.

func init() {
	register(&Check{ID: "C15", Level: "model_checking", NeedsSched: true, Run: runC15, Replay: replayC15})
	raceScenarios["C15"] = c15Scenarios
}

type c15TimeoutCase struct {
	Timeout string `json:"grpc_timeout"`
}

var c15Units = map[byte]*big.Int{
	'H': big.NewInt(int64(time.Hour)), 'M': big.NewInt(int64(time.Minute)), 'S': big.NewInt(int64(time.Second)),
	'm': big.NewInt(int64(time.Millisecond)), 'u': big.NewInt(int64(time.Microsecond)), 'n': big.NewInt(1),
}

// refTimeout is the gRPC wire spec: 1..8 ASCII digits followed by one unit of {H,M,S,m,u,n}.
func refTimeout(s string) (ns *big.Int, ok bool) {
	if len(s) < 2 || len(s) > 9 {
		return nil, false
	}
	u, isUnit := c15Units[s[len(s)-1]]
	if !isUnit {
		return nil, false
	}
	v := new(big.Int)
	for _, c := range []byte(s[:len(s)-1]) {
		if c < '0' || c > '9' {
			return nil, false
		}
		v.Mul(v, big.NewInt(10)).Add(v, big.NewInt(int64(c-'0')))
	}
	return v.Mul(v, u), true
}

type deadlineImpl struct {
	calls    int
	deadline time.Time
	has      bool
	at       time.Time
}

func (d *deadlineImpl) Unary(c *dyn.Call) (proto.Message, error) {
	d.calls++
	d.at = time.Now()
	d.deadline, d.has = c.Ctx.Deadline()
	return dynamicpb.NewMessage(c.Desc.Output()), nil
}
func (d *deadlineImpl) Stream(c *dyn.Call) error { return nil }

// slowStats is a stats handler that takes its time over TagRPC and notes when it was asked: the
// request had been received by then, so "T after receipt" is at most T after that moment -
// however long the stats handler, the interceptors or the scheduler take afterwards.
type slowStats struct {
	statsProbe
	entered time.Time
}

func (s *slowStats) TagRPC(ctx context.Context, i *stats.RPCTagInfo) context.Context {
	s.entered = time.Now()
	time.Sleep(25 * time.Millisecond)
	return ctx
}

type c15Env struct {
	muxSlow *larking.Mux // behind a stats handler whose TagRPC is slow
	slow    *slowStats
	mux     *larking.Mux // plain
	muxOpts *larking.Mux // the same service behind pass-through interceptors and a stats handler
	k       int          // calls alternate between the two
	impl    *deadlineImpl
	body    []byte
}

// c15PassThroughOpts: options that must not change what the handler's context carries.
func c15PassThroughOpts() []larking.MuxOption {
	return []larking.MuxOption{
		larking.UnaryServerInterceptorOption(func(ctx context.Context, req interface{}, info *grpc.UnaryServerInfo, handler grpc.UnaryHandler) (interface{}, error) {
			return handler(ctx, req)
		}),
		larking.StreamServerInterceptorOption(func(srv interface{}, ss grpc.ServerStream, info *grpc.StreamServerInfo, handler grpc.StreamHandler) error {
			return handler(srv, ss)
		}),
		larking.StatsOption(&statsProbe{}),
	}
}

func newC15Env(t *tSchema) *c15Env {
	impl := &deadlineImpl{}
	mk := func(extra ...larking.MuxOption) *larking.Mux {
		m, err := larking.NewMux(append(append([]larking.MuxOption{}, t.opts...), extra...)...)
		if err != nil {
			panic(err)
		}
		if err := m.VerifRegisterService(t.gsd, dyn.NewServer(impl)); err != nil {
			panic(err)
		}
		return m
	}
	slow := &slowStats{}
	return &c15Env{mux: mk(), muxOpts: mk(c15PassThroughOpts()...), muxSlow: mk(larking.StatsOption(slow)), slow: slow, impl: impl, body: wire.GRPCFrame(0, nil)}
}

var maxDur = big.NewInt(math.MaxInt64)

// timeoutCheck runs one grpc-timeout value through the gRPC entry path.
func (e *c15Env) timeoutCheck(to string, signedNotDemanded bool) (oracle, note string) {
	e.impl.calls, e.impl.has = 0, false
	hdr := http.Header{"Grpc-Timeout": {to}, "Content-Type": {"application/grpc"}}
	rd := env.NewReader(env.Script{Data: e.body})
	req := newPostRequest("/vs.T/Unary", hdr, rd, -1)
	req.Proto, req.ProtoMajor, req.ProtoMinor = "HTTP/2.0", 2, 0
	before := time.Now()
	mux, where := e.mux, ""
	if e.k%2 == 1 {
		mux, where = e.muxOpts, " (mux with pass-through interceptors and a stats handler)"
	}
	e.k++
	defer func() {
		if oracle != "" {
			note += where
		}
	}()
	sr := serveReq(mux, req)
	if sr.Panicked {
		return "panic", sr.Panic
	}
	want, valid := refTimeout(to)
	if !valid {
		if signedNotDemanded && len(to) >= 2 && (to[0] == '+' || to[0] == '-') {
			return "", "signed-not-demanded"
		}
		if e.impl.calls != 0 {
			return "malformed-timeout-accepted", fmt.Sprintf("grpc-timeout %q invoked the handler (deadline in %v)", to, e.impl.deadline.Sub(before))
		}
		if sr.Code < 400 {
			// a gRPC-level refusal (grpc-status in trailers) would be acceptable too
			if gs := sr.Rec.Trailers().Get("Grpc-Status"); gs == "" || gs == "0" {
				return "malformed-timeout-no-error", fmt.Sprintf("grpc-timeout %q: HTTP %d without an error status", to, sr.Code)
			}
		}
		return "", "malformed-refused"
	}
	if e.impl.calls != 1 {
		// a deadline that has already passed may end the call before the handler runs (the
		// client's own timer reports DeadlineExceeded); from one minute upwards it must run
		gs := sr.Rec.Trailers().Get("Grpc-Status")
		if want.Cmp(big.NewInt(int64(time.Minute))) >= 0 {
			return "legal-timeout-refused", fmt.Sprintf("grpc-timeout %q: handler not invoked, HTTP %d grpc-status=%q %s", to, sr.Code, gs, truncS(string(sr.Body), 100))
		}
		return "", "expired-before-handler"
	}
	if !e.impl.has {
		return "no-deadline", fmt.Sprintf("grpc-timeout %q: the handler's context has no deadline", to)
	}
	lo, hi := before, e.impl.at
	if want.Cmp(maxDur) > 0 {
		// beyond what a Duration can hold: clamped; the deadline must be at least ~292 years out
		if e.impl.deadline.Sub(before) < time.Duration(math.MaxInt64)-time.Hour {
			return "deadline-wrong", fmt.Sprintf("grpc-timeout %q overflows int64 nanoseconds but the deadline is only %v away", to, e.impl.deadline.Sub(before))
		}
		return "", "clamped"
	}
	T := time.Duration(want.Int64())
	d := e.impl.deadline
	// lo+T <= d <= hi+T  (time.Add saturates; compare through Sub which saturates too)
	if d.Before(lo.Add(T)) || d.After(hi.Add(T)) {
		return "deadline-wrong", fmt.Sprintf("grpc-timeout %q = %v: deadline is %v after receipt (handler ran %v after receipt)", to, T, d.Sub(lo), hi.Sub(lo))
	}
	return "", "deadline-ok"
}

// slowStatsCheck: the deadline counts from receipt, not from whenever the options are done.
func (e *c15Env) slowStatsCheck(to string) (oracle, note string) {
	e.impl.calls, e.impl.has = 0, false
	e.slow.entered = time.Time{}
	hdr := http.Header{"Grpc-Timeout": {to}, "Content-Type": {"application/grpc"}}
	req := newPostRequest("/vs.T/Unary", hdr, env.NewReader(env.Script{Data: e.body}), -1)
	req.Proto, req.ProtoMajor, req.ProtoMinor = "HTTP/2.0", 2, 0
	before := time.Now()
	sr := serveReq(e.muxSlow, req)
	if sr.Panicked {
		return "panic", sr.Panic
	}
	want, _ := refTimeout(to)
	T := time.Duration(want.Int64())
	if e.slow.entered.IsZero() {
		return "harness", "the stats handler was not asked"
	}
	if e.impl.calls == 0 {
		return "", "expired-before-handler"
	}
	if !e.impl.has {
		return "no-deadline", fmt.Sprintf("grpc-timeout %q: the handler's context has no deadline (mux with a slow stats handler)", to)
	}
	if d := e.impl.deadline; d.Before(before.Add(T)) || d.After(e.slow.entered.Add(T)) {
		return "deadline-not-from-receipt", fmt.Sprintf("grpc-timeout %q = %v: the deadline is %v after the request was handed to ServeHTTP and %v after the stats handler was first asked about it - it was not counted from receipt", to, T, d.Sub(before), d.Sub(e.slow.entered))
	}
	return "", "deadline-from-receipt"
}

func c15Malformed() []string {
	out := []string{"", "S", "1", "12", "1s", "1h", "1U", "1N", "1 S", " 1S", "1S ", "1.5S", "1,5S", "0x1S", "1e3S", "+1S", "-1S", "--1S", "1SS", "S1", "１S", "1\tS", "123456789S", "1234567890n", "999999999999999999999H", "٣S", "1µ", "1us", "1ms", "1ns", "1_0S", "1S\x00", "\x001S"}
	return out
}

func runC15Timeouts(c *Ctx, t *tSchema) {
	r := c.Run
	digits := 5
	if c.Thorough() {
		digits = 7
	}
	r.Set("timeout_digits_full_path", digits)
	units := []byte("HMSmun")
	// shards: (number of digits, unit, leading digit)
	type shard struct {
		nd    int
		unit  byte
		first byte
	}
	var shards []shard
	for nd := 1; nd <= digits; nd++ {
		for _, u := range units {
			for f := byte('0'); f <= '9'; f++ {
				shards = append(shards, shard{nd, u, f})
			}
		}
	}
	envs := make([]*c15Env, explore.Workers)
	var total atomic.Int64
	done := explore.ParallelFor(len(shards), func() bool { return r.TooManyViolations() || r.Expired() }, func(w, i int) {
		if envs[w] == nil {
			envs[w] = newC15Env(t)
		}
		e := envs[w]
		sh := shards[i]
		buf := make([]byte, sh.nd+1)
		buf[0], buf[sh.nd] = sh.first, sh.unit
		n := 1
		for k := 1; k < sh.nd; k++ {
			n *= 10
		}
		outc := map[string]int64{}
		for v := 0; v < n; v++ {
			x := v
			for k := sh.nd - 1; k >= 1; k-- {
				buf[k] = byte('0' + x%10)
				x /= 10
			}
			to := string(buf)
			oracle, note := e.timeoutCheck(to, true)
			if oracle != "" {
				outc["FAIL:"+oracle]++
				r.Violation(report.Violation{Oracle: oracle, Key: oracle + " grpc-timeout=" + to, Case: c15TimeoutCase{to}, Note: note})
			} else {
				outc["timeout:"+note]++
			}
		}
		total.Add(int64(n))
		r.Eval(int64(n))
		for k, v := range outc {
			r.OutcomeN(k, v)
		}
		r.Distinct(fmt.Sprintf("timeout|%d digits|%c|%c…", sh.nd, sh.unit, sh.first))
	})
	if !done {
		r.CapHit("timeout enumeration stopped at the deadline")
	}
	// the 8-digit layer (and, in quick mode, the 6..7-digit layers): cross-checked through the
	// parser hook against the same reference, boundary values through the full path
	e := newC15Env(t)
	for nd := digits + 1; nd <= 8; nd++ {
		for _, u := range units {
			vals := []string{strings.Repeat("9", nd), "1" + strings.Repeat("0", nd-1), strings.Repeat("0", nd), strings.Repeat("0", nd-1) + "1", "2562047", "2562048", "02562047", "02562048", "25620470"}
			for _, v := range vals {
				if len(v) != nd {
					continue
				}
				to := v + string(u)
				oracle, note := e.timeoutCheck(to, true)
				r.Eval(1)
				if oracle != "" {
					r.Violation(report.Violation{Oracle: oracle, Key: oracle + " grpc-timeout=" + to, Case: c15TimeoutCase{to}, Note: note})
				} else {
					r.Outcome("timeout:" + note)
				}
			}
		}
	}
	// parser cross-check over a stride of the remaining layers
	var parsed int64
	for nd := digits + 1; nd <= 8; nd++ {
		n := 1
		for k := 0; k < nd; k++ {
			n *= 10
		}
		stride := 1
		if !c.Thorough() {
			stride = 9973
		} else if nd == 8 {
			stride = 1 // the full 8-digit layer through the parser
		}
		for _, u := range units {
			for v := 0; v < n; v += stride {
				to := fmt.Sprintf("%0*d%c", nd, v, u)
				got, err := larking.VerifDecodeTimeout(to)
				want, _ := refTimeout(to)
				parsed++
				ok := err == nil && ((want.Cmp(maxDur) > 0 && got == time.Duration(math.MaxInt64)) || (want.Cmp(maxDur) <= 0 && int64(got) == want.Int64()))
				if !ok {
					r.Violation(report.Violation{Oracle: "decode-timeout", Key: "decode-timeout " + to, Case: c15TimeoutCase{to}, Note: fmt.Sprintf("decoded %v err=%v, reference %v ns", got, err, want)})
				}
			}
		}
		if r.Expired() {
			r.CapHit("parser cross-check stopped at the deadline")
			break
		}
	}
	r.Eval(parsed)
	r.Set("timeout_values_through_parser_hook", parsed)
	// malformed shapes
	// each one three times on the same mux (a refusal must not be remembered as anything else),
	// with a legal value in between
	for _, to := range c15Malformed() {
		if to == "" {
			continue // an empty header means "no timeout"
		}
		for rep := 0; rep < 3; rep++ {
			oracle, note := e.timeoutCheck(to, true)
			r.Eval(1)
			if oracle != "" {
				r.Outcome("FAIL:" + oracle)
				r.Violation(report.Violation{Oracle: oracle, Key: fmt.Sprintf("%s grpc-timeout=%q attempt=%d on one mux", oracle, to, rep+1), Case: c15TimeoutCase{to}, Note: fmt.Sprintf("attempt %d with this value on the same mux: %s", rep+1, note)})
				break
			}
			r.Outcome("timeout:" + note)
			r.Distinct("malformed|" + to)
			if o2, n2 := e.timeoutCheck("5S", false); o2 != "" {
				r.Outcome("FAIL:" + o2)
				r.Violation(report.Violation{Oracle: o2, Key: fmt.Sprintf("%s grpc-timeout=\"5S\" after malformed %q", o2, to), Case: c15TimeoutCase{"5S"}, Note: "a legal value right after a refused one: " + n2})
				break
			}
			r.Eval(1)
		}
	}
	// behind a slow stats handler the deadline still counts from receipt
	for _, to := range []string{"1S", "1000m", "1500000u", "00000002S", "5M", "1H", "100m", "20m", "99999999n", "3S", "30000m", "7H"} {
		oracle, note := e.slowStatsCheck(to)
		r.Eval(1)
		if oracle != "" {
			r.Outcome("FAIL:" + oracle)
			r.Violation(report.Violation{Oracle: oracle, Key: oracle + " grpc-timeout=" + fmt.Sprintf("%q", to), Case: c15TimeoutCase{to}, Note: note})
		} else {
			r.Outcome("timeout:" + note)
			r.Distinct("slow-stats|" + to)
		}
	}
	r.Set("timeout_values_full_path", total.Load())
}

// ---- Part 2: cancellation under the controlled scheduler ---------------------------------

// blockingBody is a request body fed by a client thread; Read blocks (as a scheduling guard)
// until bytes, EOF or a failure are available.
type blockingBody struct {
	buf    []byte
	eof    bool
	failed error
	reads  int
}

func (b *blockingBody) Read(p []byte) (int, error) {
	b.reads++
	sched.Point("body read", func() bool { return len(b.buf) > 0 || b.eof || b.failed != nil })
	if b.failed != nil && len(b.buf) == 0 {
		return 0, b.failed
	}
	if len(b.buf) == 0 {
		return 0, io.EOF
	}
	n := copy(p, b.buf)
	b.buf = b.buf[n:]
	return n, nil
}

// Close makes pending and later Reads fail, as net/http's request bodies do.
func (b *blockingBody) Close() error {
	if b.failed == nil {
		b.failed = errBodyClosed
	}
	return nil
}

var errBodyClosed = errors.New("http: invalid Read on closed Body")

type c15Obs struct {
	tick int64
	what string
	err  error
}

type c15Sys struct {
	t          *tSchema
	mux        *larking.Mux
	body       *blockingBody
	rec        *env.Recorder
	ctx        context.Context
	cancel     context.CancelFunc
	clock      int64
	cancelAt   int64
	returnedAt int64
	obs        []c15Obs
	lateWrites int
	proto      string
	shape      string
	frames     [][]byte
	late       bool

	eofBeforeCancel bool

	unaryCalls      int
	lastDeadline    time.Time
	lastHasDeadline bool
}

func (s *c15Sys) tick() int64 { s.clock++; return s.clock }

type cancelImpl struct{ s *c15Sys }

func (h *cancelImpl) observe(what string, ctx context.Context, err error) {
	h.s.obs = append(h.s.obs, c15Obs{h.s.tick(), what, err})
	h.s.obs = append(h.s.obs, c15Obs{h.s.clock, "ctx", ctx.Err()})
}

func (h *cancelImpl) Unary(c *dyn.Call) (proto.Message, error) {
	h.s.unaryCalls++
	h.s.lastDeadline, h.s.lastHasDeadline = c.Ctx.Deadline()
	for i := 0; i < 3; i++ {
		sched.Point("handler step", nil)
		h.observe("step", c.Ctx, nil)
	}
	return dynamicpb.NewMessage(c.Desc.Output()), nil
}

func (h *cancelImpl) Stream(c *dyn.Call) error {
	st := c.Stream
	ctx := st.Context()
	var lateStream grpc.ServerStream
	if h.s.late {
		lateStream = st
		sched.GoNamed("late-sender", func() {
			// a goroutine the handler leaked: it keeps using the stream
			for i := 0; i < 2; i++ {
				sched.Point("late step", nil)
				start := h.s.tick()
				err := lateStream.SendMsg(dynamicpb.NewMessage(c.Desc.Output()))
				h.s.obs = append(h.s.obs, c15Obs{start, "late-send-start", nil}, c15Obs{h.s.tick(), "late-send-return", err})
			}
		})
	}
	h.observe("start", ctx, nil)
	for i := 0; i < 3; i++ {
		m := dynamicpb.NewMessage(c.Desc.Input())
		start := h.s.tick()
		err := st.RecvMsg(m)
		h.s.obs = append(h.s.obs, c15Obs{start, "recv-start", nil})
		h.observe("recv-return", ctx, err)
		if err != nil {
			break
		}
		if c.Desc.IsStreamingServer() {
			start := h.s.tick()
			err := st.SendMsg(dynamicpb.NewMessage(c.Desc.Output()))
			h.s.obs = append(h.s.obs, c15Obs{start, "send-start", nil})
			h.observe("send-return", ctx, err)
			if err != nil {
				break
			}
		}
		if !c.Desc.IsStreamingClient() {
			break
		}
	}
	sched.Point("handler step", nil)
	h.observe("end", ctx, nil)
	if !c.Desc.IsStreamingServer() {
		_ = st.SendMsg(dynamicpb.NewMessage(c.Desc.Output()))
	}
	return nil
}

// followUp: whatever happened to the cancelled call, the next, healthy unary call on the same
// mux (same protocol family, grpc-timeout 10S on the gRPC protocols) must run its handler under
// a live context with that deadline and be answered OK - a cancellation must leave nothing
// behind in the mux. It runs after the schedule, outside the scheduler.
func (s *c15Sys) followUp() string {
	pb, _ := proto.Marshal(s.t.newReq("", []byte("after"), 0))
	before := s.unaryCalls
	t0 := time.Now()
	var res *callResult
	switch s.proto {
	case "grpc":
		res = doGRPC(s.mux, "/vs.T/Unary", "application/grpc", http.Header{"Grpc-Timeout": {"10S"}}, reqBody{Data: wire.GRPCFrame(0, pb)})
	case "web":
		res = doWeb(s.mux, "/vs.T/Unary", "application/grpc-web+proto", http.Header{"Grpc-Timeout": {"10S"}}, reqBody{Data: wire.GRPCFrame(0, pb)})
	default:
		res = doHTTP(s.mux, "POST", "/t/unary", "", http.Header{"Content-Type": {"application/json"}}, reqBody{Data: []byte(`{"b":"eA=="}`), CL: -2})
	}
	t1 := time.Now()
	what := fmt.Sprintf("a healthy %s unary call made after the cancelled %s %s call, on the same mux", s.proto, s.proto, s.shape)
	if res.Panicked {
		return what + ", panicked: " + res.Panic
	}
	if s.unaryCalls != before+1 {
		st := "none"
		if res.Status != nil {
			st = fmt.Sprintf("%d %q", res.Status.Code, res.Status.Message)
		}
		return fmt.Sprintf("%s, did not reach its handler (%d handler calls; http=%d grpc-status=%s)", what, s.unaryCalls-before, res.HTTPCode, st)
	}
	if s.proto == "http" {
		if res.HTTPCode != 200 {
			return fmt.Sprintf("%s, was answered %d", what, res.HTTPCode)
		}
		return ""
	}
	if res.Status == nil || res.Status.Code != 0 || len(res.Msgs) != 1 {
		return fmt.Sprintf("%s, was answered status=%+v replies=%d", what, res.Status, len(res.Msgs))
	}
	if !s.lastHasDeadline || s.lastDeadline.Before(t0.Add(10*time.Second)) || s.lastDeadline.After(t1.Add(10*time.Second)) {
		return fmt.Sprintf("%s, ran without the 10 s deadline it asked for (has deadline: %v, %v from receipt)", what, s.lastHasDeadline, s.lastDeadline.Sub(t0))
	}
	return ""
}

// h2StreamCancel is what a body read of net/http's HTTP/2 server returns after RST_STREAM(CANCEL).
type h2StreamCancel struct{}

func (h2StreamCancel) Error() string { return "stream error: stream ID 1; CANCEL" }

var c15T *tSchema

func newC15Sys(protoName, shape string, late bool, withOpts ...bool) *c15Sys {
	if c15T == nil {
		t, err := newTSchema()
		if err != nil {
			panic(err)
		}
		c15T = t
	}
	s := &c15Sys{t: c15T, proto: protoName, shape: shape, late: late, body: &blockingBody{}, rec: env.NewRecorder()}
	mopts := append([]larking.MuxOption{}, c15T.opts...)
	if len(withOpts) > 0 && withOpts[0] {
		mopts = append(mopts, c15PassThroughOpts()...)
	}
	m, err := larking.NewMux(mopts...)
	if err != nil {
		panic(err)
	}
	if err := m.VerifRegisterService(c15T.gsd, dyn.NewServer(&cancelImpl{s})); err != nil {
		panic(err)
	}
	s.mux = m
	s.ctx, s.cancel = context.WithCancel(context.Background())
	msg := []byte{0x1a, 0x01, 0x05} // Req{n:…} as protobuf: field 3 varint — any valid message will do
	_ = msg
	pb, _ := proto.Marshal(c15T.newReq("", []byte("x"), 0))
	js := []byte(`{"b":"eA=="}`)
	for i := 0; i < 2; i++ {
		switch protoName {
		case "grpc", "web":
			s.frames = append(s.frames, wire.GRPCFrame(0, pb))
		case "http":
			s.frames = append(s.frames, js)
		}
	}
	s.rec.OnWrite = func([]byte) {
		sched.Point("response write", nil)
		if s.returnedAt != 0 {
			s.lateWrites++
		}
	}
	return s
}

func c15Scenario(protoName, shape string, late bool, withOpts ...bool) *e3Scenario {
	name := fmt.Sprintf("cancel-%s-%s", protoName, shape)
	if late {
		name += "-leaked-sender"
	}
	opts := len(withOpts) > 0 && withOpts[0]
	if opts {
		name += "+interceptors+stats"
	}
	server := e3Thread{Name: "server", Body: func(sys any) {
		s := sys.(*c15Sys)
		method := map[string]string{"unary": "Unary", "cs": "CS", "ss": "SS", "bidi": "Bidi"}[shape]
		var req *http.Request
		switch protoName {
		case "grpc":
			req = newPostRequest("/vs.T/"+method, http.Header{"Content-Type": {"application/grpc"}}, s.body, -1)
			req.Proto, req.ProtoMajor, req.ProtoMinor = "HTTP/2.0", 2, 0
		case "web":
			req = newPostRequest("/vs.T/"+method, http.Header{"Content-Type": {"application/grpc-web+proto"}}, s.body, -1)
		case "http":
			req = newPostRequest(shapeRoute[shape], http.Header{"Content-Type": {"application/json"}}, s.body, -1)
		}
		req = req.WithContext(s.ctx)
		p, txt := guard(func() { s.mux.ServeHTTP(s.rec, req) })
		if p && !strings.Contains(txt, "sched") {
			s.obs = append(s.obs, c15Obs{s.tick(), "PANIC " + txt, nil})
		}
		s.returnedAt = s.tick()
	}}
	feeder := e3Thread{Name: "client-feeder", Body: func(sys any) {
		s := sys.(*c15Sys)
		for _, f := range s.frames {
			sched.Point("client sends a message", nil)
			if s.body.failed != nil {
				return
			}
			s.body.buf = append(s.body.buf, f...)
			if shape == "unary" || shape == "ss" {
				break
			}
		}
		sched.Point("client half-closes", nil)
		if s.body.failed != nil {
			return
		}
		s.body.eof = true
		s.eofBeforeCancel = s.cancelAt == 0
	}}
	canceller := e3Thread{Name: "client-cancel", Body: func(sys any) {
		s := sys.(*c15Sys)
		sched.Point("client cancels / disconnects", nil)
		s.cancelAt = s.tick()
		s.cancel()
		// net/http then fails the pending and all later body reads and response writes; what the
		// read error is depends on the transport: HTTP/2 hands out its stream error (RST_STREAM
		// CANCEL), HTTP/1.1 a truncated body; the scenarios on a mux with options keep the plain
		// context error
		switch {
		case opts:
			s.body.failed = context.Canceled
		case protoName == "grpc":
			s.body.failed = h2StreamCancel{}
		case protoName == "web":
			s.body.failed = io.ErrUnexpectedEOF
		default:
			s.body.failed = context.Canceled
		}
		s.rec.FailWriteAt = s.rec.Writes + 1
		s.rec.WriteErr = errors.New("http2: stream closed")
	}}
	check := func(sys any, x *sched.S) []e3Fail {
		s := sys.(*c15Sys)
		var fails []e3Fail
		tc := s.cancelAt
		calls := map[string]int64{} // pending call start ticks
		for i, o := range s.obs {
			if strings.HasPrefix(o.what, "PANIC") {
				fails = append(fails, e3Fail{"panic", o.what})
			}
			if tc != 0 && o.tick > tc && o.what == "ctx" && o.err == nil {
				fails = append(fails, e3Fail{"handler-context-not-cancelled", fmt.Sprintf("the client cancelled at tick %d; at tick %d (%s) the handler's ctx.Err() is still nil", tc, o.tick, s.obs[i-1].what)})
				break
			}
			switch o.what {
			case "recv-start", "send-start", "late-send-start":
				calls[strings.TrimSuffix(o.what, "-start")] = o.tick
			case "recv-return", "send-return", "late-send-return":
				k := strings.TrimSuffix(o.what, "-return")
				// a send started after the cancellation cannot have reached the client; a receive
				// may still deliver a message that had already arrived
				if start := calls[k]; tc != 0 && start > tc && o.err == nil && k != "recv" {
					fails = append(fails, e3Fail{"send-after-cancel-succeeded", fmt.Sprintf("%s started at tick %d, after the cancellation at tick %d, and returned nil", k, start, tc)})
				}
				if k == "recv" && o.err == io.EOF && tc != 0 && o.tick > tc && !s.eofBeforeCancel {
					fails = append(fails, e3Fail{"cancel-reported-as-clean-end", fmt.Sprintf("the client cancelled at tick %d without half-closing, but Recv returned io.EOF at tick %d", tc, o.tick)})
				}
				if s.returnedAt != 0 && calls[k] > s.returnedAt && o.err == nil {
					fails = append(fails, e3Fail{"stream-call-after-return-succeeded", fmt.Sprintf("%s started at tick %d, after ServeHTTP returned at tick %d, and returned nil", k, calls[k], s.returnedAt)})
				}
			}
		}
		if s.lateWrites > 0 {
			fails = append(fails, e3Fail{"write-after-servehttp-returned", fmt.Sprintf("%d writes reached the ResponseWriter after ServeHTTP had returned", s.lateWrites)})
		}
		if s.returnedAt == 0 {
			fails = append(fails, e3Fail{"servehttp-did-not-return", ""})
		}
		// summary for the outcome key (before the follow-up call adds its own observations)
		nobs := len(s.obs)
		if f := s.followUp(); f != "" {
			fails = append(fails, e3Fail{"healthy-call-after-cancelled-one-fails", f})
		}
		s.obs = s.obs[:nobs]
		// summary for the outcome key
		nerr := 0
		for _, o := range s.obs {
			if o.err != nil && o.what != "ctx" {
				nerr++
			}
		}
		sched.Logf("obs:cancel@%d returned@%d observations=%d stream-errors=%d", s.cancelAt, s.returnedAt, len(s.obs), nerr)
		return fails
	}
	threads := []e3Thread{server, feeder, canceller}
	return &e3Scenario{Name: name, Desc: fmt.Sprintf("%s %s call: the client cancels at an arbitrary point while messages are fed and the handler receives/sends", protoName, shape), PoolPoints: false,
		Setup: func() any { return newC15Sys(protoName, shape, late, opts) }, Threads: threads, Check: check, MaxSteps: 50000}
}

func c15Scenarios(thorough bool) []*e3Scenario {
	var scs []*e3Scenario
	for _, p := range []string{"grpc", "web", "http"} {
		for _, sh := range []string{"unary", "cs", "ss", "bidi"} {
			scs = append(scs, c15Scenario(p, sh, false))
		}
	}
	scs = append(scs, c15Scenario("grpc", "bidi", true), c15Scenario("web", "ss", true))
	// the same on a mux with pass-through interceptors and a stats handler: options must not
	// detach the handler's context from the request
	scs = append(scs, c15Scenario("grpc", "unary", false, true), c15Scenario("grpc", "bidi", false, true), c15Scenario("web", "ss", false, true), c15Scenario("http", "cs", false, true))
	return scs
}

func runC15(c *Ctx) {
	r := c.Run
	r.Rule("part 1: every grpc-timeout of 1..5 (thorough 1..7) digits × 6 units through the real gRPC entry path (deadline bracket t_receipt+T <= deadline <= t_handler+T, hour clamp), boundary values of the remaining digit counts through the full path and strides (thorough: the complete 8-digit layer) through the parser hook, 32 malformed shapes, 12 values behind a stats handler whose TagRPC takes 25 ms (deadline <= t_first_stats_call+T: counted from receipt, not from when the options are done); part 2: scenarios {gRPC, gRPC-web, HTTP transcoding} × {unary, client-, server-, bidi-streaming} (+ two with a goroutine leaked by the handler that keeps sending, + four on a mux with pass-through interceptors and a stats handler; part 1 alternates between the plain mux and such a mux): server thread, client feeder thread (messages, half-close), client cancel thread (cancel + failing reads/writes, as net/http does); every interleaving up to the preemption bound; oracle per schedule: after the cancellation every handler observation of ctx.Err() is non-nil, stream calls started after it fail, a parked Recv is released, ServeHTTP returns (deadlock detection), nothing is written to the ResponseWriter after ServeHTTP returned; part 3: real clients against larking.NewServer on loopback that read the first reply and go away (raw TCP: gRPC-web / gRPC-web-text / HTTP transcoding over HTTP/1.1 with Content-Length and chunked bodies; grpc-go over h2c) - the handler's context must be cancelled; distinct = timeout shards + (scenario, outcome)")
	r.Assume("'promptly' means at the handler's next observation; real RST_STREAM delivery is net/http's job", "signed timeout values are not demanded either way")
	t, err := newTSchema()
	if err != nil {
		panic(err)
	}
	if c.Shards == 0 {
		runC15Timeouts(c, t)
		runC15Disconnect(c)
	}
	bound, per := 2, 40*time.Second
	if c.Thorough() {
		bound, per = 4, 6*time.Minute
	}
	runScenarios(c, c15Scenarios(c.Thorough()), bound, per, 0)
	_ = status.Code
	_ = codes.OK
}

func replayC15(c *Ctx, v report.Violation) {
	var tc c15TimeoutCase
	if remarshal(v.Case, &tc) && (tc.Timeout != "" || strings.Contains(v.Key, "grpc-timeout")) {
		t, _ := newTSchema()
		e := newC15Env(t)
		// three times on each of the two muxes (plain / with options, alternating)
		oracle, note := "", ""
		for k := 0; k < 6 && oracle == ""; k++ {
			oracle, note = e.timeoutCheck(tc.Timeout, true)
		}
		if _, valid := refTimeout(tc.Timeout); oracle == "" && valid {
			oracle, note = e.slowStatsCheck(tc.Timeout)
		}
		fmt.Printf("replay: grpc-timeout=%q -> oracle=%q %s\n", tc.Timeout, oracle, note)
		if oracle != "" {
			c.Run.Violation(report.Violation{Oracle: oracle, Key: v.Key, Case: tc, Note: note})
		}
		return
	}
	replayE3(c15Scenarios)(c, v)
}
