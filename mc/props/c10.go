package props

import (
	"bytes"
	"context"
	"fmt"
	"io"
	"net/http"
	"os"
	"strings"
	"sync"
	"time"

	spb "google.golang.org/genproto/googleapis/rpc/status"
	"google.golang.org/grpc"
	"google.golang.org/grpc/codes"
	"google.golang.org/grpc/metadata"
	"google.golang.org/grpc/status"
	"google.golang.org/protobuf/encoding/protojson"
	"google.golang.org/protobuf/proto"
	"google.golang.org/protobuf/reflect/protoreflect"
	"google.golang.org/protobuf/types/dynamicpb"
	"google.golang.org/protobuf/types/known/anypb"
	"google.golang.org/protobuf/types/known/wrapperspb"

	"larking.io/larking"

	"verif/env"
	"verif/ref/wire"
	"verif/sched"
)

// C10 — proxying through RegisterConn is transparent.
//
// (A) In-process under the controlled scheduler: the front request (server thread), larking's
// pump goroutine (rewritten `go`), the scripted back-end and the client are controlled
// threads; every interleaving up to the preemption bound; hangs are deadlocks.

func init() {
	register(&Check{ID: "C10", Level: "model_checking", NeedsSched: true, Run: runC10, Replay: replayE3(c10Scenarios)})
	raceScenarios["C10"] = func(thorough bool) []*e3Scenario { return nil } // the free-running pass of C10 is the real-transport conformance run
}

// fakeStream is the back-end side of one proxied streaming call: an in-memory implementation
// of grpc.ClientStream following grpc-go's documented contract.
type fakeStream struct {
	ctx              context.Context
	inbox            []proto.Message // larking -> back-end
	halfClose        bool
	outbox           []proto.Message // back-end -> larking
	finished         bool
	st               *status.Status
	trailer          metadata.MD
	sendsAfterFinish int
	serverStreams    bool
}

func (f *fakeStream) Header() (metadata.MD, error) { return nil, nil }
func (f *fakeStream) Trailer() metadata.MD         { return f.trailer }
func (f *fakeStream) Context() context.Context     { return f.ctx }
func (f *fakeStream) CloseSend() error {
	sched.Point("backend-stream CloseSend", nil)
	f.halfClose = true
	return nil
}
func (f *fakeStream) SendMsg(m any) error {
	sched.Point("backend-stream SendMsg", nil)
	if f.finished {
		f.sendsAfterFinish++
		return io.EOF // grpc-go: SendMsg returns io.EOF once the stream is done
	}
	f.inbox = append(f.inbox, proto.Clone(m.(proto.Message)))
	return nil
}
func (f *fakeStream) RecvMsg(m any) error {
	sched.Point("backend-stream RecvMsg", func() bool { return len(f.outbox) > 0 || f.finished || f.ctx.Err() != nil })
	if len(f.outbox) > 0 {
		out := f.outbox[0]
		f.outbox = f.outbox[1:]
		copyMsg(m.(proto.Message), out)
		if !f.serverStreams {
			// grpc-go (stream.go, csAttempt.recvMsg): for a non-server-streaming method RecvMsg
			// reads on after the reply and returns the call's final status (nil for OK).
			sched.Point("backend-stream RecvMsg (final status of a single-reply call)", func() bool { return len(f.outbox) > 0 || f.finished || f.ctx.Err() != nil })
			switch {
			case len(f.outbox) > 0:
				return status.Error(codes.Internal, "cardinality violation: expected <EOF> for non server-streaming RPCs, but received another message")
			case f.finished:
				return f.st.Err() // nil for OK
			}
			return status.FromContextError(f.ctx.Err()).Err()
		}
		return nil
	}
	if f.finished {
		if f.st.Code() == codes.OK {
			return io.EOF
		}
		return f.st.Err()
	}
	return status.FromContextError(f.ctx.Err()).Err()
}

// back-end side API used by the script thread
func (f *fakeStream) backendRecv() (proto.Message, error) {
	sched.Point("backend Recv", func() bool { return len(f.inbox) > 0 || f.halfClose || f.ctx.Err() != nil })
	if len(f.inbox) > 0 {
		m := f.inbox[0]
		f.inbox = f.inbox[1:]
		return m, nil
	}
	if f.halfClose {
		return nil, io.EOF
	}
	return nil, f.ctx.Err()
}
func (f *fakeStream) backendSend(m proto.Message) {
	sched.Point("backend Send", nil)
	f.outbox = append(f.outbox, m)
}
func (f *fakeStream) backendFinish(st *status.Status) {
	sched.Point("backend finishes", nil)
	f.st, f.finished = st, true
}

// c10Script: what client and back-end do.
type c10Script struct {
	Shape      string // unary cs ss bidi
	Front      string // grpc http
	N          int    // messages the client sends
	HalfClose  bool   // client half-closes after its messages (else: only after it got the final status)
	ReadAll    bool   // back-end reads until EOF (else exactly R messages)
	R          int
	K          int  // replies
	PingPong   bool // bidi: reply after each request
	Code       codes.Code
	Msg        string
	Details    bool
	MD         string // none ascii two bin
	ChunkLimit int    // > 0: the mux's receive limit (HttpBody uploads are cut into chunks of this size)
	Gzip       bool   // gRPC front: the client negotiates gzip message compression
	Opts       bool   // the mux has pass-through interceptors and a stats handler
	// BackendFirst: the back-end speaks first (a greeting before it reads anything) and the
	// client waits for that greeting before it sends its first message
	BackendFirst bool
}

func (s c10Script) name() string {
	hc := "halfclose"
	if !s.HalfClose {
		hc = "waits-for-status"
	}
	rd := fmt.Sprintf("reads%d", s.R)
	if s.ReadAll {
		rd = "reads-until-eof"
	}
	pp := ""
	if s.PingPong {
		pp = "-pingpong"
	}
	suffix := ""
	if s.Gzip {
		suffix += "-gzip"
	}
	if s.Opts {
		suffix += "-opts"
	}
	if s.ChunkLimit > 0 && s.Shape != "" && s.N > 0 {
		suffix += fmt.Sprintf("-limit%d", s.ChunkLimit)
	}
	if s.BackendFirst {
		suffix += "-backend-speaks-first"
	}
	return fmt.Sprintf("%s-%s-n%d-%s-%s-k%d%s-%s-md:%s%s", s.Front, s.Shape, s.N, hc, rd, s.K, pp, s.Code, s.MD, suffix)
}

type c10Sys struct {
	t       *tSchema
	mux     *larking.Mux
	backend *env.Backend
	script  c10Script
	body    *blockingBody
	rec     *env.Recorder

	mu          sync.Mutex
	stream      *fakeStream
	streamReady bool
	backendGot  []proto.Message
	backendEOF  bool
	backendMD   metadata.MD
	backendErr  error
	unaryCalls  int
	returned    bool
	front       *callResult
	sent        []proto.Message
	replies     []proto.Message
	unary       func(ctx context.Context, method string, req, reply proto.Message) error
	newStream   func(ctx context.Context, desc *grpc.StreamDesc, method string) (grpc.ClientStream, error)
}

var c10T *tSchema

func c10Status(s c10Script) *status.Status {
	st := status.New(s.Code, s.Msg)
	if s.Details && s.Code != codes.OK {
		p := st.Proto()
		a, _ := anypb.New(wrapperspb.String("detail"))
		p.Details = []*anypb.Any{a}
		st = status.FromProto(p)
	}
	return st
}

func newC10Sys(sc c10Script) *c10Sys {
	if c10T == nil {
		t, err := newTSchema()
		if err != nil {
			panic(err)
		}
		c10T = t
	}
	t := c10T
	s := &c10Sys{t: t, script: sc, body: &blockingBody{}, rec: env.NewRecorder()}
	for i := 0; i < sc.K; i++ {
		s.replies = append(s.replies, t.newRsp("", []byte(fmt.Sprintf("reply-%d", i)), 0))
	}
	// The mux and the registered back-end connection are built once per process (RegisterConn
	// with its reflection exchange is by far the most expensive step) and shared by all
	// executions: requests do not change the routing state, and all per-call state lives in
	// the c10Sys the back-end callbacks are pointed at.
	shKey := fmt.Sprintf("%d|%v", sc.ChunkLimit, sc.Opts)
	sh := c10SharedBy[shKey]
	if sh == nil {
		var mopts []larking.MuxOption
		if sc.ChunkLimit > 0 {
			mopts = append(mopts, larking.MaxReceiveMessageSizeOption(sc.ChunkLimit))
		}
		if sc.Opts {
			mopts = append(mopts, c15PassThroughOpts()...)
		}
		m, err := larking.NewMux(mopts...)
		if err != nil {
			panic(err)
		}
		b := env.NewBackend("be", []protoreflect.FileDescriptor{t.fd}, []string{"vs.T"})
		sh = &c10SharedT{mux: m, backend: b}
		b.Unary = func(ctx context.Context, method string, req, reply proto.Message) error {
			return sh.cur.unary(ctx, method, req, reply)
		}
		b.NewStream = func(ctx context.Context, desc *grpc.StreamDesc, method string) (grpc.ClientStream, error) {
			return sh.cur.newStream(ctx, desc, method)
		}
		if err := m.RegisterConn(context.Background(), b.Conn()); err != nil {
			panic(err)
		}
		c10SharedBy[shKey] = sh
	}
	sh.cur = s
	s.mux, s.backend = sh.mux, sh.backend
	s.unary = func(ctx context.Context, method string, req, reply proto.Message) error {
		s.unaryCalls++
		s.backendMD, _ = metadata.FromOutgoingContext(ctx)
		s.backendGot = append(s.backendGot, proto.Clone(req))
		if sc.Code != codes.OK {
			return c10Status(sc).Err()
		}
		if len(s.replies) > 0 {
			copyMsg(reply, s.replies[0])
		}
		return nil
	}
	s.newStream = func(ctx context.Context, desc *grpc.StreamDesc, method string) (grpc.ClientStream, error) {
		s.backendMD, _ = metadata.FromOutgoingContext(ctx)
		s.stream = &fakeStream{ctx: ctx, serverStreams: desc.ServerStreams}
		s.streamReady = true
		return s.stream, nil
	}
	return s
}

type c10SharedT struct {
	mux     *larking.Mux
	backend *env.Backend
	cur     *c10Sys
}

var c10SharedBy = map[string]*c10SharedT{} // by (receive limit, options)

func (s *c10Sys) clientMsg(i int) proto.Message { return c10Msg(s.t, i) }

// c10Msg: the i-th client message of a script. Consecutive messages set different fields
// (s+b, n, b, nothing, …), so that a message that is merged into, or mistaken for, its
// predecessor does not look the same.
func c10Msg(t *tSchema, i int) proto.Message {
	switch i % 4 {
	case 0:
		return t.newReq(fmt.Sprintf("s%d", i), []byte(fmt.Sprintf("msg-%d", i)), 0)
	case 1:
		return t.newReq("", nil, int32(7+i))
	case 2:
		return t.newReq("", []byte(fmt.Sprintf("msg-%d", i)), 0)
	}
	return t.newReq("", nil, 0)
}

// detMarshal: field-number order (dynamic messages otherwise marshal in map order).
func detMarshal(m proto.Message) []byte {
	b, err := proto.MarshalOptions{Deterministic: true}.Marshal(m)
	if err != nil {
		panic(err)
	}
	return b
}

func c10Scenario(sc c10Script) *e3Scenario {
	streaming := sc.Shape != "unary"
	method := shapeMethod[sc.Shape]
	server := e3Thread{Name: "front-server", Body: func(sys any) {
		s := sys.(*c10Sys)
		hdr := http.Header{}
		switch sc.MD {
		case "ascii":
			hdr.Set("X-Custom", "v1")
		case "two":
			hdr.Add("X-Custom", "v1")
			hdr.Add("X-Custom", "v2")
		case "bin":
			hdr.Set("X-Custom-Bin", "+/8A")
		}
		var req *http.Request
		if sc.Front == "grpc" {
			hdr.Set("Content-Type", "application/grpc")
			if sc.Gzip {
				hdr.Set("Grpc-Encoding", "gzip")
				hdr.Set("Grpc-Accept-Encoding", "gzip")
			}
			req = newPostRequest("/vs.T/"+method, hdr, s.body, -1)
			req.Proto, req.ProtoMajor, req.ProtoMinor = "HTTP/2.0", 2, 0
		} else {
			hdr.Set("Content-Type", "application/json")
			req = newPostRequest(shapeRoute[sc.Shape], hdr, s.body, -1)
		}
		s.rec.OnWrite = func([]byte) { sched.Point("front response write", nil) }
		p, txt := guard(func() { s.mux.ServeHTTP(s.rec, req) })
		s.rec.Finish()
		s.body.Close() // net/http closes the request body when the handler returns
		r := &callResult{Panicked: p && !strings.Contains(txt, "abortT"), Panic: txt, HTTPCode: s.rec.Code, Header: s.rec.Snap, Body: s.rec.Body.Bytes(), Rec: s.rec, Trailer: s.rec.Trailers()}
		if sc.Front == "grpc" && !p {
			r.parseGRPCBody(r.Body, false)
			r.statusFromTrailers(r.Trailer, r.Header)
		}
		s.front = r
		s.returned = true
	}}
	client := e3Thread{Name: "client", Body: func(sys any) {
		s := sys.(*c10Sys)
		if sc.BackendFirst {
			sched.Point("client waits for the back-end's greeting", func() bool { return s.rec.Body.Len() > 0 || s.returned })
		}
		for i := 0; i < sc.N; i++ {
			sched.Point("client sends a message", nil)
			m := s.clientMsg(i)
			s.sent = append(s.sent, m)
			if sc.Front == "grpc" {
				pb := detMarshal(m)
				if sc.Gzip {
					s.body.buf = append(s.body.buf, wire.GRPCFrame(1, gzipBytes(pb))...)
				} else {
					s.body.buf = append(s.body.buf, wire.GRPCFrame(0, pb)...)
				}
			} else {
				js, _ := protojson.Marshal(m)
				s.body.buf = append(s.body.buf, js...)
			}
		}
		if !sc.HalfClose {
			// the client only closes its side after it has seen the final status
			sched.Point("client waits for the final status", func() bool { return s.returned })
		}
		sched.Point("client half-closes", nil)
		s.body.eof = true
	}}
	backend := e3Thread{Name: "backend", Body: func(sys any) {
		s := sys.(*c10Sys)
		if !streaming {
			return // unary calls are answered inline by the interceptor
		}
		sched.Point("backend accepts the stream", func() bool { return s.streamReady || s.returned })
		if !s.streamReady {
			return // larking never opened the back-end stream
		}
		f := s.stream
		reads := 0
		sent := 0
		if sc.BackendFirst && len(s.replies) > 0 {
			f.backendSend(s.replies[0])
			sent = 1
		}
		for {
			if !sc.ReadAll && reads >= sc.R {
				break
			}
			m, err := f.backendRecv()
			if err == io.EOF {
				s.backendEOF = true
				break
			}
			if err != nil {
				s.backendErr = err
				break
			}
			s.backendGot = append(s.backendGot, m)
			reads++
			if sc.PingPong && sent < len(s.replies) {
				f.backendSend(s.replies[sent])
				sent++
			}
		}
		for ; sent < len(s.replies) && s.backendErr == nil; sent++ {
			f.backendSend(s.replies[sent])
		}
		f.backendFinish(c10Status(sc))
	}}
	check := func(sys any, x *sched.S) []e3Fail {
		s := sys.(*c10Sys)
		var fails []e3Fail
		fr := s.front
		if fr == nil {
			return []e3Fail{{"front-call-did-not-finish", ""}}
		}
		if fr.Panicked {
			return []e3Fail{{"panic", fr.Panic}}
		}
		// ---- what the back-end saw
		wantGot := sc.N
		if !streaming {
			wantGot = 1
		} else if !sc.ReadAll && sc.R < wantGot {
			wantGot = sc.R
		}
		if sc.Shape == "ss" && wantGot > 1 {
			wantGot = 1
		}
		if len(s.backendGot) != wantGot {
			fails = append(fails, e3Fail{"backend-message-count", fmt.Sprintf("the client sent %d messages, the back-end script reads %s: directly it receives %d, through larking it received %d (err=%v)", sc.N, map[bool]string{true: "until EOF", false: fmt.Sprint(sc.R)}[sc.ReadAll], wantGot, len(s.backendGot), s.backendErr)})
		}
		for i, m := range s.backendGot {
			if i < len(s.sent) && !sameWire(m, s.sent[i]) {
				fails = append(fails, e3Fail{"backend-message-differs", fmt.Sprintf("message %d: sent {%v}, back-end got {%v}", i, s.sent[i], m)})
				break
			}
		}
		if streaming && sc.ReadAll && sc.HalfClose && !s.backendEOF && len(fails) == 0 {
			fails = append(fails, e3Fail{"backend-never-saw-half-close", fmt.Sprintf("the client half-closed after %d messages but the back-end never got EOF (err=%v)", sc.N, s.backendErr)})
		}
		// request metadata
		switch sc.MD {
		case "ascii":
			if got := s.backendMD.Get("x-custom"); len(got) != 1 || got[0] != "v1" {
				fails = append(fails, e3Fail{"request-metadata-lost", fmt.Sprintf("x-custom at the back-end: %q", got)})
			}
		case "two":
			if got := s.backendMD.Get("x-custom"); len(got) != 2 || got[0] != "v1" || got[1] != "v2" {
				fails = append(fails, e3Fail{"request-metadata-lost", fmt.Sprintf("x-custom at the back-end: %q", got)})
			}
		case "bin":
			if got := s.backendMD.Get("x-custom-bin"); len(got) != 1 || got[0] != "\xfb\xff\x00" {
				fails = append(fails, e3Fail{"request-metadata-lost", fmt.Sprintf("x-custom-bin at the back-end: %q", got)})
			}
		}
		// ---- what the client saw
		wantReplies := len(s.replies)
		if !streaming || sc.Shape == "cs" {
			if wantReplies > 1 {
				wantReplies = 1
			}
			if sc.Code != codes.OK {
				wantReplies = 0
			}
		}
		wantSt := c10Status(sc)
		if sc.Front == "grpc" {
			if fr.ParseErr != "" {
				fails = append(fails, e3Fail{"front-response-framing", fr.ParseErr})
			}
			if fr.Status == nil {
				fails = append(fails, e3Fail{"final-status-missing", fmt.Sprintf("trailers=%v", fr.Trailer)})
			} else {
				if fr.Status.Code != int(wantSt.Code()) || fr.Status.Message != wantSt.Message() {
					fails = append(fails, e3Fail{"final-status-differs", fmt.Sprintf("the back-end finished with %v %q, the client sees %d %q", wantSt.Code(), wantSt.Message(), fr.Status.Code, fr.Status.Message)})
				} else if sc.Details && sc.Code != codes.OK && len(fr.Status.Details) != 1 {
					fails = append(fails, e3Fail{"final-status-details-lost", fmt.Sprintf("%d details", len(fr.Status.Details))})
				}
			}
			if len(fr.Msgs) != wantReplies {
				fails = append(fails, e3Fail{"reply-count", fmt.Sprintf("the back-end sent %d replies, the client got %d", wantReplies, len(fr.Msgs))})
			} else {
				for i, p := range fr.Msgs {
					got := dynamicpb.NewMessage(s.t.rsp)
					if err := proto.Unmarshal(p, got); err != nil || !proto.Equal(got, s.replies[i]) {
						fails = append(fails, e3Fail{"reply-differs", fmt.Sprintf("reply %d: got {%v} want {%v}", i, got, s.replies[i])})
						break
					}
				}
			}
		} else {
			if sc.Code != codes.OK && (wantReplies == 0 || !streaming) {
				fr.parseHTTPStatus()
				if fr.Status == nil || fr.Status.Code != int(sc.Code) || fr.Status.Message != sc.Msg {
					fails = append(fails, e3Fail{"final-status-differs", fmt.Sprintf("the back-end finished with %v %q, the HTTP client sees %d %+v %s", sc.Code, sc.Msg, fr.HTTPCode, fr.Status, fr.ParseErr)})
				}
			} else if sc.Code == codes.OK {
				if fr.HTTPCode != 200 {
					fails = append(fails, e3Fail{"final-status-differs", fmt.Sprintf("the back-end finished OK, the HTTP client sees %d %s", fr.HTTPCode, truncS(string(fr.Body), 100))})
				} else {
					objs, err := splitJSONStream(fr.Body)
					if err != nil || len(objs) != wantReplies {
						fails = append(fails, e3Fail{"reply-count", fmt.Sprintf("the back-end sent %d replies, the HTTP client got %d (%v): %s", wantReplies, len(objs), err, truncS(string(fr.Body), 100))})
					} else {
						for i, o := range objs {
							got := dynamicpb.NewMessage(s.t.rsp)
							if err := protojson.Unmarshal(o, got); err != nil || !proto.Equal(got, s.replies[i]) {
								fails = append(fails, e3Fail{"reply-differs", fmt.Sprintf("reply %d: %s", i, o)})
								break
							}
						}
					}
				}
			}
		}
		stc := -1
		if fr.Status != nil {
			stc = fr.Status.Code
		}
		sched.Logf("obs:backend-got=%d eof=%v client-replies=%d http=%d status=%d", len(s.backendGot), s.backendEOF, len(fr.Msgs), fr.HTTPCode, stc)
		return fails
	}
	return &e3Scenario{Name: sc.name(), Desc: "proxied call: " + sc.name(), PoolPoints: false, NoWGAddPoints: true, MaxSteps: 50000,
		Setup:   func() any { return newC10Sys(sc) },
		Threads: []e3Thread{server, client, backend},
		Check:   check,
	}
}

func c10Scripts(thorough bool) []c10Script {
	var out []c10Script
	add := func(s c10Script) { out = append(out, s) }
	ok := codes.OK
	for _, front := range []string{"grpc", "http"} {
		// unary
		add(c10Script{Shape: "unary", Front: front, N: 1, HalfClose: true, K: 1, Code: ok, MD: "ascii"})
		add(c10Script{Shape: "unary", Front: front, N: 1, HalfClose: true, K: 1, Code: codes.NotFound, Msg: "m", MD: "two"})
		add(c10Script{Shape: "unary", Front: front, N: 1, HalfClose: true, K: 1, Code: codes.Internal, Msg: "a%b é", Details: true, MD: "bin"})
		// server streaming
		add(c10Script{Shape: "ss", Front: front, N: 1, HalfClose: true, R: 1, K: 2, Code: ok, MD: "two"})
		add(c10Script{Shape: "ss", Front: front, N: 1, HalfClose: true, R: 1, K: 0, Code: codes.NotFound, Msg: "m", MD: "none"})
		add(c10Script{Shape: "ss", Front: front, N: 1, HalfClose: true, R: 1, K: 1, Code: codes.Internal, Msg: "late", Details: true, MD: "none"})
		if front == "grpc" { // an HTTP request with a plain (non-streaming) body has to end before it is served
			add(c10Script{Shape: "ss", Front: front, N: 1, HalfClose: false, R: 1, K: 2, Code: ok, MD: "none"})
		}
		// client streaming
		add(c10Script{Shape: "cs", Front: front, N: 2, HalfClose: true, ReadAll: true, K: 1, Code: ok, MD: "bin"})
		add(c10Script{Shape: "cs", Front: front, N: 1, HalfClose: true, ReadAll: true, K: 1, Code: ok, MD: "none"})
		add(c10Script{Shape: "cs", Front: front, N: 0, HalfClose: true, ReadAll: true, K: 1, Code: ok, MD: "none"})
		add(c10Script{Shape: "cs", Front: front, N: 2, HalfClose: true, R: 1, K: 0, Code: codes.NotFound, Msg: "early", MD: "none"})
		add(c10Script{Shape: "cs", Front: front, N: 2, HalfClose: false, R: 1, K: 1, Code: ok, MD: "none"})
		add(c10Script{Shape: "cs", Front: front, N: 2, HalfClose: true, R: 0, K: 0, Code: codes.PermissionDenied, Msg: "before first read", MD: "none"})
		// bidi
		add(c10Script{Shape: "bidi", Front: front, N: 2, HalfClose: true, ReadAll: true, K: 2, PingPong: true, Code: ok, MD: "ascii"})
		add(c10Script{Shape: "bidi", Front: front, N: 2, HalfClose: true, ReadAll: true, K: 2, Code: ok, MD: "none"})
		add(c10Script{Shape: "bidi", Front: front, N: 2, HalfClose: true, R: 1, K: 1, Code: codes.Internal, Msg: "mid", Details: true, MD: "none"})
		add(c10Script{Shape: "bidi", Front: front, N: 1, HalfClose: false, R: 1, K: 1, Code: ok, MD: "none"})
		add(c10Script{Shape: "bidi", Front: front, N: 0, HalfClose: true, ReadAll: true, K: 1, Code: ok, MD: "none"})
		// a back-end that ends a server-streaming call without reading the request: the
		// proxy's send finds the stream done, the status is what counts
		add(c10Script{Shape: "ss", Front: front, N: 1, HalfClose: true, R: 0, K: 0, Code: codes.PermissionDenied, Msg: "not for you", MD: "none"})
		// four messages with different field sets on one stream (a relay that reuses or merges
		// request messages shows from the third message on)
		add(c10Script{Shape: "cs", Front: front, N: 4, HalfClose: true, ReadAll: true, K: 1, Code: ok, MD: "none"})
		add(c10Script{Shape: "bidi", Front: front, N: 4, HalfClose: true, ReadAll: true, K: 1, Code: ok, MD: "none"})
		// a receive limit that every message respects but the stream as a whole exceeds
		add(c10Script{Shape: "cs", Front: front, N: 6, HalfClose: true, ReadAll: true, K: 1, Code: ok, MD: "none", ChunkLimit: 52})
		add(c10Script{Shape: "bidi", Front: front, N: 6, HalfClose: true, ReadAll: true, K: 2, PingPong: true, Code: ok, MD: "none", ChunkLimit: 52})
		// options and compression on the front must be invisible to the back-end and the client
		add(c10Script{Shape: "bidi", Front: front, N: 2, HalfClose: true, ReadAll: true, K: 2, PingPong: true, Code: ok, MD: "two", Opts: true})
		add(c10Script{Shape: "cs", Front: front, N: 2, HalfClose: true, ReadAll: true, K: 1, Code: ok, MD: "bin", Opts: true})
		if front == "grpc" {
			add(c10Script{Shape: "bidi", Front: front, N: 2, HalfClose: true, ReadAll: true, K: 2, PingPong: true, Code: ok, MD: "ascii", Gzip: true})
			add(c10Script{Shape: "ss", Front: front, N: 1, HalfClose: true, R: 1, K: 2, Code: codes.Internal, Msg: "late", Details: true, MD: "none", Gzip: true})
		}
		if thorough {
			add(c10Script{Shape: "bidi", Front: front, N: 3, HalfClose: true, ReadAll: true, K: 2, PingPong: true, Code: codes.NotFound, Msg: "after all", MD: "two"})
			add(c10Script{Shape: "bidi", Front: front, N: 3, HalfClose: true, R: 2, K: 2, PingPong: true, Code: ok, MD: "none"})
			add(c10Script{Shape: "cs", Front: front, N: 3, HalfClose: true, ReadAll: true, K: 1, Code: codes.Internal, Msg: "a%b é", Details: true, MD: "two"})
			add(c10Script{Shape: "ss", Front: front, N: 1, HalfClose: true, R: 1, K: 2, Code: codes.NotFound, Msg: "after 2", MD: "bin"})
		}
	}
	return out
}

// c10CodeSweep: every final status code the back-end can end a call with, on every shape and
// front, with and without a reply before it. The relayed status does not depend on the
// schedule, so these scenarios are explored to preemption bound 1 only.
func c10CodeSweep() []c10Script {
	var out []c10Script
	for _, front := range []string{"grpc", "http"} {
		for code := codes.Code(1); code <= 17; code++ {
			msg := fmt.Sprintf("ends with %d", uint32(code))
			// a third of the codes with gzip negotiated on the gRPC front, a third on a mux with
			// pass-through interceptors and a stats handler
			gz, op := front == "grpc" && code%3 == 1, code%3 == 2
			n0 := len(out)
			out = append(out,
				c10Script{Shape: "unary", Front: front, N: 1, HalfClose: true, K: 1, Code: code, Msg: msg, MD: "none"},
				c10Script{Shape: "ss", Front: front, N: 1, HalfClose: true, R: 1, K: 1, Code: code, Msg: msg, Details: code%2 == 1, MD: "none"},
				c10Script{Shape: "ss", Front: front, N: 1, HalfClose: true, R: 1, K: 0, Code: code, Msg: msg, MD: "none"},
				c10Script{Shape: "cs", Front: front, N: 2, HalfClose: true, ReadAll: true, K: 0, Code: code, Msg: msg, MD: "none"},
				c10Script{Shape: "bidi", Front: front, N: 1, HalfClose: true, ReadAll: true, K: 1, Code: code, Msg: msg, Details: code%2 == 0, MD: "none"},
				c10Script{Shape: "bidi", Front: front, N: 2, HalfClose: true, R: 1, K: 0, Code: code, Msg: msg, MD: "none"})
			for i := n0; i < len(out); i++ {
				out[i].Gzip, out[i].Opts = gz, op
			}
		}
	}
	return out
}

// c10UploadScenario: a proxied google.api.HttpBody upload over the HTTP front (POST
// /t/up/{filename}, body = raw bytes written by the client in `writes` pieces). larking cuts
// the body into Up messages and forwards them while it relays the back-end's HttpBody replies
// (one per received chunk) as the response body. The chunks are not copied by the message
// layer the way a codec's Unmarshal copies: whatever memory they live in must stay intact
// until the back-end has them.
func c10UploadScenario(writes, size, limit int) *e3Scenario {
	name := fmt.Sprintf("http-upload-httpbody-w%d-size%d-chunk%d", writes, size, limit)
	piece := func(i int) []byte {
		b := make([]byte, size)
		for k := range b {
			b[k] = byte('a' + (i*5+k)%23)
		}
		return append([]byte(fmt.Sprintf("<%d>", i)), b...)
	}
	server := e3Thread{Name: "front-server", Body: func(sys any) {
		s := sys.(*c10Sys)
		req := newPostRequest("/t/up/file.bin", http.Header{"Content-Type": {"application/x-custom"}}, s.body, -1)
		s.rec.OnWrite = func([]byte) { sched.Point("front response write", nil) }
		p, txt := guard(func() { s.mux.ServeHTTP(s.rec, req) })
		s.rec.Finish()
		s.body.Close()
		s.front = &callResult{Panicked: p && !strings.Contains(txt, "abortT"), Panic: txt, HTTPCode: s.rec.Code, Header: s.rec.Snap, Body: s.rec.Body.Bytes(), Rec: s.rec}
		s.returned = true
	}}
	client := e3Thread{Name: "client", Body: func(sys any) {
		s := sys.(*c10Sys)
		for i := 0; i < writes; i++ {
			sched.Point("client writes a piece of the upload", nil)
			s.body.buf = append(s.body.buf, piece(i)...)
		}
		sched.Point("client half-closes", nil)
		s.body.eof = true
	}}
	backend := e3Thread{Name: "backend", Body: func(sys any) {
		s := sys.(*c10Sys)
		sched.Point("backend accepts the stream", func() bool { return s.streamReady || s.returned })
		if !s.streamReady {
			return
		}
		f := s.stream
		for i := 0; ; i++ {
			m, err := f.backendRecv()
			if err == io.EOF {
				s.backendEOF = true
				break
			}
			if err != nil {
				s.backendErr = err
				break
			}
			s.backendGot = append(s.backendGot, m)
			ack := dynamicpb.NewMessage(s.t.body)
			ack.Set(s.t.body.Fields().ByName("data"), protoreflect.ValueOfBytes([]byte(fmt.Sprintf("[ack %d of a chunk]", i))))
			if i == 0 {
				ack.Set(s.t.body.Fields().ByName("content_type"), protoreflect.ValueOfString("application/x-ack"))
			}
			f.backendSend(ack)
		}
		f.backendFinish(status.New(codes.OK, ""))
	}}
	check := func(sys any, x *sched.S) []e3Fail {
		s := sys.(*c10Sys)
		fr := s.front
		if fr == nil {
			return []e3Fail{{"front-call-did-not-finish", ""}}
		}
		if fr.Panicked {
			return []e3Fail{{"panic", fr.Panic}}
		}
		var fails []e3Fail
		var want, got, wantBody []byte
		for i := 0; i < writes; i++ {
			want = append(want, piece(i)...)
		}
		for i, m := range s.backendGot {
			r := m.ProtoReflect()
			// the proxy builds its messages from reflection descriptors: read by field number
			var data []byte
			r.Range(func(fd protoreflect.FieldDescriptor, v protoreflect.Value) bool {
				if fd.Number() == 2 { // Up.file
					v.Message().Range(func(fd2 protoreflect.FieldDescriptor, v2 protoreflect.Value) bool {
						if fd2.Number() == 2 { // HttpBody.data
							data = v2.Bytes()
						}
						return true
					})
				}
				if fd.Number() == 1 && i == 0 && v.String() != "file.bin" {
					fails = append(fails, e3Fail{"backend-message-differs", fmt.Sprintf("filename %q at the back-end", v.String())})
				}
				return true
			})
			got = append(got, data...)
			wantBody = append(wantBody, []byte(fmt.Sprintf("[ack %d of a chunk]", i))...)
		}
		if os.Getenv("VERIF_E3_DEBUG") != "" {
			fmt.Printf("debug: upload chunks at back-end=%d bytes=%q response=%q\n", len(s.backendGot), got, fr.Body)
		}
		if !bytes.Equal(got, want) {
			fails = append(fails, e3Fail{"backend-message-differs", fmt.Sprintf("the client uploaded %q, the back-end received (in %d chunks) %q", truncS(string(want), 200), len(s.backendGot), truncS(string(got), 200))})
		}
		if !s.backendEOF {
			fails = append(fails, e3Fail{"backend-never-saw-half-close", fmt.Sprintf("err=%v", s.backendErr)})
		}
		if fr.HTTPCode != 200 {
			fails = append(fails, e3Fail{"final-status-differs", fmt.Sprintf("the back-end finished OK, the HTTP client sees %d %s", fr.HTTPCode, truncS(string(fr.Body), 100))})
		} else if !bytes.Equal(fr.Body, wantBody) {
			fails = append(fails, e3Fail{"reply-differs", fmt.Sprintf("response body %q, the back-end's replies concatenate to %q", truncS(string(fr.Body), 200), truncS(string(wantBody), 200))})
		}
		return fails
	}
	return &e3Scenario{Name: name, Desc: "proxied HttpBody upload over HTTP: " + name, NoWGAddPoints: true,
		Setup: func() any {
			return newC10Sys(c10Script{Shape: "bidi", Front: "http", HalfClose: true, ReadAll: true, PingPong: true, ChunkLimit: limit})
		},
		Threads: []e3Thread{server, client, backend},
		Check:   check, MaxSteps: 20000}
}

func c10Scenarios(thorough bool) []*e3Scenario {
	var scs []*e3Scenario
	// receive limit 100 > the 64-byte capacity of a fresh pooled buffer: larking only recycles
	// buffers smaller than the limit, so with these sizes the short last chunk sits in a buffer
	// that goes back to the pool while the chunk is still on its way to the back-end
	scs = append(scs, c10UploadScenario(2, 6, 0), c10UploadScenario(1, 127, 100), c10UploadScenario(2, 60, 100))
	seen := map[string]bool{}
	for _, s := range c10Scripts(thorough) {
		seen[s.name()] = true
		sc := c10Scenario(s)
		if s.ChunkLimit > 0 && !thorough {
			sc.BoundCap = 1
		}
		if (s.Gzip || s.Opts) && !thorough {
			sc.BoundCap = 2 // compression and stats add many choice points per execution; the quick tier stops these at 2 preemptions
		}
		scs = append(scs, sc)
	}
	// a back-end that speaks first (only here: the real-transport pass cannot tell a parked call
	// from a slow one without a clock)
	scs = append(scs, c10Scenario(c10Script{Shape: "bidi", Front: "grpc", N: 1, HalfClose: true, ReadAll: true, K: 2, Code: codes.OK, MD: "none", BackendFirst: true}))
	for _, s := range c10CodeSweep() {
		if seen[s.name()] {
			continue
		}
		seen[s.name()] = true
		sc := c10Scenario(s)
		sc.BoundCap = 1
		scs = append(scs, sc)
	}
	return scs
}

func runC10(c *Ctx) {
	r := c.Run
	bound, per := 3, 40*time.Second
	if c.Thorough() {
		bound, per = 4, 10*time.Minute
	}
	r.Rule(fmt.Sprintf("call scripts on the four shapes of a service discovered by reflection from a scripted back-end: front {gRPC, HTTP/JSON} × client {n messages, half-closes or waits for the final status} × back-end {reads r messages or until EOF, sends k replies (batch or ping-pong), finishes with OK / NotFound / Internal+details / PermissionDenied before the first read; plus proxied google.api.HttpBody uploads over HTTP (default and small receive limits so that the body is forwarded in several chunks while replies are relayed); plus a sweep of every final status code 1..17 on every shape, with and without a reply before it (preemption bound 1)} × request metadata {none, one value, two values, -bin} × front options {plain, a receive limit of 52 bytes under 6-message streams (every message within it, the stream beyond it), gzip negotiated on the gRPC front, mux with pass-through interceptors and a stats handler}; threads: front server (ServeHTTP), client, back-end script, larking's pump goroutine; every interleaving with at most %d preemptions (bounds iterated from 0); oracle per schedule: the back-end received exactly what it would receive directly (messages, EOF, metadata), the client received exactly the back-end's replies and final status, no panic, no deadlock (a hang is a deadlock of the controlled threads); distinct = (script, outcome)", bound))
	r.Assume("the back-end stream follows grpc-go's documented ClientStream contract (SendMsg -> io.EOF once done, RecvMsg -> message / io.EOF / status error); validated against real grpc-go on both sides by the conformance pass", "response header/trailer metadata is not part of the property")
	runScenarios(c, c10Scenarios(c.Thorough()), bound, per, 0)
	if c.Shards == 0 {
		c10Conformance(c)
		racePass(c, "C10")
	}
	_ = spb.Status{}
}

// c10Conformance is filled in by conformance.go (real grpc-go on both sides of larking).
var c10Conformance func(c *Ctx)

// copyMsg copies src into dst across descriptor instances (the proxy builds its messages from
// the descriptors it fetched by reflection).
func copyMsg(dst, src proto.Message) {
	b, err := proto.Marshal(src)
	if err != nil {
		panic(err)
	}
	proto.Reset(dst)
	if err := proto.Unmarshal(b, dst); err != nil {
		panic(err)
	}
}

// sameWire compares two single-field messages by their wire form.
func sameWire(a, b proto.Message) bool {
	x, y := detMarshal(a), detMarshal(b)
	return string(x) == string(y)
}
