package props

import (
	"fmt"
	"strings"

	"google.golang.org/protobuf/proto"

	"larking.io/larking"

	"verif/dyn"
	"verif/explore"
	tmpl "verif/ref/template"
	"verif/report"
)

// C01 — routing soundness: a request only reaches a method whose rule covers it, and the
// bound fields hold exactly the covered text.

func init() {
	register(&Check{ID: "C01", Level: "exploration", Run: runC01, Replay: replayC01})
}

type c01Case struct {
	Rules  []c01Rule `json:"rules"`
	Source string    `json:"source"` // serviceconfig | annotation | additional
	Verb   string    `json:"verb"`
	Path   string    `json:"path"`
}

type c01Rule struct {
	M    int    `json:"method"`
	Kind string `json:"kind"`
	Path string `json:"path"`
}

var c01Kinds = []string{"get", "post", "put", "delete", "patch", "HEAD", "*"}

func c01Bound(rules []c01Rule) []boundRule {
	var out []boundRule
	for _, r := range rules {
		t, _, _, err := tmpl.Parse(r.Path)
		if err != nil {
			panic(err)
		}
		out = append(out, boundRule{M: r.M, Rule: dyn.Rule{Kind: r.Kind, Path: r.Path}, T: t})
	}
	return out
}

// c01Judge decides one dispatch observation. It returns "" when sound.
func c01Judge(s *routeSchema, rules []boundRule, verb, path string, impl *recImpl, res serveResult) (oracle, note string) {
	if res.Panicked {
		return "panic", res.Panic
	}
	if impl.n == 0 {
		return "", ""
	}
	if impl.n > 1 {
		return "dispatched-twice", fmt.Sprintf("%d handler invocations", impl.n)
	}
	mi := -1
	for i, m := range s.methods {
		if m == impl.method {
			mi = i
		}
	}
	if mi < 0 {
		return "unknown-method", impl.method
	}
	type cand struct {
		t  tmpl.T
		rv string
	}
	cands := []cand{{implicitTemplate(s.methods[mi]), "*"}}
	for _, br := range rules {
		if br.M == mi {
			cands = append(cands, cand{br.T, br.Rule.Verb()})
		}
	}
	covered := false
	var tried []string
	for _, c := range cands {
		if !verbServes(c.rv, verb) {
			continue
		}
		for _, caps := range c.t.MayMatch(path) {
			covered = true
			want, ok := s.expectedFromCapture(caps)
			if !ok {
				tried = append(tried, fmt.Sprintf("%s caps=%v (not convertible)", c.t, caps))
				continue
			}
			if proto.Equal(want, impl.req) {
				return "", ""
			}
			tried = append(tried, fmt.Sprintf("%s caps=%v", c.t, caps))
		}
	}
	if !covered {
		return "dispatch-uncovered", fmt.Sprintf("%s %s reached %s but no rule of that method covers it; message=%v", verb, path, impl.method, impl.req)
	}
	return "capture-mismatch", fmt.Sprintf("%s %s reached %s with message {%v}; candidate bindings: %s", verb, path, impl.method, impl.req, strings.Join(tried, " | "))
}

func c01Verbs(rules []boundRule) []string {
	seen := map[string]bool{}
	var out []string
	add := func(v string) {
		if !seen[v] {
			seen[v] = true
			out = append(out, v)
		}
	}
	for _, r := range rules {
		if v := r.Rule.Verb(); v != "*" {
			add(v)
		}
	}
	add("GET")
	add("POST")
	return out
}

type c01Job struct {
	rules  []c01Rule
	source string
}

func runC01(c *Ctx) {
	r := c.Run
	r.Rule("rule sets (singles over the full template alphabet × 7 HTTP kinds; every 4-5 (thorough 6) segment template over {a, {v}, {v=a/*}; last: {v=**}, **} × verb suffix; ordered pairs over the reduced alphabet; annotation- and additional-binding-sourced variants) × request verbs × probe paths (every instantiation of every template ± one segment, verb suffix variants, ':' in every position, universal short paths); plus requests of 1..48 segments under ** rules and a 31-literal template, and literal segments of 62..1000 bytes; distinct = rule sets whose probes produced at least one dispatch")
	r.Assume("values outside the segment alphabets {x,a,7} and percent-encoded paths are not explored", "requests carry no body and no query, so every set field is routing's doing")

	var jobs []c01Job
	// singles
	maxSeg := 2
	if c.Thorough() {
		maxSeg = 3
	}
	singles := enumTemplates(fullAlphabet, maxSeg)
	if c.Thorough() {
		singles = enumTemplates(c02Deep, maxSeg)
	} else {
		// quick: the deep variable forms ({$=a/bb/**} …) at 1-2 segments
		seen := map[string]bool{}
		for _, t := range singles {
			seen[t.String()] = true
		}
		for _, t := range enumTemplates(c02Deep, 2) {
			if !seen[t.String()] {
				singles = append(singles, t)
			}
		}
	}
	if !c.Thorough() {
		// 3-segment templates over the reduced alphabet
		for _, t := range enumTemplates(smallAlphabet, 3) {
			if len(t.Segs) == 3 {
				singles = append(singles, t)
			}
		}
	}
	// long templates: 4-5 (thorough 6) segments over a reduced alphabet
	longMax := 5
	if c.Thorough() {
		longMax = 6
	}
	singles = append(singles, longTemplates(longMax)...)
	kinds := c01Kinds
	if !c.Thorough() {
		kinds = []string{"get", "*"}
	}
	for _, t := range singles {
		for _, k := range kinds {
			jobs = append(jobs, c01Job{rules: []c01Rule{{0, k, t.String()}}, source: "serviceconfig"})
		}
	}
	// annotation-sourced and additional-binding-sourced singles (1-2 segments, get)
	for _, t := range enumTemplates(smallAlphabet, 2) {
		jobs = append(jobs, c01Job{rules: []c01Rule{{0, "get", t.String()}}, source: "annotation"})
		jobs = append(jobs, c01Job{rules: []c01Rule{{0, "post", "/zz/top"}, {0, "get", t.String()}}, source: "additional"})
	}
	// ordered pairs on distinct methods
	pairT := enumTemplates(smallAlphabet, 2)
	pairKinds := [][2]string{{"get", "get"}, {"get", "*"}}
	if c.Thorough() {
		pairKinds = append(pairKinds, [2]string{"*", "get"}, [2]string{"post", "get"})
	}
	for i, t1 := range pairT {
		for j, t2 := range pairT {
			if j <= i && !c.Thorough() {
				continue // quick: unordered pairs (order effects are C02's)
			}
			if i == j {
				continue
			}
			for _, pk := range pairKinds {
				jobs = append(jobs, c01Job{rules: []c01Rule{{0, pk[0], t1.String()}, {1, pk[1], t2.String()}}, source: "serviceconfig"})
			}
		}
	}
	r.Set("rule_sets", len(jobs))

	base, err := newRouteSchema("vt", "S", 3, nil)
	if err != nil {
		panic(err)
	}
	fills := []string{"x", "a", "7"}

	done := explore.ParallelFor(len(jobs), func() bool { return r.TooManyViolations() || r.Expired() }, func(_ int, ji int) {
		j := jobs[ji]
		rules := c01Bound(j.rules)
		schema := base
		var m *larking.Mux
		var impl *recImpl
		var err error
		switch j.source {
		case "serviceconfig":
			m, impl, err = schema.newMux(rules, nil)
		case "annotation":
			schema, err = newRouteSchema("vt", "S", 3, map[int]*dyn.Rule{0: {Kind: j.rules[0].Kind, Path: j.rules[0].Path}})
			if err == nil {
				m, impl, err = schema.newMux(nil, nil)
			}
		case "additional":
			schema, err = newRouteSchema("vt", "S", 3, map[int]*dyn.Rule{0: {Kind: j.rules[0].Kind, Path: j.rules[0].Path, Add: []dyn.Rule{{Kind: j.rules[1].Kind, Path: j.rules[1].Path}}}})
			if err == nil {
				m, impl, err = schema.newMux(nil, nil)
			}
		}
		if err != nil {
			if pe, ok := err.(*panicError); ok {
				r.Violation(report.Violation{Oracle: "register-panic", Key: "register-panic " + ruleSetString(rules), Case: c01Case{Rules: j.rules, Source: j.source}, Note: pe.text})
				r.Outcome("register-panic")
				return
			}
			// Rejected rule sets are C16's business (accept/reject); nothing to probe.
			r.Outcome("rejected")
			return
		}
		var ts []tmpl.T
		for _, br := range rules {
			ts = append(ts, br.T)
		}
		for i := range schema.methods {
			ts = append(ts, implicitTemplate(schema.methods[i]))
		}
		probes := probesFor(ts, fills, 2, true)
		verbs := c01Verbs(rules)
		var evals int64
		dispatched := 0
		outc := map[string]int64{}
		reported := map[string]bool{}
		for _, verb := range verbs {
			for _, p := range probes {
				impl.reset()
				res := serveSimple(m, verb, p, "")
				evals++
				oracle, note := c01Judge(schema, rules, verb, p, impl, res)
				if impl.n > 0 {
					dispatched++
					outc["dispatched"]++
				} else {
					outc[fmt.Sprintf("status-%d", res.Code)]++
				}
				if oracle != "" {
					outc["FAIL:"+oracle]++
					if !reported[oracle] {
						reported[oracle] = true
						r.Violation(report.Violation{Oracle: oracle, Key: fmt.Sprintf("%s rules=[%s] src=%s %s %s", oracle, ruleSetString(rules), j.source, verb, p),
							Case: c01Case{Rules: j.rules, Source: j.source, Verb: verb, Path: p}, Note: note})
					}
				}
			}
		}
		r.Eval(evals)
		for k, v := range outc {
			r.OutcomeN(k, v)
		}
		if dispatched > 0 {
			r.Distinct(j.source + "|" + ruleSetString(rules))
		}
		if r.WantSample() && ji%997 == 3 {
			r.Sample(map[string]any{"rules": ruleSetString(rules), "source": j.source, "verbs": verbs, "probes": len(probes), "dispatched": dispatched, "probe_examples": probes[:min(6, len(probes))]})
		}
	})
	if !done {
		r.CapHit("deadline or violation cap reached before all rule sets were probed")
	}
	// depth and length: 1..48 request segments under ** rules and a 31-literal template (the whole
	// remainder is captured or the request is refused, never a shortened capture), literal
	// segments of 62..1000 bytes (family shared with C02)
	c02TokenLimit(c, base)
}

func replayC01(c *Ctx, v report.Violation) {
	if replayTokenLimit(c, "C01", v) {
		return
	}
	var tc c01Case
	if !remarshal(v.Case, &tc) {
		fmt.Println("replay: cannot decode case")
		return
	}
	rules := c01Bound(tc.Rules)
	schema, err := newRouteSchema("vt", "S", 3, nil)
	if err != nil {
		panic(err)
	}
	var m *larking.Mux
	var impl *recImpl
	switch tc.Source {
	case "annotation":
		schema, _ = newRouteSchema("vt", "S", 3, map[int]*dyn.Rule{0: {Kind: tc.Rules[0].Kind, Path: tc.Rules[0].Path}})
		m, impl, err = schema.newMux(nil, nil)
	case "additional":
		schema, _ = newRouteSchema("vt", "S", 3, map[int]*dyn.Rule{0: {Kind: tc.Rules[0].Kind, Path: tc.Rules[0].Path, Add: []dyn.Rule{{Kind: tc.Rules[1].Kind, Path: tc.Rules[1].Path}}}})
		m, impl, err = schema.newMux(nil, nil)
	default:
		m, impl, err = schema.newMux(rules, nil)
	}
	if err != nil {
		fmt.Printf("replay: registration: %v\n", err)
		if _, ok := err.(*panicError); ok {
			c.Run.Violation(report.Violation{Oracle: "register-panic", Key: v.Key, Case: tc, Note: err.Error()})
		}
		return
	}
	res := serveSimple(m, tc.Verb, tc.Path, "")
	oracle, note := c01Judge(schema, rules, tc.Verb, tc.Path, impl, res)
	fmt.Printf("replay: %s %s -> status=%d dispatched=%d method=%s msg={%v} oracle=%q %s\n", tc.Verb, tc.Path, res.Code, impl.n, impl.method, impl.req, oracle, note)
	if oracle != "" {
		c.Run.Violation(report.Violation{Oracle: oracle, Key: v.Key, Case: tc, Note: note})
	}
}
