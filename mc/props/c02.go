package props

import (
	"fmt"
	"strings"

	"google.golang.org/protobuf/encoding/prototext"
	"google.golang.org/protobuf/proto"

	"verif/explore"
	tmpl "verif/ref/template"
	"verif/report"
)

// C02 — completeness, literal-over-wildcard precedence, order independence.

func init() {
	register(&Check{ID: "C02", Level: "exploration", Run: runC02, Replay: replayC02})
}

type c02Case struct {
	Rules []c01Rule `json:"rules"`
	Shape string    `json:"shape"` // A = one service, methods permuted; B = one service per method, services permuted
	Order []int     `json:"order"` // registration order (method/service indices); nil = natural
	SCRev bool      `json:"service_config_reversed"`
	Verb  string    `json:"verb"`
	Path  string    `json:"path"`
}

type c02Obs struct {
	code   int
	n      int
	method string
	msg    string
	panic  string
}

func (o c02Obs) String() string {
	if o.panic != "" {
		return "panic"
	}
	if o.n == 0 {
		return fmt.Sprintf("status=%d", o.code)
	}
	return fmt.Sprintf("status=%d method=%s msg={%s}", o.code, o.method, o.msg)
}

func permutations(n int) [][]int {
	var out [][]int
	var rec func(cur []int, used []bool)
	rec = func(cur []int, used []bool) {
		if len(cur) == n {
			out = append(out, append([]int(nil), cur...))
			return
		}
		for i := 0; i < n; i++ {
			if !used[i] {
				used[i] = true
				rec(append(cur, i), used)
				used[i] = false
			}
		}
	}
	rec(nil, make([]bool, n))
	return out
}

// dominates: t1 and t2 have identical top-level segments up to k, then t1 is literal where t2
// is a pure wildcard.
func dominates(t1, t2 tmpl.T) bool {
	for k := 0; k < len(t1.Segs) && k < len(t2.Segs); k++ {
		a, b := t1.Segs[k], t2.Segs[k]
		if a.String() == b.String() {
			continue
		}
		// "spells the next path segment literally": a literal segment, or a variable whose
		// pattern starts with one ({f=a/*}: the next path segment must be "a")
		lit := a.Kind == tmpl.Lit || (a.Kind == tmpl.Var && len(a.Sub) > 0 && a.Sub[0].Kind == tmpl.Lit)
		return lit && b.Pure()
	}
	return false
}

type c02Ref struct {
	matching    []int // indices into rules that may-match
	convertible bool
	generated   bool // the probe is an instantiation of a rule whose verb serves the request verb
}

func c02Obs1(s *routeSchema, impl *recImpl, res serveResult) c02Obs {
	o := c02Obs{code: res.Code, n: impl.n, method: impl.method}
	if res.Panicked {
		o.panic = res.Panic
	}
	if impl.req != nil {
		o.msg = prototext.MarshalOptions{}.Format(impl.req)
		o.msg = strings.Join(strings.Fields(o.msg), " ")
	}
	return o
}

// methodName maps a flattened index to the name in the given shape.
func c02Judge(s *routeSchema, rules []boundRule, verb, path string, genBy []int, o c02Obs) (oracle, note string) {
	if o.panic != "" {
		return "panic", o.panic
	}
	var matching []int
	convertible := true
	for i, br := range rules {
		if !verbServes(br.Rule.Verb(), verb) {
			continue
		}
		ms := br.T.MayMatch(path)
		if len(ms) == 0 {
			continue
		}
		matching = append(matching, i)
		for _, caps := range ms {
			if _, ok := s.expectedFromCapture(caps); !ok {
				convertible = false
			}
		}
	}
	served := false
	for _, gi := range genBy {
		if verbServes(rules[gi].Rule.Verb(), verb) {
			served = true
		}
	}
	if !served || !convertible {
		return "", ""
	}
	if o.n != 1 {
		return "not-dispatched", fmt.Sprintf("%s %s is an instantiation of %s but was answered %s", verb, path, rules[genBy[0]].String(), o)
	}
	wi := -1
	for i, m := range s.methods {
		if m == o.method {
			wi = i
		}
	}
	owns := false
	for _, i := range matching {
		if rules[i].M == wi {
			owns = true
		}
	}
	if !owns {
		return "winner-owns-no-matching-rule", fmt.Sprintf("%s %s -> %s", verb, path, o)
	}
	// precedence: every matching rule of the winner is dominated by a matching rule of another method
	allDom := true
	var why []string
	for _, i := range matching {
		if rules[i].M != wi {
			continue
		}
		dom := false
		for _, k := range genBy { // dominators must match under every reading: instantiations only
			if rules[k].M != wi && verbServes(rules[k].Rule.Verb(), verb) && dominates(rules[k].T, rules[i].T) {
				dom = true
				why = append(why, fmt.Sprintf("%s is more literal than %s", rules[k].String(), rules[i].String()))
			}
		}
		if !dom {
			allDom = false
		}
	}
	if allDom {
		return "wildcard-beat-literal", fmt.Sprintf("%s %s -> %s although %s", verb, path, o, strings.Join(why, "; "))
	}
	return "", ""
}

// c02Ambiguous: two bindings of the same method and verb whose templates cover exactly the
// same paths and differ only in what they capture (e.g. "/a/*" and "/a/{s}"). Which binding
// applies is undefined by google.api.http; larking keeps the first. Not demanded.
func c02Ambiguous(rules []boundRule) bool {
	shape := func(t tmpl.T) string {
		var p []string
		for _, f := range t.Flat() {
			switch f.Kind {
			case tmpl.Lit:
				p = append(p, f.Text)
			case tmpl.Star:
				p = append(p, "*")
			default:
				p = append(p, "**")
			}
		}
		return strings.Join(p, "/") + ":" + t.Verb
	}
	for i := range rules {
		for k := i + 1; k < len(rules); k++ {
			if rules[i].M == rules[k].M && shape(rules[i].T) == shape(rules[k].T) &&
				(rules[i].Rule.Verb() == rules[k].Rule.Verb() || rules[i].Rule.Verb() == "*" || rules[k].Rule.Verb() == "*") {
				return true
			}
		}
	}
	return false
}

type c02Job struct {
	rules []c01Rule
}

func c02Verbs(rules []boundRule) []string {
	seen := map[string]bool{}
	var out []string
	for _, r := range rules {
		vs := []string{r.Rule.Verb()}
		if vs[0] == "*" {
			vs = []string{"GET", "POST"}
		}
		for _, v := range vs {
			if !seen[v] {
				seen[v] = true
				out = append(out, v)
			}
		}
	}
	return out
}

var c02Alphabet = tmplAlphabet{
	Mid:   []string{"a", "bb", "*", "{$}", "{$=a/*}", "{i}"},
	Last:  []string{"**", "{$=**}", "{$=a/**}"},
	Verbs: []string{"", "vb"},
}

var c02Deep = tmplAlphabet{
	Mid:   []string{"a", "bb", "v1", "*", "{$}", "{$=*}", "{$=a/*}", "{$=a/bb/*}", "{$=*/bb}", "{n.s}", "{i}"},
	Last:  []string{"**", "{$=**}", "{$=a/**}", "{$=a/bb/**}", "{n.s=*/**}"},
	Verbs: []string{"", "vb", "a"},
}

func runC02(c *Ctx) {
	r := c.Run
	r.Rule("rule sets (singles over the deep template alphabet × kinds; every 4-5 (thorough 6) segment template over a reduced alphabet alone and paired with every template sharing all but its last segment; unordered pairs incl. same-method pairs and triples over the reduced alphabet) × every permutation of registration order in two shapes (methods of one service / one service per method) and both service-config orders × every instantiation of every template (fills {x,a,7,é,Ж9}, ** filled with 1..2 (thorough 3) segments) under each rule's verb; plus the token-limit boundary (1..48 request segments under ** rules and a 31-literal template: whole remainder captured up to 31 segments, refused or whole beyond, never shortened) and literal segments of 62..1000 bytes; plus histories with removals: every 3-subset (thorough: 4-subset) of a 13-member family sharing one trie node (11 single templates, two methods with 3 and 4 bindings below sibling variables), each template behind its own scripted back-end, registered in every order, one of them dropped, every probe compared with a mux that registered only the rest; distinct = rule sets with at least one dispatched probe")
	r.Assume("zero-segment ** , ':' outside the final verb position, non-convertible captures and literal-vs-patterned-variable precedence are not demanded", "orders in which larking rejects the rule set are excluded from the order comparison (accept/reject is C16)")

	var jobs []c02Job
	kinds := []string{"get", "*"}
	if c.Thorough() {
		kinds = []string{"get", "post", "HEAD", "*"}
	}
	maxSeg := 2
	if c.Thorough() {
		maxSeg = 3
	}
	for _, t := range enumTemplates(c02Deep, maxSeg) {
		for _, k := range kinds {
			jobs = append(jobs, c02Job{[]c01Rule{{0, k, t.String()}}})
		}
	}
	// long templates (4-5 segments, thorough 6) alone, and every pair of them that differs in the
	// last segment only (a long shared prefix in the trie), on two methods
	longMax := 5
	if c.Thorough() {
		longMax = 6
	}
	byPrefix := map[string][]string{}
	var prefixes []string
	for _, t := range longTemplates(longMax) {
		ts := t.String()
		jobs = append(jobs, c02Job{[]c01Rule{{0, "get", ts}}})
		if t.Verb == "" {
			pre := ts[:strings.LastIndex(ts, "/")]
			if byPrefix[pre] == nil {
				prefixes = append(prefixes, pre)
			}
			byPrefix[pre] = append(byPrefix[pre], ts)
		}
	}
	nLongPairs := 0
	for _, pre := range prefixes {
		g := byPrefix[pre]
		for i := range g {
			for j := i + 1; j < len(g); j++ {
				jobs = append(jobs, c02Job{[]c01Rule{{0, "get", g[i]}, {1, "get", g[j]}}})
				nLongPairs++
			}
		}
	}
	nSingles := len(jobs)
	pairT := enumTemplates(c02Alphabet, 2)
	pairKinds := [][2]string{{"get", "get"}, {"get", "*"}}
	if c.Thorough() {
		pairKinds = append(pairKinds, [2]string{"*", "*"}, [2]string{"post", "get"})
	}
	for i, t1 := range pairT {
		for j, t2 := range pairT {
			if j <= i {
				continue
			}
			for _, pk := range pairKinds {
				jobs = append(jobs, c02Job{[]c01Rule{{0, pk[0], t1.String()}, {1, pk[1], t2.String()}}})
				if pk[0] != pk[1] {
					jobs = append(jobs, c02Job{[]c01Rule{{0, pk[1], t1.String()}, {1, pk[0], t2.String()}}})
				}
			}
			// same method, two bindings
			jobs = append(jobs, c02Job{[]c01Rule{{0, "get", t1.String()}, {0, "get", t2.String()}}})
		}
	}
	nPairs := len(jobs) - nSingles
	// triples over 1-2 segment templates of a smaller alphabet
	triT := enumTemplates(tmplAlphabet{Mid: []string{"a", "*", "{$}", "{$=a/*}"}, Last: []string{"**", "{$=a/**}"}, Verbs: []string{"", "vb"}}, 2)
	if !c.Thorough() {
		triT = enumTemplates(tmplAlphabet{Mid: []string{"a", "{$}"}, Last: []string{"{$=a/**}"}, Verbs: []string{"", "vb"}}, 2)
	}
	for i := range triT {
		for j := i + 1; j < len(triT); j++ {
			for k := j + 1; k < len(triT); k++ {
				jobs = append(jobs, c02Job{[]c01Rule{{0, "get", triT[i].String()}, {1, "get", triT[j].String()}, {2, "get", triT[k].String()}}})
			}
		}
	}
	r.Set("rule_sets", map[string]int{"singles_and_long_prefix_pairs": nSingles, "long_prefix_pairs": nLongPairs, "pairs": nPairs, "triples": len(jobs) - nSingles - nPairs})

	shapeA, err := newRouteSchema("vt", "S", 3, nil)
	if err != nil {
		panic(err)
	}
	shapeB, err := newRouteSchemaMulti("vt", 3)
	if err != nil {
		panic(err)
	}
	fills := []string{"x", "a", "7", "é", "Ж9"}
	deep := 2
	if c.Thorough() {
		deep = 3
	}

	done := explore.ParallelFor(len(jobs), func() bool { return r.TooManyViolations() || r.Expired() }, func(_ int, ji int) {
		j := jobs[ji]
		rules := c01Bound(j.rules)
		if c02Ambiguous(rules) {
			r.Outcome("skipped-ambiguous-same-method")
			return
		}
		// probes: path -> indices of the generating rules
		gen := map[string][]int{}
		var probes []string
		for i, br := range rules {
			d := deep
			if len(rules) > 1 && d > 2 {
				d = 2
			}
			fl := fills
			if len(rules) > 1 && !c.Thorough() {
				fl = fills[:3] // quick: multi-rule sets use {x,a,7}; singles the full fill alphabet
			}
			br.T.Instantiate(fl, d, func(p string, _ tmpl.Capture) {
				if _, ok := gen[p]; !ok {
					probes = append(probes, p)
				}
				gen[p] = append(gen[p], i)
			})
		}
		verbs := c02Verbs(rules)
		nm := 0
		for _, br := range rules {
			if br.M+1 > nm {
				nm = br.M + 1
			}
		}
		type variant struct {
			shape string
			order []int
			rev   bool
		}
		var variants []variant
		shapes := []string{"A", "B"}
		if !c.Thorough() && len(rules) > 1 && ji%2 == 0 {
			shapes = []string{"A"} // quick: shape B on every other multi-rule set
		}
		for _, sh := range shapes {
			if nm == 1 {
				variants = append(variants, variant{sh, nil, false})
				if len(rules) > 1 {
					variants = append(variants, variant{sh, nil, true})
				}
				continue
			}
			for _, p := range permutations(3) {
				// only permutations that differ on the used methods
				variants = append(variants, variant{sh, p, false})
			}
			variants = append(variants, variant{sh, nil, true})
		}
		// results[shape][probe key] of the first accepted variant
		first := map[string]map[string]c02Obs{}
		firstVar := map[string]variant{}
		var evals int64
		dispatched := 0
		outc := map[string]int64{}
		reported := map[string]bool{}
		fail := func(oracle, note string, v variant, verb, p string) {
			outc["FAIL:"+oracle]++
			if reported[oracle] {
				return
			}
			reported[oracle] = true
			r.Violation(report.Violation{Oracle: oracle, Key: fmt.Sprintf("%s rules=[%s] shape=%s order=%v rev=%v %s %s", oracle, ruleSetString(rules), v.shape, v.order, v.rev, verb, p),
				Case: c02Case{Rules: j.rules, Shape: v.shape, Order: v.order, SCRev: v.rev, Verb: verb, Path: p}, Note: note})
		}
		seenOrderKey := map[string]bool{}
		for _, v := range variants {
			// dedupe permutations that are identical on the used methods
			if v.order != nil {
				var k []string
				for _, i := range v.order {
					if i < nm {
						k = append(k, fmt.Sprint(i))
					}
				}
				key := v.shape + strings.Join(k, ",")
				if seenOrderKey[key] {
					continue
				}
				seenOrderKey[key] = true
			}
			schema := shapeA
			if v.shape == "B" {
				schema = shapeB
			}
			rs := rules
			if v.rev {
				rs = make([]boundRule, len(rules))
				for i := range rules {
					rs[len(rules)-1-i] = rules[i]
				}
			}
			m, impl, err := schema.newMux(rs, v.order)
			if err != nil {
				if pe, ok := err.(*panicError); ok {
					fail("register-panic", pe.text, v, "", "")
				} else {
					outc["rejected-order"]++
				}
				continue
			}
			for _, verb := range verbs {
				for _, p := range probes {
					impl.reset()
					res := serveSimple(m, verb, p, "")
					evals++
					o := c02Obs1(schema, impl, res)
					if o.n > 0 {
						dispatched++
						outc["dispatched"]++
					} else {
						outc[fmt.Sprintf("status-%d", o.code)]++
					}
					if oracle, note := c02Judge(schema, rules, verb, p, gen[p], o); oracle != "" {
						fail(oracle, note, v, verb, p)
					}
					k := verb + " " + p
					if first[v.shape] == nil {
						first[v.shape] = map[string]c02Obs{}
						firstVar[v.shape] = v
					}
					if prev, ok := first[v.shape][k]; !ok {
						first[v.shape][k] = o
					} else if prev.String() != o.String() {
						fv := firstVar[v.shape]
						fail("order-dependent", fmt.Sprintf("%s %s: order %v rev=%v -> %s ; order %v rev=%v -> %s", verb, p, fv.order, fv.rev, prev, v.order, v.rev, o), v, verb, p)
					}
				}
			}
		}
		r.Eval(evals)
		for k, v := range outc {
			r.OutcomeN(k, v)
		}
		if dispatched > 0 {
			r.Distinct(ruleSetString(rules))
		}
		if r.WantSample() && ji%1499 == 7 {
			r.Sample(map[string]any{"rules": ruleSetString(rules), "verbs": verbs, "probes": len(probes), "variants": len(variants), "probe_examples": probes[:min(5, len(probes))]})
		}
	})
	if !done {
		r.CapHit("deadline or violation cap reached before all rule sets were probed")
	}
	c02TokenLimit(c, shapeA)
	c02AfterDrop(c)
}

// c02TokenLimit: paths with up to 31 segments (63 tokens + EOF = larking's documented cap of
// 64 tokens) must still route through a trailing "**", with the whole remainder captured. Deeper
// paths (up to 48 segments) may be refused, but are never dispatched with a shortened capture,
// never reach a rule they do not match, and never panic. Literal segments of 63..200 bytes
// route like short ones.
func c02TokenLimit(c *Ctx, s *routeSchema) {
	r := c.Run
	fail := func(oracle, tp, p, note string) {
		r.Violation(report.Violation{Oracle: oracle, Key: fmt.Sprintf("%s %s path-bytes=%d segments=%d", oracle, truncS(tp, 60), len(p), strings.Count(p, "/")), Case: c02Case{Rules: []c01Rule{{0, "get", tp}}, Shape: "A", Verb: "GET", Path: p}, Note: note})
		r.Outcome("FAIL:" + oracle)
	}
	lits := make([]string, 31)
	for i := range lits {
		lits[i] = fmt.Sprintf("l%d", i)
	}
	lit31 := "/" + strings.Join(lits, "/")
	for _, tp := range []string{"/**", "/{s=**}", "/v1/{s=**}", "/v1/**:vb", "/v1/{s=**}:vb", lit31, "/" + strings.Join(lits[:15], "/") + "/{s=**}"} {
		rules := c01Bound([]c01Rule{{0, "get", tp}})
		m, impl, err := s.newMux(rules, nil)
		if err != nil {
			r.Violation(report.Violation{Oracle: "token-limit-register", Key: "token-limit-register " + tp, Case: c02Case{Rules: []c01Rule{{0, "get", tp}}}, Note: err.Error()})
			continue
		}
		nlit := 0 // leading literal segments of the template
		for _, sg := range rules[0].T.Segs {
			if sg.Kind != tmpl.Lit {
				break
			}
			nlit++
		}
		prefix := strings.Split(strings.TrimPrefix(tp, "/"), "/")[:nlit]
		for n := 1; n <= 48; n++ {
			if n < nlit || n == nlit && nlit < len(rules[0].T.Segs) {
				continue // a zero-segment ** is not demanded
			}
			segs := make([]string, n)
			for i := range segs {
				segs[i] = fmt.Sprintf("x%d", i)
			}
			copy(segs, prefix)
			p := "/" + strings.Join(segs, "/")
			tokens := 2*n + 1
			if rules[0].T.Verb != "" {
				p += ":" + rules[0].T.Verb
				tokens += 2
			}
			impl.reset()
			res := serveSimple(m, "GET", p, "")
			r.Eval(1)
			o := c02Obs1(s, impl, res)
			ms := rules[0].T.MayMatch(p)
			if o.panic != "" {
				fail("panic", tp, p, o.panic)
				continue
			}
			if len(ms) == 0 {
				if o.n != 0 {
					fail("token-limit-misrouted", tp, p, fmt.Sprintf("%d segments do not match %s but reached %s with %s", n, truncS(tp, 60), o.method, truncS(o.msg, 200)))
				} else {
					r.Outcome("refused-no-match")
				}
				continue
			}
			if o.n == 0 {
				if tokens <= 64 {
					fail("token-limit", tp, p, fmt.Sprintf("%d segments (%d tokens) under %s -> %s", n, tokens, truncS(tp, 60), o))
				} else {
					r.Outcome("refused-beyond-token-limit")
				}
				continue
			}
			ok := false
			for _, caps := range ms {
				if want, cok := s.expectedFromCapture(caps); cok && proto.Equal(want, impl.req) {
					ok = true
				}
			}
			if !ok {
				fail("token-limit-capture", tp, p, fmt.Sprintf("%d segments under %s dispatched with {%s}: not the whole remainder", n, truncS(tp, 60), truncS(o.msg, 300)))
			} else {
				r.Outcome("dispatched")
			}
		}
	}
	// long literal segments: alone, beside a variable sibling, as a prefix of a longer request
	// segment, with a verb; every probe is judged by the reference matcher
	for _, n := range []int{62, 63, 64, 65, 127, 128, 200, 1000} {
		L := strings.Repeat("q", n)
		set := []c01Rule{{0, "get", "/" + L}, {1, "get", "/{s}"}, {2, "get", "/w/" + L + ":vb"}}
		rules := c01Bound(set)
		m, impl, err := s.newMux(rules, nil)
		if err != nil {
			fail("long-literal-register", set[0].Path, "", err.Error())
			continue
		}
		for _, p := range []string{"/" + L, "/" + L + "q", "/" + L[:n-1], "/" + L[:n-1] + "r", "/w/" + L + ":vb", "/w/" + L + "q:vb", "/w/" + L, "/w/" + L[:n-1] + ":vb"} {
			impl.reset()
			res := serveSimple(m, "GET", p, "")
			r.Eval(1)
			o := c02Obs1(s, impl, res)
			oracle, note := c02Judge(s, rules, "GET", p, c02GenBy(rules, "GET", p), o)
			if oracle != "" {
				fail("long-literal-"+oracle, set[0].Path, p, note)
			} else {
				r.Outcome("long-literal-ok")
			}
		}
	}
}

// c02GenBy lists the rules whose template matches path (the probes here are hand-made, not
// instantiated from one rule).
func c02GenBy(rules []boundRule, verb, path string) []int {
	var out []int
	for i, br := range rules {
		if len(br.T.MayMatch(path)) > 0 {
			out = append(out, i)
		}
	}
	return out
}

// replayTokenLimit re-runs the (deterministic, small) depth-and-length family and reports whether
// the recorded oracle still fires.
func replayTokenLimit(c *Ctx, id string, v report.Violation) bool {
	if !strings.Contains(v.Key, "path-bytes=") && !strings.HasPrefix(v.Oracle, "token-limit") && !strings.HasPrefix(v.Oracle, "long-literal") {
		return false
	}
	sub := *c
	sub.Run = report.NewRun(id, "quick", 0, "exploration")
	schema, err := newRouteSchema("vt", "S", 3, nil)
	if err != nil {
		panic(err)
	}
	c02TokenLimit(&sub, schema)
	fmt.Printf("replay: depth-and-length family re-run -> %d violations\n", sub.Run.NumViolations())
	if sub.Run.NumViolations() > 0 {
		c.Run.Violation(report.Violation{Oracle: v.Oracle, Key: v.Key, Case: v.Case, Note: "still violated"})
	}
	return true
}

func replayC02(c *Ctx, v report.Violation) {
	if replayTokenLimit(c, "C02", v) {
		return
	}
	if strings.Contains(v.Key, "after-drop") {
		sub := *c
		sub.Run = report.NewRun("C02", "quick", 0, "exploration")
		c02AfterDrop(&sub)
		fmt.Printf("replay: after-drop family re-run -> %d violations\n", sub.Run.NumViolations())
		if sub.Run.NumViolations() > 0 {
			c.Run.Violation(report.Violation{Oracle: v.Oracle, Key: v.Key, Case: v.Case, Note: "still violated"})
		}
		return
	}
	var tc c02Case
	if !remarshal(v.Case, &tc) {
		fmt.Println("replay: cannot decode case")
		return
	}
	rules := c01Bound(tc.Rules)
	var schema *routeSchema
	if tc.Shape == "B" {
		schema, _ = newRouteSchemaMulti("vt", 3)
	} else {
		schema, _ = newRouteSchema("vt", "S", 3, nil)
	}
	run := func(order []int, rev bool) (c02Obs, error) {
		rs := rules
		if rev {
			rs = make([]boundRule, len(rules))
			for i := range rules {
				rs[len(rules)-1-i] = rules[i]
			}
		}
		m, impl, err := schema.newMux(rs, order)
		if err != nil {
			return c02Obs{}, err
		}
		res := serveSimple(m, tc.Verb, tc.Path, "")
		return c02Obs1(schema, impl, res), nil
	}
	o, err := run(tc.Order, tc.SCRev)
	if err != nil {
		fmt.Printf("replay: registration: %v\n", err)
		if _, ok := err.(*panicError); ok {
			c.Run.Violation(report.Violation{Oracle: "register-panic", Key: v.Key, Case: tc, Note: err.Error()})
		}
		return
	}
	fmt.Printf("replay: %s %s -> %s\n", tc.Verb, tc.Path, o)
	gen := []int{}
	for i, br := range rules {
		br.T.Instantiate([]string{"x", "a", "7", "é", "Ж9"}, 3, func(p string, _ tmpl.Capture) {
			if p == tc.Path {
				gen = append(gen, i)
			}
		})
	}
	if strings.HasPrefix(v.Oracle, "token-limit") {
		if o.n != 1 {
			c.Run.Violation(report.Violation{Oracle: v.Oracle, Key: v.Key, Case: tc, Note: o.String()})
		}
		return
	}
	if len(gen) > 0 {
		if oracle, note := c02Judge(schema, rules, tc.Verb, tc.Path, gen, o); oracle != "" {
			fmt.Printf("replay: oracle=%s %s\n", oracle, note)
			c.Run.Violation(report.Violation{Oracle: oracle, Key: v.Key, Case: tc, Note: note})
			return
		}
	}
	if v.Oracle == "order-dependent" {
		base, err := run(nil, false)
		for _, p := range permutations(3) {
			o2, err2 := run(p, false)
			if err == nil && err2 == nil && o2.String() != base.String() {
				note := fmt.Sprintf("natural order -> %s ; order %v -> %s", base, p, o2)
				fmt.Println("replay:", note)
				c.Run.Violation(report.Violation{Oracle: "order-dependent", Key: v.Key, Case: tc, Note: note})
				return
			}
		}
		if o3, err3 := run(nil, true); err == nil && err3 == nil && o3.String() != base.String() {
			c.Run.Violation(report.Violation{Oracle: "order-dependent", Key: v.Key, Case: tc, Note: fmt.Sprintf("natural -> %s ; reversed service config -> %s", base, o3)})
		}
	}
	_ = proto.Equal
}
