package props

import (
	"fmt"
	"os"
	"os/exec"
	"path/filepath"
	"runtime"
	"strconv"
	"strings"
	"sync"
	"time"

	"verif/explore"
	"verif/report"
	"verif/sched"
	"verif/shim/vsync"
)

// e3Scenario is one closed system explored under the controlled scheduler.
type e3Scenario struct {
	Name          string
	Desc          string
	Setup         func() any                         // fresh system, built outside the scheduler
	Threads       []e3Thread                         // controlled threads
	Check         func(sys any, x *sched.S) []e3Fail // oracle for one complete execution
	Teardown      func(sys any)
	FreeCheck     func(sys any) []e3Fail // oracle usable after a free-running execution (optional)
	PoolPoints    bool                   // pool operations are scheduling points (and GC choices) in this scenario
	NoWGAddPoints bool                   // WaitGroup.Add/Done are not scheduling points in this scenario
	MaxSteps      int
	BoundCap      int // > 0: explore this scenario only up to this preemption bound (value sweeps whose outcome does not depend on the schedule)
}

type e3Thread struct {
	Name string
	Body func(sys any)
}

type e3Fail struct {
	Oracle string
	Note   string
}

type e3Case struct {
	Scenario string   `json:"scenario"`
	Choices  []int    `json:"choices"`
	Trace    []string `json:"trace"`
	Log      []string `json:"log"`
}

type e3Stats struct {
	Executions, Points int64
	BoundCompleted     int
	Truncated          bool
	Outcomes           map[string]int64
}

// runOnce executes scenario sc under the schedule prefix.
func (sc *e3Scenario) runOnce(prefix []int) (*sched.S, any) {
	vsync.ResetPools()
	vsync.PoolIsPoint = sc.PoolPoints
	vsync.WaitGroupAddIsPoint = !sc.NoWGAddPoints
	sys := sc.Setup()
	maxSteps := sc.MaxSteps
	if maxSteps == 0 {
		maxSteps = 20000
	}
	x := sched.Run(prefix, maxSteps, func() {
		var wg vsync.WaitGroup
		wg.Add(len(sc.Threads))
		for _, th := range sc.Threads {
			th := th
			sched.GoNamed(th.Name, func() {
				defer wg.Done()
				th.Body(sys)
			})
		}
		wg.Wait()
	})
	return x, sys
}

// exploreScenario runs the iterated preemption-bounded DFS for one scenario.
func exploreScenario(r *report.Run, sc *e3Scenario, maxBound int, deadline time.Time, maxExec int64) e3Stats {
	st := e3Stats{BoundCompleted: -1, Outcomes: map[string]int64{}}
	// determinism guard: the default schedule twice
	x1, s1 := sc.runOnce(nil)
	x2, s2 := sc.runOnce(nil)
	if sc.Teardown != nil {
		sc.Teardown(s1)
		sc.Teardown(s2)
	}
	if strings.Join(x1.Log, "\n") != strings.Join(x2.Log, "\n") || len(x1.Trace) != len(x2.Trace) {
		fmt.Printf("HARNESS-NONDETERMINISM scenario=%s: the default schedule produced two different logs\n--- first\n%s\n--- second\n%s\n", sc.Name, strings.Join(x1.Log, "\n"), strings.Join(x2.Log, "\n"))
		r.Set("harness_nondeterminism", sc.Name)
		r.CapHit("harness nondeterminism in scenario " + sc.Name)
		return st
	}
	reported := map[string]bool{}
	for bound := 0; bound <= maxBound; bound++ {
		d := &explore.DFS{Bound: bound, Deadline: deadline, MaxExec: maxExec}
		d.Run = func(prefix []int) *sched.S {
			x, sys := sc.runOnce(prefix)
			x.Log = append(x.Log, "") // keep Log non-nil
			d.Check = func(x *sched.S) {
				var fails []e3Fail
				if l, ok := explore.HasPanic(x); ok {
					fails = append(fails, e3Fail{"panic", l})
				}
				if x.Deadlock {
					fails = append(fails, e3Fail{"deadlock", x.DeadInfo})
				}
				if x.Livelock {
					fails = append(fails, e3Fail{"livelock", fmt.Sprintf("more than %d steps", sc.MaxSteps)})
				}
				if len(fails) == 0 {
					fails = append(poolFaults(x), sc.Check(sys, x)...)
				}
				if len(fails) == 0 {
					st.Outcomes[outcomeKey(x)]++
				}
				for _, f := range fails {
					st.Outcomes["FAIL:"+f.Oracle]++
					r.Outcome("FAIL:" + f.Oracle)
					if reported[f.Oracle] {
						continue
					}
					// confirm: the same schedule must fail again (5 times)
					repro := 0
					for k := 0; k < 5; k++ {
						xr, sr := sc.runOnce(x.Choices())
						var again []e3Fail
						if l, ok := explore.HasPanic(xr); ok {
							again = append(again, e3Fail{"panic", l})
						}
						if xr.Deadlock {
							again = append(again, e3Fail{"deadlock", xr.DeadInfo})
						}
						if len(again) == 0 && !xr.Livelock {
							again = append(poolFaults(xr), sc.Check(sr, xr)...)
						}
						for _, a := range again {
							if a.Oracle == f.Oracle {
								repro++
								break
							}
						}
						if sc.Teardown != nil {
							sc.Teardown(sr)
						}
					}
					reported[f.Oracle] = true
					r.Violation(report.Violation{Oracle: f.Oracle, Key: fmt.Sprintf("%s scenario=%s choices=%v", f.Oracle, sc.Name, x.Choices()),
						Case: e3Case{Scenario: sc.Name, Choices: x.Choices(), Trace: explore.FormatTrace(x.Trace), Log: x.Log}, Note: f.Note, Repro: fmt.Sprintf("%d/5", repro)})
				}
				if sc.Teardown != nil {
					sc.Teardown(sys)
				}
			}
			return x
		}
		d.Check = func(*sched.S) {}
		d.Explore()
		st.Executions += d.Executions
		st.Points += d.Points
		if d.HarnessErr != "" && os.Getenv("VERIF_E3_DEBUG") != "" {
			// debugging aid: re-run the offending prefix and its parent, show the tail of the traces
			var pref []int
			fmt.Sscanf(d.HarnessErr, "replay of prefix %v", &pref)
			fmt.Println("DEBUG divergence:", d.HarnessErr)
			if d.LastPrefix != nil {
				for k := 0; k < 2; k++ {
					vsync.Debug = true
					x, sy := sc.runOnce(d.LastPrefix)
					vsync.Debug = false
					tr := explore.FormatTrace(x.Trace)
					fmt.Printf("DEBUG rerun %d of failing prefix: %d points\n", k, len(tr))
					_ = os.WriteFile(fmt.Sprintf("/var/tmp/dbg-log-%d.txt", k), []byte(strings.Join(x.Log, "\n")), 0o644)
					for _, l := range tr[max(0, len(tr)-8):] {
						fmt.Println("   ", l)
					}
					if sc.Teardown != nil {
						sc.Teardown(sy)
					}
				}
				x, sy := sc.runOnce(d.LastPrefix[:len(d.LastPrefix)-1])
				tr := explore.FormatTrace(x.Trace)
				fmt.Printf("DEBUG parent prefix: %d points\n", len(tr))
				for _, l := range tr[max(0, len(d.LastPrefix)-8):min(len(tr), len(d.LastPrefix)+3)] {
					fmt.Println("   ", l)
				}
				if sc.Teardown != nil {
					sc.Teardown(sy)
				}
			}
		}
		if d.HarnessErr != "" {
			fmt.Printf("HARNESS-NONDETERMINISM scenario=%s: %s\n", sc.Name, d.HarnessErr)
			r.Set("harness_nondeterminism", sc.Name+": "+d.HarnessErr)
			r.CapHit("harness nondeterminism in scenario " + sc.Name)
			return st
		}
		if d.Truncated {
			st.Truncated = true
			break
		}
		st.BoundCompleted = bound
	}
	return st
}

// poolFaults reports the pool-discipline marks the sync.Pool shim left in the execution log.
func poolFaults(x *sched.S) []e3Fail {
	for _, l := range x.Log {
		if i := strings.Index(l, "POOL-DOUBLE-PUT"); i >= 0 {
			return []e3Fail{{"pool-double-put", l[i:]}}
		}
		if i := strings.Index(l, "WAITGROUP-MISUSE"); i >= 0 {
			return []e3Fail{{"waitgroup-add-concurrent-with-wait", l[i:]}}
		}
	}
	return nil
}

// outcomeKey summarises what an execution observed (log lines marked "obs:").
func outcomeKey(x *sched.S) string {
	var obs []string
	for _, l := range x.Log {
		if i := strings.Index(l, "obs:"); i >= 0 {
			obs = append(obs, l[i+4:])
		}
	}
	return strings.Join(obs, "|")
}

// runScenarios explores every scenario, sharded over worker subprocesses is not needed: the
// scheduler is process-global, so scenarios run one after the other here; parallelism comes
// from check.sh running disjoint scenario groups in separate processes (VERIF_E3_SHARD).
func runScenarios(c *Ctx, scs []*e3Scenario, maxBound int, perScenario time.Duration, maxExec int64) {
	r := c.Run
	if c.Shards == 0 && len(scs) > 1 {
		if procs := e3Procs(len(scs)); procs > 1 {
			runScenariosSharded(c, len(scs), procs)
			return
		}
	}
	if c.Shards > 0 {
		var mine []*e3Scenario
		for i, sc := range scs {
			if i%c.Shards == c.Shard {
				mine = append(mine, sc)
			}
		}
		scs = mine
	}
	distinct := 0
	minBound := 1 << 30
	var samples int
	for _, sc := range scs {
		if r.Expired() {
			r.CapHit("deadline reached before scenario " + sc.Name)
			break
		}
		dl := time.Now().Add(perScenario)
		if !r.Deadline.IsZero() && dl.After(r.Deadline) {
			dl = r.Deadline
		}
		bound := maxBound
		if sc.BoundCap > 0 && sc.BoundCap < bound {
			bound = sc.BoundCap
		}
		st := exploreScenario(r, sc, bound, dl, maxExec)
		r.Eval(st.Executions)
		r.AddTransitions(st.Points)
		r.AddStates(int64(len(st.Outcomes)))
		distinct += len(st.Outcomes)
		for k, v := range st.Outcomes {
			if strings.HasPrefix(k, "FAIL:") {
				continue
			}
			r.OutcomeN(sc.Name+": "+truncS(k, 160), v)
		}
		r.Distinct(sc.Name)
		for k := range st.Outcomes {
			r.Distinct(sc.Name + "|" + k)
		}
		if st.Truncated {
			r.CapHit(fmt.Sprintf("scenario %s: execution/time cap hit while exploring preemption bound %d (bound %d completed)", sc.Name, st.BoundCompleted+1, st.BoundCompleted))
		}
		if st.BoundCompleted < minBound && sc.BoundCap == 0 {
			minBound = st.BoundCompleted
		}
		if samples < 12 {
			samples++
			r.Sample(map[string]any{"scenario": sc.Name, "what": sc.Desc, "schedules": st.Executions, "choice_points": st.Points, "distinct_outcomes": len(st.Outcomes), "preemption_bound_completed": st.BoundCompleted})
		}
		fmt.Printf("  scenario %-28s schedules=%-8d points=%-9d outcomes=%-4d bound_completed=%d truncated=%v\n", sc.Name, st.Executions, st.Points, len(st.Outcomes), st.BoundCompleted, st.Truncated)
	}
	r.Set("preemption_bound_completed_all_scenarios", minBound)
	r.Set("preemption_bound_target", maxBound)
	r.AddValidated(r.Evaluations())
	r.Set("validation_note", "every schedule is executed on the real larking code (sync, sync/atomic, math/rand and go statements rewritten to the controlled scheduler by go build -overlay at check time); there is no separate model whose traces would need replaying")
}

func e3Procs(nScenarios int) int {
	p := runtime.NumCPU()
	if v, err := strconv.Atoi(os.Getenv("VERIF_E3_PROCS")); err == nil && v > 0 {
		p = v
	}
	if p > nScenarios {
		p = nScenarios
	}
	if p > 16 {
		p = 16
	}
	return p
}

// runScenariosSharded re-executes this binary as worker processes (the scheduler is
// process-global) and merges their partial results.
func runScenariosSharded(c *Ctx, nScenarios, procs int) {
	r := c.Run
	dir, err := os.MkdirTemp("/var/tmp", "verif-e3-")
	if err != nil {
		panic(err)
	}
	defer os.RemoveAll(dir)
	var wg sync.WaitGroup
	outs := make([]string, procs)
	errs := make([]error, procs)
	for i := 0; i < procs; i++ {
		i := i
		wg.Add(1)
		go func() {
			defer wg.Done()
			part := filepath.Join(dir, fmt.Sprintf("part-%d.json", i))
			cmd := exec.Command(os.Args[0], "check", r.ID, "--tier", c.Tier, "--root", report.Root, "--shard", fmt.Sprintf("%d/%d", i, procs), "--partial", part)
			cmd.Env = append(os.Environ(), "GOMAXPROCS=2", "VERIF_RACE_BIN=") // the race pass runs once, in the parent
			b, err := cmd.CombinedOutput()
			outs[i], errs[i] = string(b), err
		}()
	}
	wg.Wait()
	for i := 0; i < procs; i++ {
		fmt.Print(outs[i])
		if errs[i] != nil {
			fmt.Printf("worker %d failed: %v\n", i, errs[i])
			r.Set("worker_failure", fmt.Sprintf("worker %d: %v", i, errs[i]))
			r.CapHit(fmt.Sprintf("worker %d failed", i))
			continue
		}
		if err := r.MergePartial(filepath.Join(dir, fmt.Sprintf("part-%d.json", i))); err != nil {
			r.CapHit(fmt.Sprintf("worker %d: %v", i, err))
		}
	}
	r.Set("worker_processes", procs)
}
