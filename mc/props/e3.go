package props

import (
	"fmt"
	"os"
	"os/exec"
	"path/filepath"
	"runtime"
	"sort"
	"strconv"
	"strings"
	"sync"
	"time"

	"verif/explore"
	"verif/report"
	"verif/sched"
	"verif/shim/vsync"
)

// e3Scenario is one closed system explored under the controlled scheduler.
type e3Scenario struct {
	Name          string
	Desc          string
	Setup         func() any                         // fresh system, built outside the scheduler
	Threads       []e3Thread                         // controlled threads
	Check         func(sys any, x *sched.S) []e3Fail // oracle for one complete execution
	Teardown      func(sys any)
	FreeCheck     func(sys any) []e3Fail // oracle usable after a free-running execution (optional)
	PoolPoints    bool                   // pool operations are scheduling points (and GC choices) in this scenario
	NoWGAddPoints bool                   // WaitGroup.Add/Done are not scheduling points in this scenario
	MaxSteps      int
	BoundCap      int // > 0: explore this scenario only up to this preemption bound (value sweeps whose outcome does not depend on the schedule)

	// StateKey, when set, makes the scenario eligible for the second, *unbounded* phase: a
	// stateful depth-first search over every interleaving (no preemption bound) that stops
	// expanding at states already visited. It returns the scenario's fingerprint of the shared
	// state reachable outside hooked operations (sched.TrackState documents the rest of the key).
	StateKey func(sys any) string
	// CrossCheck: the scenario is small enough for a stateless search over every interleaving as
	// well; the set of observed outcomes of that search must equal the stateful one's (this is
	// how the state abstraction is validated against the implementation on every run).
	CrossCheck bool
}

type e3Thread struct {
	Name string
	Body func(sys any)
}

type e3Fail struct {
	Oracle string
	Note   string
}

type e3Case struct {
	Scenario string   `json:"scenario"`
	Choices  []int    `json:"choices"`
	Trace    []string `json:"trace"`
	Log      []string `json:"log"`
}

type e3Stats struct {
	Executions, Points int64
	BoundCompleted     int
	Truncated          bool
	Outcomes           map[string]int64

	// unbounded stateful phase
	SfRan, SfComplete                       bool
	SfStates, SfTransitions, SfExec, SfPrun int64
	SfDepth                                 int
	// stateless cross-check of the state abstraction (CrossCheck scenarios)
	XRan, XOK bool
	XExec     int64
	XNodes    int64 // nodes of the full interleaving tree
	XKeys     int64 // distinct state keys among them
	XNote     string
}

// runOnce executes scenario sc under the schedule prefix.
func (sc *e3Scenario) runOnce(prefix []int) (*sched.S, any) {
	vsync.ResetPools()
	vsync.PoolIsPoint = sc.PoolPoints
	vsync.WaitGroupAddIsPoint = !sc.NoWGAddPoints
	sys := sc.Setup()
	maxSteps := sc.MaxSteps
	if maxSteps == 0 {
		maxSteps = 20000
	}
	x := sched.Run(prefix, maxSteps, func() {
		var wg vsync.WaitGroup
		wg.Add(len(sc.Threads))
		for _, th := range sc.Threads {
			th := th
			sched.GoNamed(th.Name, func() {
				defer wg.Done()
				th.Body(sys)
			})
		}
		wg.Wait()
	})
	return x, sys
}

// exploreScenario runs the iterated preemption-bounded DFS for one scenario.
func exploreScenario(r *report.Run, sc *e3Scenario, maxBound int, deadline time.Time, maxExec int64) e3Stats {
	st := e3Stats{BoundCompleted: -1, Outcomes: map[string]int64{}}
	// determinism guard: the default schedule twice
	x1, s1 := sc.runOnce(nil)
	x2, s2 := sc.runOnce(nil)
	if sc.Teardown != nil {
		sc.Teardown(s1)
		sc.Teardown(s2)
	}
	if strings.Join(x1.Log, "\n") != strings.Join(x2.Log, "\n") || len(x1.Trace) != len(x2.Trace) {
		fmt.Printf("HARNESS-NONDETERMINISM scenario=%s: the default schedule produced two different logs\n--- first\n%s\n--- second\n%s\n", sc.Name, strings.Join(x1.Log, "\n"), strings.Join(x2.Log, "\n"))
		r.Set("harness_nondeterminism", sc.Name)
		r.CapHit("harness nondeterminism in scenario " + sc.Name)
		return st
	}
	reported := map[string]bool{}
	phases := maxBound + 1
	if sc.StateKey != nil && e3Unbounded {
		phases++ // the unbounded stateful phase comes last
	}
	for ph := 0; ph < phases; ph++ {
		bound := ph
		d := &explore.DFS{Bound: bound, Deadline: deadline, MaxExec: maxExec}
		stateful := ph > maxBound
		if stateful {
			d.Bound, d.Stateful, d.Visited = -1, true, map[string]struct{}{}
			d.Deadline = time.Now().Add(e3UnboundedBudget)
			if !deadline.IsZero() && d.Deadline.Before(deadline) {
				d.Deadline = deadline.Add(e3UnboundedBudget / 2)
			}
			d.MaxExec = 0
		}
		d.Run = func(prefix []int) *sched.S {
			if stateful {
				sched.TrackState = true
				defer func() { sched.TrackState, sched.StateKeyFn = false, nil }()
			}
			var x *sched.S
			var sys any
			if stateful {
				x, sys = sc.runOnceKeyed(prefix)
			} else {
				x, sys = sc.runOnce(prefix)
			}
			x.Log = append(x.Log, "") // keep Log non-nil
			d.Check = func(x *sched.S) {
				var fails []e3Fail
				if l, ok := explore.HasPanic(x); ok {
					fails = append(fails, e3Fail{"panic", l})
				}
				if x.Deadlock {
					fails = append(fails, e3Fail{"deadlock", x.DeadInfo})
				}
				if x.Livelock {
					fails = append(fails, e3Fail{"livelock", fmt.Sprintf("more than %d steps", sc.MaxSteps)})
				}
				if len(fails) == 0 {
					fails = append(poolFaults(x), sc.Check(sys, x)...)
				}
				if len(fails) == 0 {
					st.Outcomes[outcomeKey(x)]++
				}
				for _, f := range fails {
					st.Outcomes["FAIL:"+f.Oracle]++
					r.Outcome("FAIL:" + f.Oracle)
					if reported[f.Oracle] {
						continue
					}
					// confirm: the same schedule must fail again (5 times)
					repro := 0
					for k := 0; k < 5; k++ {
						xr, sr := sc.runOnce(x.Choices())
						var again []e3Fail
						if l, ok := explore.HasPanic(xr); ok {
							again = append(again, e3Fail{"panic", l})
						}
						if xr.Deadlock {
							again = append(again, e3Fail{"deadlock", xr.DeadInfo})
						}
						if len(again) == 0 && !xr.Livelock {
							again = append(poolFaults(xr), sc.Check(sr, xr)...)
						}
						for _, a := range again {
							if a.Oracle == f.Oracle {
								repro++
								break
							}
						}
						if sc.Teardown != nil {
							sc.Teardown(sr)
						}
					}
					reported[f.Oracle] = true
					r.Violation(report.Violation{Oracle: f.Oracle, Key: fmt.Sprintf("%s scenario=%s choices=%v", f.Oracle, sc.Name, x.Choices()),
						Case: e3Case{Scenario: sc.Name, Choices: x.Choices(), Trace: explore.FormatTrace(x.Trace), Log: x.Log}, Note: f.Note, Repro: fmt.Sprintf("%d/5", repro)})
				}
				if sc.Teardown != nil {
					sc.Teardown(sys)
				}
			}
			return x
		}
		d.Check = func(*sched.S) {}
		d.Explore()
		st.Executions += d.Executions
		st.Points += d.Points
		if d.HarnessErr != "" && os.Getenv("VERIF_E3_DEBUG") != "" {
			// debugging aid: re-run the offending prefix and its parent, show the tail of the traces
			var pref []int
			fmt.Sscanf(d.HarnessErr, "replay of prefix %v", &pref)
			fmt.Println("DEBUG divergence:", d.HarnessErr)
			if d.LastPrefix != nil {
				for k := 0; k < 2; k++ {
					vsync.Debug = true
					x, sy := sc.runOnce(d.LastPrefix)
					vsync.Debug = false
					tr := explore.FormatTrace(x.Trace)
					fmt.Printf("DEBUG rerun %d of failing prefix: %d points\n", k, len(tr))
					_ = os.WriteFile(fmt.Sprintf("/var/tmp/dbg-log-%d.txt", k), []byte(strings.Join(x.Log, "\n")), 0o644)
					for _, l := range tr[max(0, len(tr)-8):] {
						fmt.Println("   ", l)
					}
					if sc.Teardown != nil {
						sc.Teardown(sy)
					}
				}
				x, sy := sc.runOnce(d.LastPrefix[:len(d.LastPrefix)-1])
				tr := explore.FormatTrace(x.Trace)
				fmt.Printf("DEBUG parent prefix: %d points\n", len(tr))
				for _, l := range tr[max(0, len(d.LastPrefix)-8):min(len(tr), len(d.LastPrefix)+3)] {
					fmt.Println("   ", l)
				}
				if sc.Teardown != nil {
					sc.Teardown(sy)
				}
			}
		}
		if d.HarnessErr != "" {
			fmt.Printf("HARNESS-NONDETERMINISM scenario=%s: %s\n", sc.Name, d.HarnessErr)
			r.Set("harness_nondeterminism", sc.Name+": "+d.HarnessErr)
			r.CapHit("harness nondeterminism in scenario " + sc.Name)
			return st
		}
		if stateful && sc.CrossCheck && !d.Truncated && d.HarnessErr == "" {
			// validate the abstraction: the same scenario, every interleaving, no state matching
			sfOut := map[string]bool{}
			for k := range st.Outcomes {
				sfOut[k] = true
			}
			all := map[string]bool{}
			type nodeInfo struct {
				key string
				out map[string]bool
			}
			nodes := map[string]*nodeInfo{} // node of the full interleaving tree (its choice prefix) -> state key, outcomes reachable below it
			d2 := &explore.DFS{Bound: -1, Deadline: time.Now().Add(e3UnboundedBudget)}
			d2.Run = func(prefix []int) *sched.S {
				sched.TrackState = true
				x, sys := sc.runOnceKeyed(prefix)
				sched.TrackState, sched.StateKeyFn = false, nil
				key := outcomeKey(x)
				if _, ok := explore.HasPanic(x); ok || x.Deadlock || x.Livelock || len(poolFaults(x)) > 0 || len(sc.Check(sys, x)) > 0 {
					key = "FAIL"
				}
				all[key] = true
				var id strings.Builder
				for i, p := range x.Trace {
					n := nodes[id.String()]
					if n == nil {
						n = &nodeInfo{key: p.StateKey, out: map[string]bool{}}
						nodes[id.String()] = n
					}
					n.out[key] = true
					fmt.Fprintf(&id, "%d,", x.Trace[i].Chosen)
				}
				if sc.Teardown != nil {
					sc.Teardown(sys)
				}
				return x
			}
			d2.Check = func(*sched.S) {}
			d2.Explore()
			st.XRan, st.XExec = true, d2.Executions
			if d2.Truncated || d2.HarnessErr != "" {
				st.XNote = "stateless cross-check not completed"
			} else {
				st.XOK = true
				for k := range all {
					if k != "FAIL" && !sfOut[k] {
						st.XOK = false
						st.XNote = "outcome seen by the stateless search but not by the stateful one: " + truncS(k, 200)
					}
				}
				for k := range sfOut {
					if !strings.HasPrefix(k, "FAIL:") && !all[k] {
						st.XOK = false
						st.XNote = "outcome seen by the stateful search but not by the stateless one: " + truncS(k, 200)
					}
				}
				// same key => same future: all nodes of the full tree that carry one state key
				// must have the same set of outcomes below them
				byKey := map[string]string{}
				for _, n := range nodes {
					var outs []string
					for o := range n.out {
						outs = append(outs, o)
					}
					sort.Strings(outs)
					sig := strings.Join(outs, "\x00")
					if prev, ok := byKey[n.key]; ok && prev != sig {
						st.XOK = false
						st.XNote = "two nodes of the interleaving tree with one state key have different sets of reachable outcomes (the key merges states with different futures)"
					}
					byKey[n.key] = sig
				}
				st.XNodes, st.XKeys = int64(len(nodes)), int64(len(byKey))
			}
		}
		if stateful {
			st.SfRan, st.SfComplete = true, !d.Truncated
			st.SfStates, st.SfTransitions, st.SfExec, st.SfPrun, st.SfDepth = int64(len(d.Visited)), d.Transitions, d.Executions, d.Pruned, d.MaxDepth
			break
		}
		if d.Truncated {
			st.Truncated = true
			if phases > maxBound+1 {
				ph = maxBound // a cap in a bounded phase does not cancel the unbounded one
				continue
			}
			break
		}
		st.BoundCompleted = bound
	}
	return st
}

// e3Unbounded switches the unbounded stateful phase on (set by the checks per tier);
// e3UnboundedBudget is its wall-clock cap per scenario (a run that hits it reports the phase
// as incomplete and still exits 0).
var (
	e3Unbounded       bool
	e3UnboundedBudget = 60 * time.Second
)

// runOnceKeyed is runOnce with the scenario's shared-state fingerprint installed as
// sched.StateKeyFn (the system only exists once Setup ran, hence the indirection).
func (sc *e3Scenario) runOnceKeyed(prefix []int) (*sched.S, any) {
	var sys any
	sched.StateKeyFn = func() string {
		if sys == nil {
			return ""
		}
		return sc.StateKey(sys)
	}
	setup := sc.Setup
	sc2 := *sc
	sc2.Setup = func() any { sys = setup(); return sys }
	return sc2.runOnce(prefix)
}

// poolFaults reports the pool-discipline marks the sync.Pool shim left in the execution log.
func poolFaults(x *sched.S) []e3Fail {
	for _, l := range x.Log {
		if i := strings.Index(l, "POOL-DOUBLE-PUT"); i >= 0 {
			return []e3Fail{{"pool-double-put", l[i:]}}
		}
		if i := strings.Index(l, "WAITGROUP-MISUSE"); i >= 0 {
			return []e3Fail{{"waitgroup-add-concurrent-with-wait", l[i:]}}
		}
	}
	return nil
}

// outcomeKey summarises what an execution observed (log lines marked "obs:").
func outcomeKey(x *sched.S) string {
	var obs []string
	for _, l := range x.Log {
		if i := strings.Index(l, "obs:"); i >= 0 {
			obs = append(obs, l[i+4:])
		}
	}
	return strings.Join(obs, "|")
}

// runScenarios explores every scenario, sharded over worker subprocesses is not needed: the
// scheduler is process-global, so scenarios run one after the other here; parallelism comes
// from check.sh running disjoint scenario groups in separate processes (VERIF_E3_SHARD).
func runScenarios(c *Ctx, scs []*e3Scenario, maxBound int, perScenario time.Duration, maxExec int64) {
	r := c.Run
	if c.Shards == 0 && len(scs) > 1 {
		if procs := e3Procs(len(scs)); procs > 1 {
			runScenariosSharded(c, len(scs), procs)
			return
		}
	}
	if c.Shards > 0 {
		var mine []*e3Scenario
		for i, sc := range scs {
			if i%c.Shards == c.Shard {
				mine = append(mine, sc)
			}
		}
		scs = mine
	}
	distinct := 0
	var sfScen, sfStates, sfTrans int64
	var sfDone, sfOpen []string
	var xchecks []map[string]any
	xbad := false
	minBound := 1 << 30
	var samples int
	for _, sc := range scs {
		if r.Expired() {
			r.CapHit("deadline reached before scenario " + sc.Name)
			break
		}
		dl := time.Now().Add(perScenario)
		if !r.Deadline.IsZero() && dl.After(r.Deadline) {
			dl = r.Deadline
		}
		bound := maxBound
		if sc.BoundCap > 0 && sc.BoundCap < bound {
			bound = sc.BoundCap
		}
		st := exploreScenario(r, sc, bound, dl, maxExec)
		r.Eval(st.Executions)
		r.AddTransitions(st.Points)
		r.AddStates(int64(len(st.Outcomes)))
		distinct += len(st.Outcomes)
		for k, v := range st.Outcomes {
			if strings.HasPrefix(k, "FAIL:") {
				continue
			}
			r.OutcomeN(sc.Name+": "+truncS(k, 160), v)
		}
		r.Distinct(sc.Name)
		for k := range st.Outcomes {
			r.Distinct(sc.Name + "|" + k)
		}
		if st.SfRan {
			sfScen++
			sfStates += st.SfStates
			sfTrans += st.SfTransitions
			if st.SfComplete {
				sfDone = append(sfDone, sc.Name)
			} else {
				sfOpen = append(sfOpen, sc.Name)
			}
			fmt.Printf("  scenario %-28s unbounded: states=%d transitions=%d executions=%d pruned=%d max_depth=%d complete=%v\n", sc.Name, st.SfStates, st.SfTransitions, st.SfExec, st.SfPrun, st.SfDepth, st.SfComplete)
			r.AddStates(st.SfStates)
			r.AddTransitions(st.SfTransitions)
		}
		if st.XRan {
			fmt.Printf("  scenario %-28s abstraction cross-check: stateless executions=%d agree=%v %s\n", sc.Name, st.XExec, st.XOK, st.XNote)
			xchecks = append(xchecks, map[string]any{"scenario": sc.Name, "stateless_executions_all_interleavings": st.XExec, "tree_nodes": st.XNodes, "distinct_state_keys": st.XKeys, "same_key_same_reachable_outcomes": st.XOK, "stateful_states": st.SfStates, "stateful_executions": st.SfExec, "same_outcome_set": st.XOK, "note": st.XNote})
			if !st.XOK {
				fmt.Printf("HARNESS-STATE-ABSTRACTION scenario=%s: %s\n", sc.Name, st.XNote)
				r.CapHit("state abstraction cross-check failed or incomplete in scenario " + sc.Name + ": " + st.XNote)
				xbad = true
			}
		}
		if st.Truncated {
			r.CapHit(fmt.Sprintf("scenario %s: execution/time cap hit while exploring preemption bound %d (bound %d completed)", sc.Name, st.BoundCompleted+1, st.BoundCompleted))
		}
		if st.BoundCompleted < minBound && sc.BoundCap == 0 {
			minBound = st.BoundCompleted
		}
		if samples < 12 {
			samples++
			r.Sample(map[string]any{"scenario": sc.Name, "what": sc.Desc, "schedules": st.Executions, "choice_points": st.Points, "distinct_outcomes": len(st.Outcomes), "preemption_bound_completed": st.BoundCompleted})
		}
		fmt.Printf("  scenario %-28s schedules=%-8d points=%-9d outcomes=%-4d bound_completed=%d truncated=%v\n", sc.Name, st.Executions, st.Points, len(st.Outcomes), st.BoundCompleted, st.Truncated)
	}
	if sfScen > 0 {
		if xbad {
			sfOpen, sfDone = append(sfOpen, sfDone...), nil // nothing the stateful phase says is believed
		}
		r.Set("unbounded_stateful_phase", map[string]any{"abstraction_cross_checks": xchecks, "scenarios": sfScen, "states": sfStates, "transitions": sfTrans, "all_interleavings_completed": sfDone, "stopped_at_time_cap": sfOpen,
			"note": "second phase after the preemption-bounded one: depth-first search over EVERY interleaving of the scenario (no preemption bound), not expanding a state twice; state key = per thread (labels of the points reached, values observed at atomic loads, environment answers, own log lines, parked-at operation) + hash of the ordered observation log + identity of every published snapshot and whether it still has the fingerprint it was published with; complete = every reachable state of the scenario was expanded and every maximal execution not cut at an already-expanded state was checked by the oracles; a scenario stopped at the time cap is not a failure"})
	}
	r.Set("preemption_bound_completed_all_scenarios", minBound)
	r.Set("preemption_bound_target", maxBound)
	r.AddValidated(r.Evaluations())
	r.Set("validation_note", "every schedule is executed on the real larking code (sync, sync/atomic, math/rand and go statements rewritten to the controlled scheduler by go build -overlay at check time); there is no separate model whose traces would need replaying")
}

func e3Procs(nScenarios int) int {
	p := runtime.NumCPU()
	if v, err := strconv.Atoi(os.Getenv("VERIF_E3_PROCS")); err == nil && v > 0 {
		p = v
	}
	if p > nScenarios {
		p = nScenarios
	}
	if p > 16 {
		p = 16
	}
	return p
}

// runScenariosSharded re-executes this binary as worker processes (the scheduler is
// process-global) and merges their partial results.
func runScenariosSharded(c *Ctx, nScenarios, procs int) {
	r := c.Run
	dir, err := os.MkdirTemp("/var/tmp", "verif-e3-")
	if err != nil {
		panic(err)
	}
	defer os.RemoveAll(dir)
	var wg sync.WaitGroup
	outs := make([]string, procs)
	errs := make([]error, procs)
	for i := 0; i < procs; i++ {
		i := i
		wg.Add(1)
		go func() {
			defer wg.Done()
			part := filepath.Join(dir, fmt.Sprintf("part-%d.json", i))
			cmd := exec.Command(os.Args[0], "check", r.ID, "--tier", c.Tier, "--root", report.Root, "--shard", fmt.Sprintf("%d/%d", i, procs), "--partial", part)
			cmd.Env = append(os.Environ(), "GOMAXPROCS=2", "VERIF_RACE_BIN=") // the race pass runs once, in the parent
			b, err := cmd.CombinedOutput()
			outs[i], errs[i] = string(b), err
		}()
	}
	wg.Wait()
	for i := 0; i < procs; i++ {
		fmt.Print(outs[i])
		if errs[i] != nil {
			fmt.Printf("worker %d failed: %v\n", i, errs[i])
			r.Set("worker_failure", fmt.Sprintf("worker %d: %v", i, errs[i]))
			r.CapHit(fmt.Sprintf("worker %d failed", i))
			continue
		}
		if err := r.MergePartial(filepath.Join(dir, fmt.Sprintf("part-%d.json", i))); err != nil {
			r.CapHit(fmt.Sprintf("worker %d: %v", i, err))
		}
	}
	r.Set("worker_processes", procs)
}
