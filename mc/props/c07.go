package props

import (
	"bytes"
	"fmt"
	"io"
	"net/http"
	"net/url"
	"sort"
	"strings"

	"google.golang.org/protobuf/encoding/protojson"
	"google.golang.org/protobuf/proto"
	"google.golang.org/protobuf/reflect/protoreflect"

	"verif/explore"
	"verif/ref/wire"
	"verif/report"
)

// C07 — a field bound by a path variable always carries the value captured from the path.

func init() {
	register(&Check{ID: "C07", Level: "exploration", Run: runC07, Replay: replayC07})
}

type c07Case struct {
	Field     string   `json:"field"`
	Rule      string   `json:"rule"` // pv (no body) | pb (body *) | pn (body nested)
	PathText  string   `json:"path_text"`
	PathVal   string   `json:"path_value"`
	Query     []string `json:"query"`      // "key=text" in order
	BodyVal   string   `json:"body_value"` // competing value placed in the body ("" = none)
	Codec     string   `json:"codec"`
	Extra     bool     `json:"extra_fields"`         // unrelated fields in query/body as well
	EmptyBody string   `json:"empty_body,omitempty"` // "" | "unknown-length" | "gzip": an announced body that delivers zero bytes (protobuf: the all-defaults message)
}

func (e *c03Env) c07Exec(tc *c07Case) (oracle, note string) {
	ref := e.byPath[tc.Field]
	vals := valuesOf(ref)
	find := func(name string) *textVal {
		for i := range vals {
			if vals[i].name == name {
				return &vals[i]
			}
		}
		return nil
	}
	pv := find(tc.PathVal)
	if pv == nil {
		return "harness", "unknown path value"
	}
	q := url.Values{}
	for _, kv := range tc.Query {
		k, v, _ := strings.Cut(kv, "=")
		q.Add(k, v)
	}
	idx := e.pathIdx[tc.Field]
	path := fmt.Sprintf("/c03/%s/f%d/%s", tc.Rule, idx, tc.PathText)
	verb := "POST"
	if tc.Rule == "pv" {
		verb = "GET"
	}
	hdr := http.Header{}
	var body []byte
	if tc.Rule != "pv" {
		bm := newComplexMsg()
		if tc.BodyVal != "" {
			bv := find(tc.BodyVal)
			if bv == nil {
				return "harness", "unknown body value"
			}
			setRef(bm, ref, bv.val)
		}
		if tc.Extra {
			setRef(bm, e.byPath["nested.uint32_value"], protoreflect.ValueOfUint32(77))
			if tc.Rule == "pb" {
				setRef(bm, e.byPath["uint32_value"], protoreflect.ValueOfUint32(78))
			}
		}
		var m proto.Message = bm.Interface()
		if tc.Rule == "pn" {
			nfd := complexDesc.Fields().ByName("nested")
			if bm.Has(nfd) {
				m = bm.Get(nfd).Message().Interface()
			} else {
				m = nil
			}
		}
		if m != nil {
			var err error
			if tc.Codec == "protobuf" {
				body, err = proto.Marshal(m)
				hdr.Set("Content-Type", "application/protobuf")
			} else {
				body, err = protojson.Marshal(m)
				hdr.Set("Content-Type", "application/json")
			}
			if err != nil {
				return "harness", err.Error()
			}
		}
	}
	req := &http.Request{Method: verb, URL: &url.URL{Path: path, RawQuery: q.Encode()}, Header: hdr, Proto: "HTTP/1.1", ProtoMajor: 1, ProtoMinor: 1, Host: "verif.test"}
	switch {
	case tc.EmptyBody == "unknown-length" && len(body) == 0:
		req.Body = io.NopCloser(bytes.NewReader(nil)) // chunked request with only the terminating chunk
		req.ContentLength = -1
	case tc.EmptyBody == "gzip" && len(body) == 0:
		gz := gzipBytes(nil)
		req.Body = io.NopCloser(bytes.NewReader(gz))
		req.ContentLength = int64(len(gz))
		hdr.Set("Content-Encoding", "gzip")
	case len(body) > 0:
		req.Body = io.NopCloser(bytes.NewReader(body))
		req.ContentLength = int64(len(body))
	default:
		req.Body = http.NoBody
	}
	e.impl.reset()
	res := serveReq(e.mux, req)
	if res.Panicked {
		return "panic", res.Panic
	}
	if e.impl.n == 0 {
		if res.Code < 400 {
			return "no-dispatch-no-error", fmt.Sprintf("status %d", res.Code)
		}
		return "", "rejected" // refusing the conflicting request keeps the path value authoritative
	}
	// read the bound field from the received message
	cur := e.impl.req.ProtoReflect()
	for i, fd := range ref.fds {
		if i == len(ref.fds)-1 {
			got := cur.Get(fd)
			want := pv.val
			if !valueEqual(fd, got, want) {
				return "path-value-replaced", fmt.Sprintf("%s: path says %q, handler got %v (query=%v body=%q)", tc.Field, tc.PathText, got, tc.Query, tc.BodyVal)
			}
			break
		}
		if !cur.Has(fd) {
			return "path-value-replaced", fmt.Sprintf("%s: parent message absent", tc.Field)
		}
		cur = cur.Get(fd).Message()
	}
	return "", "delivered"
}

func valueEqual(fd protoreflect.FieldDescriptor, a, b protoreflect.Value) bool {
	if fd.Kind() == protoreflect.MessageKind {
		return proto.Equal(a.Message().Interface(), b.Message().Interface())
	}
	if fd.Kind() == protoreflect.BytesKind {
		return bytes.Equal(a.Bytes(), b.Bytes())
	}
	return a.Interface() == b.Interface()
}

func c07Cases(e *c03Env, thorough bool) []c07Case {
	var out []c07Case
	for _, f := range c03PathFields(e.fields) {
		vals := valuesOf(f)
		// path-safe values with a different competing value
		var safe []int
		for i, v := range vals {
			if v.pathSafe[0] {
				safe = append(safe, i)
			}
		}
		if len(safe) == 0 || len(vals) < 2 {
			continue
		}
		if len(safe) > 2 && !thorough {
			safe = safe[:2]
		}
		isNested := strings.HasPrefix(f.path, "nested.")
		for _, pi := range safe {
			p := vals[pi]
			// competitors: every other value (first spelling)
			for ci, cv := range vals {
				if ci == pi {
					continue
				}
				other := vals[(ci+1)%len(vals)]
				spellings := cv.texts[:1]
				if thorough {
					spellings = cv.texts // every accepted spelling of the competing value
				}
				for _, ctext := range spellings {
					cv := cv
					cv.texts = []string{ctext}
					c07Competitors(&out, f, p, cv, other, isNested)
				}
			}
		}
	}
	return out
}

func c07Competitors(outp *[]c07Case, f fieldRef, p, cv, other textVal, isNested bool) {
	out := *outp
	defer func() { *outp = out }()
	{
		{
			{
				qs := [][]string{
					{f.path + "=" + cv.texts[0]},
					{f.json + "=" + cv.texts[0]},
					{f.path + "=" + cv.texts[0], f.path + "=" + other.texts[0]},
					{f.path + "=" + cv.texts[0], f.json + "=" + other.texts[0]},
					{"uint64_value=5", f.path + "=" + cv.texts[0], "string_list=zz"},
					{f.path + "=" + p.texts[0]}, // the same value again: must be harmless
					// a long query of mixed depth (more than a dozen parameters, nested ones among
					// them) around the competitor: whatever larking does to order or group the
					// parameters, the path capture stays last
					c07LongQuery(f.path, cv.texts[0], 0),
					c07LongQuery(f.path, cv.texts[0], 9),
					c07LongQuery(f.json, cv.texts[0], 16),
				}
				if md := f.leaf().Message(); md != nil && strings.HasSuffix(string(md.FullName()), "Value") && strings.HasPrefix(string(md.FullName()), "google.protobuf.") {
					// a wrapper bound in the path, attacked through its inner field
					qs = append(qs, []string{f.path + ".value=" + cv.texts[0]}, []string{f.json + ".value=" + cv.texts[0], "uint64_value=5"})
				}
				for _, rule := range []string{"pv", "pb", "pn"} {
					if rule == "pn" && false {
						continue
					}
					for _, q := range qs {
						out = append(out, c07Case{Field: f.path, Rule: rule, PathText: p.texts[0], PathVal: p.name, Query: q, Codec: "json"})
					}
					if rule == "pv" {
						continue
					}
					// a body is announced but delivers zero bytes - in protobuf the all-defaults message:
					// the path value (and nothing from the query competitor) is still bound
					for _, eb := range []string{"unknown-length", "gzip"} {
						out = append(out, c07Case{Field: f.path, Rule: rule, PathText: p.texts[0], PathVal: p.name, Codec: "protobuf", EmptyBody: eb},
							c07Case{Field: f.path, Rule: rule, PathText: p.texts[0], PathVal: p.name, Codec: "protobuf", EmptyBody: eb, Query: qs[0]})
					}
					// body competitor (pb: body "*"; pn: only nested.* fields live in the body)
					if rule == "pb" || isNested {
						for _, cd := range []string{"json", "protobuf"} {
							for _, extra := range []bool{false, true} {
								out = append(out, c07Case{Field: f.path, Rule: rule, PathText: p.texts[0], PathVal: p.name, BodyVal: cv.name, Codec: cd, Extra: extra})
								out = append(out, c07Case{Field: f.path, Rule: rule, PathText: p.texts[0], PathVal: p.name, BodyVal: cv.name, Codec: cd, Extra: extra, Query: qs[0]})
							}
						}
					} else {
						// body 'nested' is unrelated to a top-level path field: still query competitors with a body present
						out = append(out, c07Case{Field: f.path, Rule: rule, PathText: p.texts[0], PathVal: p.name, Codec: "json", Extra: true, Query: qs[1]})
					}
				}
			}
		}
	}
}

// c07LongQuery: 16 unrelated parameters (top-level scalars, repeated fields, nested fields)
// with the competitor key=val inserted at position at.
func c07LongQuery(key, val string, at int) []string {
	others := []string{"uint64_value=5", "string_list=zz", "nested.uint32_value=3", "sint32_value=2", "nested.sint64_value=-4", "fixed32_value=3",
		"bool_list=true", "string_list=yy", "nested.fixed64_value=8", "uint32_list=9", "sfixed64_value=4", "float_list=2.5", "nested.sfixed32_value=-1",
		"int64_list=6", "fixed64_value=11", "nested.fixed32_value=12"}
	var out []string
	for i, o := range others {
		if i == at {
			out = append(out, key+"="+val)
		}
		if strings.HasPrefix(o, key+"=") {
			continue // the unrelated parameters never name the field under test
		}
		out = append(out, o)
	}
	if at >= len(others) {
		out = append(out, key+"="+val)
	}
	return out
}

func runC07(c *Ctx) {
	r := c.Run
	r.Rule("every path-bindable field of ComplexRequest (15 scalar kinds, enum, wrappers; top-level and nested) × rules {no body, body '*', body 'nested'} × 2 captured values (thorough: every path-safe value) × every other boundary value as competitor (thorough: in every accepted spelling) delivered through the query (proto name, JSON name, twice, mixed, among other keys, inside 17-parameter queries of mixed nesting depth at three positions, same value again; wrappers also through their inner '.value' field), the body (JSON, protobuf, ± unrelated fields) and both; a WebSocket rule with a path variable and body '*' (6 things sent before the first message × whole/fragmented message × 3 queries); distinct = (field, rule, competitor channel) classes")
	r.Assume("a request that is refused with an error (status >= 400, handler not invoked) also keeps the path value authoritative")
	e0, err := newC03Env()
	if err != nil {
		panic(err)
	}
	cases := c07Cases(e0, c.Thorough())
	envs := make([]*c03Env, explore.Workers)
	explore.ParallelFor(len(cases), func() bool { return r.TooManyViolations() }, func(w, i int) {
		if envs[w] == nil {
			e, err := newC03Env()
			if err != nil {
				panic(err)
			}
			envs[w] = e
		}
		tc := &cases[i]
		oracle, note := envs[w].c07Exec(tc)
		r.Eval(1)
		ch := "query"
		if tc.BodyVal != "" {
			ch = "body"
			if len(tc.Query) > 0 {
				ch = "both"
			}
		}
		if oracle != "" {
			r.Outcome("FAIL:" + oracle)
			r.Violation(report.Violation{Oracle: oracle, Key: fmt.Sprintf("%s field=%s rule=%s path=%q query=%v body=%q codec=%s extra=%v empty-body=%q", oracle, tc.Field, tc.Rule, tc.PathText, tc.Query, tc.BodyVal, tc.Codec, tc.Extra, tc.EmptyBody), Case: *tc, Note: note})
		} else {
			r.Outcome(note)
			r.Distinct(tc.Field + "|" + tc.Rule + "|" + ch)
		}
		if r.WantSample() && i%1777 == 5 {
			r.Sample(*tc)
		}
	})
	c07WebSocket(c)
}

// c07WebSocket: the same law on a WebSocket rule with a path variable and body "*"
// (websocket /ws/pv/{s} on the bidi method): whatever the client sends before or inside its
// first message, the first message the handler receives carries the path value in s.
func c07WebSocket(c *Ctx) {
	r := c.Run
	ts, err := newTSchema()
	if err != nil {
		panic(err)
	}
	m, impl, err := ts.newMux()
	if err != nil {
		panic(err)
	}
	evil := []byte(`{"s":"from-body","b":"eA=="}`)
	ping := wire.WSClientFrame(true, 0x9, []byte("p"), [4]byte{1, 2, 3, 4})
	prefixes := map[string][]byte{
		"nothing":               nil,
		"an empty text frame":   wsText(nil),
		"two empty frames":      append(wsText(nil), wsText(nil)...),
		"a ping":                ping,
		"an empty object":       wsText([]byte(`{}`)),
		"an empty binary frame": wire.WSClientFrame(true, 0x2, nil, [4]byte{4, 3, 2, 1}),
	}
	var names []string
	for k := range prefixes {
		names = append(names, k)
	}
	sort.Strings(names)
	for _, pn := range names {
		for _, frag := range []int{1, 2} {
			for _, q := range []string{"", "s=from-query", "s=from-query&n=5"} {
				frames := append(append([]byte{}, prefixes[pn]...), wsFrag(evil, frag)...)
				frames = append(frames, wsClose(1000, "")...)
				impl.reset(hScript{RecvN: 3})
				res := doWS(m, "/ws/pv/from-path", q, nil, frames, nil)
				r.Eval(1)
				key := fmt.Sprintf("websocket path variable: first sends %s, then the message in %d frame(s), query %q", pn, frag, q)
				cs := map[string]any{"kind": "websocket", "route": "websocket /ws/pv/{s} body *", "before_first_message": pn, "frames_of_message": frag, "query": q}
				if res.Panicked {
					r.Violation(report.Violation{Oracle: "panic", Key: "panic " + key, Case: cs, Note: res.Panic})
					continue
				}
				bad := ""
				// only the first message of the stream is demanded (google.api.http does not say how
				// URL bindings apply to later messages of a stream; larking applies them to the first)
				if len(impl.log.Recv) > 0 {
					if sv := impl.log.Recv[0].ProtoReflect().Get(ts.req.Fields().ByName("s")).String(); sv != "from-path" {
						bad = fmt.Sprintf("the first message delivered to the handler has s=%q, the path says \"from-path\" (all: %v)", sv, impl.log.Recv)
					}
				}
				if bad != "" {
					r.Outcome("FAIL:path-value-replaced")
					r.Violation(report.Violation{Oracle: "path-value-replaced", Key: "path-value-replaced " + key, Case: cs, Note: bad})
					continue
				}
				if len(impl.log.Recv) == 0 {
					r.Outcome("websocket:rejected")
				} else {
					r.Outcome("websocket:delivered")
				}
				r.Distinct("websocket|" + pn)
			}
		}
	}
}

func replayC07(c *Ctx, v report.Violation) {
	if strings.Contains(v.Key, "websocket path variable") {
		sub := *c
		sub.Run = report.NewRun("C07", "quick", 0, "exploration")
		c07WebSocket(&sub)
		fmt.Printf("replay: websocket family re-run -> %d violations\n", sub.Run.NumViolations())
		if sub.Run.NumViolations() > 0 {
			c.Run.Violation(report.Violation{Oracle: v.Oracle, Key: v.Key, Case: v.Case, Note: "still violated"})
		}
		return
	}
	var tc c07Case
	if !remarshal(v.Case, &tc) {
		fmt.Println("replay: cannot decode case")
		return
	}
	e, err := newC03Env()
	if err != nil {
		panic(err)
	}
	oracle, note := e.c07Exec(&tc)
	fmt.Printf("replay: field=%s rule=%s path=%q query=%v body=%q -> oracle=%q %s\n", tc.Field, tc.Rule, tc.PathText, tc.Query, tc.BodyVal, oracle, note)
	if oracle != "" {
		c.Run.Violation(report.Violation{Oracle: oracle, Key: v.Key, Case: tc, Note: note})
	}
}
