package props

import (
	"context"
	"fmt"
	"os"
	"regexp"
	"strings"
	"sync"
	"time"

	"github.com/anishathalye/porcupine"
	"google.golang.org/grpc"
	"google.golang.org/protobuf/reflect/protoreflect"

	"larking.io/larking"

	"verif/dyn"
	"verif/env"
	"verif/report"
	"verif/sched"
	"verif/shim/vatomic"
)

// C12 — registration is atomic with respect to concurrent serving.

func init() {
	register(&Check{ID: "C12", Level: "model_checking", NeedsSched: true, Run: runC12, Replay: replayE3(c12Scenarios)})
	raceScenarios["C12"] = c12Scenarios
}

// c12Sys is one fresh system: a mux already serving local S1; writers add / remove S2 and a
// service S3 whose registration fails half-way.
type c12Sys struct {
	w     *bWorld
	mux   *larking.Mux
	local *tagImpl
	s2    *tagImpl
	b3    *env.Backend
	gsd2  *grpc.ServiceDesc
	bad   *grpc.ServiceDesc

	hmu         sync.Mutex
	ops         []porcupine.Operation
	clock       int64
	snaps       []snapRec
	failures    []string
	initFP      string
	finalProbed bool
	snapID      map[any]string // snapshot -> canonical id of the Store that published it (thread.step)
}

var c12PtrRe = regexp.MustCompile(`0x[0-9a-f]+`)

// c12StateKey is the shared-state part of the state key of the unbounded phase: the published
// snapshots in publication order (who published each, its fingerprint at publication with
// pointers renamed to their order of first appearance, whether it still has that
// fingerprint) and which one is current.
func c12StateKey(sys any) string {
	s := sys.(*c12Sys)
	var b strings.Builder
	for _, sn := range s.snaps {
		now := larking.VerifFingerprint(sn.snap)
		fmt.Fprintf(&b, "%s|%v|%s\n", s.snapID[sn.snap], now == sn.fp, now)
	}
	fmt.Fprintf(&b, "cur=%s", s.snapID[s.snaps[len(s.snaps)-1].snap]) // the last Store is the current value (the hook runs at the Store itself)
	names := map[string]int{}
	return c12PtrRe.ReplaceAllStringFunc(b.String(), func(p string) string {
		if _, ok := names[p]; !ok {
			names[p] = len(names)
		}
		return fmt.Sprintf("#%d", names[p])
	})
}

type snapRec struct {
	snap any
	fp   string
}

// badSchema: service vb.S3 whose second method carries a rule on an unknown field, so the
// registration fails after the first method's routes were added to the working copy.
var c12World *bWorld
var c12Bad *grpc.ServiceDesc
var c12GSD2 *grpc.ServiceDesc
var c12GSD4 *grpc.ServiceDesc // vb.S4: a fourth, well-formed local service no back-end offers

func c12Init() {
	if c12World != nil {
		return
	}
	w := newBWorld()
	f := dyn.File{Name: "vb/s3.proto", Pkg: "vb", Deps: []protoreflect.FileDescriptor{w.msgs}, Services: []dyn.Service{{Name: "S3", Methods: []dyn.Method{
		{Name: "M1", In: "Req", Out: "Rsp", Rule: &dyn.Rule{Kind: "get", Path: "/s3/{s}"}},
		{Name: "M2", In: "Req", Out: "Rsp", Rule: &dyn.Rule{Kind: "get", Path: "/s3bad/{nosuchfield}"}},
	}}}}
	fd, _, err := f.Build()
	if err != nil {
		panic(err)
	}
	if err := w.reg.RegisterFile(fd); err != nil {
		panic(err)
	}
	f4 := dyn.File{Name: "vb/s4.proto", Pkg: "vb", Deps: []protoreflect.FileDescriptor{w.msgs}, Services: []dyn.Service{{Name: "S4", Methods: []dyn.Method{
		{Name: "M1", In: "Req", Out: "Rsp", Rule: &dyn.Rule{Kind: "get", Path: "/s4/{s}"}},
	}}}}
	fd4, _, err := f4.Build()
	if err != nil {
		panic(err)
	}
	if err := w.reg.RegisterFile(fd4); err != nil {
		panic(err)
	}
	c12GSD4 = dyn.ServiceDesc(fd4.Services().Get(0))
	c12Bad = dyn.ServiceDesc(fd.Services().Get(0))
	c12GSD2 = dyn.ServiceDesc(w.f2.Services().Get(0))
	c12World = w
}

func newC12Sys(pre string) *c12Sys {
	preB3 := strings.Contains(pre, "b3")
	c12Init()
	w := c12World
	m, err := larking.NewMux(larking.FilesOption(w.reg))
	if err != nil {
		panic(err)
	}
	s := &c12Sys{w: w, mux: m, local: &tagImpl{tag: "local", w: w}, s2: &tagImpl{tag: "s2local", w: w}, gsd2: c12GSD2, bad: c12Bad}
	if err := m.VerifRegisterService(w.gsd1, dyn.NewServer(s.local)); err != nil {
		panic(err)
	}
	s.b3 = w.newBackend("b3", []protoreflect.FileDescriptor{w.f2}, []string{"vb.S2"})
	regS2 := func() {
		if err := m.VerifRegisterService(s.gsd2, dyn.NewServer(s.s2)); err != nil {
			panic(err)
		}
	}
	if pre == "s2,b3" {
		regS2()
	}
	if preB3 {
		if err := m.RegisterConn(context.Background(), s.b3.Conn()); err != nil {
			panic(err)
		}
	}
	if pre == "b3,s2" {
		regS2()
	}
	s.initFP = larking.VerifFingerprint(m.VerifSnapshot())
	s.snaps = []snapRec{{m.VerifSnapshot(), s.initFP}}
	return s
}

// ---- history recording -------------------------------------------------------------------

type c12In struct {
	Op  string // regS2 regBad regB3 dropB3 req
	Svc string // req: S1 S2 S3
	Via string
}
type c12Out struct {
	Served string // req: owner tag or "" (unserved)
	Res    string // ops: "ok" "error" "true" "false"
}

func (s *c12Sys) tick() int64 {
	s.hmu.Lock() // a real mutex: only matters in the free-running -race pass
	defer s.hmu.Unlock()
	s.clock++
	return s.clock
}

func (s *c12Sys) record(client int, in c12In, fn func() c12Out) {
	call := s.tick()
	sched.Logf("call:%d %s %s", client, in.Op, in.Svc+in.Via)
	out := fn()
	ret := s.tick()
	s.hmu.Lock()
	s.ops = append(s.ops, porcupine.Operation{ClientId: client, Input: in, Call: call, Output: out, Return: ret})
	s.hmu.Unlock()
	sched.Logf("obs:%d %s %s -> %s%s", client, in.Op, in.Svc+in.Via, out.Served, out.Res)
}

func (s *c12Sys) request(client int, svc, via string) {
	s.record(client, c12In{Op: "req", Svc: svc, Via: via}, func() c12Out {
		for _, pr := range s.w.allProbes() {
			if pr.svc == svc && pr.via == via {
				served, code, pan := pr.run(s.mux)
				if pan != "" {
					s.hmu.Lock()
					s.failures = append(s.failures, "panic in request: "+pan)
					s.hmu.Unlock()
				}
				_ = code
				return c12Out{Served: served}
			}
		}
		panic("no probe " + svc + via)
	})
}

// state of the sequential specification
type c12State struct {
	S2Local bool
	B3      bool
	S4      bool
}

var c12Model = porcupine.Model{
	Init: func() interface{} { return c12State{} },
	Step: func(st, in, out interface{}) (bool, interface{}) {
		s := st.(c12State)
		i := in.(c12In)
		o := out.(c12Out)
		switch i.Op {
		case "regS2":
			s.S2Local = true
			return o.Res == "ok", s
		case "regS4":
			s.S4 = true
			return o.Res == "ok", s
		case "regBad":
			return o.Res == "error", s
		case "regB3":
			s.B3 = true
			return o.Res == "ok", s
		case "dropB3":
			was := s.B3
			s.B3 = false
			return o.Res == fmt.Sprint(was), s
		case "req":
			var owners []string
			switch i.Svc {
			case "S1":
				owners = []string{"local"}
			case "S4":
				if s.S4 {
					owners = []string{"s4local"}
				}
			case "S2":
				if s.S2Local {
					owners = append(owners, "s2local")
				}
				if s.B3 {
					owners = append(owners, "b3")
				}
			}
			if len(owners) == 0 {
				return o.Served == "", s
			}
			for _, w := range owners {
				if w == o.Served {
					return true, s
				}
			}
			return false, s
		}
		return false, s
	},
	Equal: func(a, b interface{}) bool { return a == b },
	DescribeOperation: func(in, out interface{}) string {
		return fmt.Sprintf("%+v -> %+v", in, out)
	},
}

// probes with a "via" tag
type c12Probe struct {
	c11Probe
	via string
}

func (w *bWorld) allProbes() []c12Probe {
	var out []c12Probe
	base := w.probes()
	for _, p := range base {
		via := "/route"
		switch {
		case strings.Contains(p.name, "(implicit)"):
			via = "/implicit"
		case strings.HasPrefix(p.name, "gRPC"):
			via = "/grpc"
		case strings.Contains(p.name, "other verb"):
			via = "/delete"
		case strings.Contains(p.name, "additional binding"):
			via = "/alt"
		}
		out = append(out, c12Probe{p, via})
	}
	out = append(out, c12Probe{c11Probe{name: "GET /s4/x", svc: "S4", run: func(m httpHandler) (string, int, string) {
		r := serveSimple(m, "GET", "/s4/x", "")
		if r.Panicked {
			return "", 0, r.Panic
		}
		if r.Code == 200 {
			return "s4local", 200, ""
		}
		return "", r.Code, ""
	}}, "/route"})
	// S3 (never successfully registered)
	out = append(out, c12Probe{c11Probe{name: "GET /s3/x", svc: "S3", run: func(m httpHandler) (string, int, string) {
		r := serveSimple(m, "GET", "/s3/x", "")
		if r.Panicked {
			return "", 0, r.Panic
		}
		if r.Code == 200 {
			return "s3", 200, ""
		}
		return "", r.Code, ""
	}}, "/route"},
		c12Probe{c11Probe{name: "POST /vb.S3/M1", svc: "S3", run: func(m httpHandler) (string, int, string) {
			r := serveSimple(m, "POST", "/vb.S3/M1", "")
			if r.Panicked {
				return "", 0, r.Panic
			}
			if r.Code == 200 {
				return "s3", 200, ""
			}
			return "", r.Code, ""
		}}, "/implicit"})
	return out
}

// ---- scenarios ---------------------------------------------------------------------------

type c12Op struct {
	op  string
	svc string
	via string
}

func c12Thread(client int, name string, ops []c12Op) e3Thread {
	return e3Thread{Name: name, Body: func(sys any) {
		s := sys.(*c12Sys)
		for _, o := range ops {
			switch o.op {
			case "req":
				s.request(client, o.svc, o.via)
			case "regS2":
				s.record(client, c12In{Op: "regS2"}, func() c12Out {
					if err := s.mux.VerifRegisterService(s.gsd2, dyn.NewServer(s.s2)); err != nil {
						return c12Out{Res: "error"}
					}
					return c12Out{Res: "ok"}
				})
			case "regS4":
				s.record(client, c12In{Op: "regS4"}, func() c12Out {
					if err := s.mux.VerifRegisterService(c12GSD4, dyn.NewServer(&tagImpl{tag: "s4local", w: s.w})); err != nil {
						return c12Out{Res: "error"}
					}
					return c12Out{Res: "ok"}
				})
			case "regBad":
				s.record(client, c12In{Op: "regBad"}, func() c12Out {
					if err := s.mux.VerifRegisterService(s.bad, dyn.NewServer(s.s2)); err != nil {
						return c12Out{Res: "error"}
					}
					return c12Out{Res: "ok"}
				})
			case "regB3":
				s.record(client, c12In{Op: "regB3"}, func() c12Out {
					if err := s.mux.RegisterConn(context.Background(), s.b3.Conn()); err != nil {
						return c12Out{Res: "error"}
					}
					return c12Out{Res: "ok"}
				})
			case "dropB3":
				s.record(client, c12In{Op: "dropB3"}, func() c12Out {
					return c12Out{Res: fmt.Sprint(s.mux.DropConn(context.Background(), s.b3.Conn()))}
				})
			}
		}
	}}
}

func c12Check(pre string) func(sys any, x *sched.S) []e3Fail {
	initB3 := strings.Contains(pre, "b3")
	initS2 := strings.Contains(pre, "s2")
	return func(sys any, x *sched.S) []e3Fail {
		s := sys.(*c12Sys)
		var fails []e3Fail
		for _, f := range s.failures {
			fails = append(fails, e3Fail{"request-panic", f})
		}
		// L1: every snapshot ever published still has the fingerprint it was published with
		for i, sn := range s.snaps {
			if now := larking.VerifFingerprint(sn.snap); now != sn.fp {
				fails = append(fails, e3Fail{"published-snapshot-mutated", fmt.Sprintf("snapshot #%d changed after publication:\n was %s\n now %s", i, truncS(sn.fp, 400), truncS(now, 400))})
				break
			}
		}
		// final state: once every thread has returned, one more request per service joins the
		// history (it starts after every other operation returned, so it must be explained by
		// the state all completed writers leave behind: a lost registration shows here even if
		// no concurrent reader happened to look)
		if !s.finalProbed {
			s.finalProbed = true
			for _, svc := range []string{"S1", "S2", "S3", "S4"} {
				s.request(90, svc, "/route")
			}
		}
		// linearizability against the registry specification
		model := c12Model
		if initB3 || initS2 {
			model.Init = func() interface{} { return c12State{B3: initB3, S2Local: initS2} }
		}
		if res := porcupine.CheckOperations(model, s.ops); !res {
			var h []string
			for _, o := range s.ops {
				h = append(h, fmt.Sprintf("client %d [%d,%d] %+v -> %+v", o.ClientId, o.Call, o.Return, o.Input, o.Output))
			}
			fails = append(fails, e3Fail{"not-linearizable", "no sequential order of the registry specification explains this history:\n" + strings.Join(h, "\n")})
		}
		// a failed registration changes nothing: if no successful writer ran, the final snapshot equals the initial one
		onlyFailing := true
		for _, o := range s.ops {
			in := o.Input.(c12In)
			out := o.Output.(c12Out)
			if in.Op != "req" && in.Op != "regBad" && !(in.Op == "dropB3" && out.Res == "false") {
				onlyFailing = false
			}
			if in.Op == "regBad" && out.Res != "error" {
				fails = append(fails, e3Fail{"bad-registration-accepted", ""})
			}
		}
		if onlyFailing {
			if fp := larking.VerifFingerprint(s.mux.VerifSnapshot()); fp != s.initFP {
				fails = append(fails, e3Fail{"failed-registration-changed-state", fmt.Sprintf("was %s\nnow %s", truncS(s.initFP, 300), truncS(fp, 300))})
			}
		}
		return fails
	}
}

func c12Scenarios(thorough bool) []*e3Scenario {
	mk := func(name, desc string, pre string, threads ...e3Thread) *e3Scenario {
		return &e3Scenario{Name: name, Desc: desc, Threads: threads, PoolPoints: false,
			Setup: func() any {
				s := newC12Sys(pre)
				s.snapID = map[any]string{s.snaps[0].snap: "pre"}
				vatomic.StoreHook = func(v any) {
					s.snaps = append(s.snaps, snapRec{v, larking.VerifFingerprint(v)})
					s.snapID[v] = fmt.Sprintf("t%d.%d", sched.ThreadID(), sched.ThreadSteps())
				}
				vatomic.LoadHook = func(v any) { sched.Observe("load " + s.snapID[v]) }
				return s
			},
			Check:    c12Check(pre),
			StateKey: c12StateKey,
			Teardown: func(sys any) { vatomic.StoreHook, vatomic.LoadHook = nil, nil; sys.(*c12Sys).b3.Conn().Close() },
		}
	}
	rq := func(svc, via string) c12Op { return c12Op{"req", svc, via} }
	scs := []*e3Scenario{
		mk("register-vs-2-readers", "RegisterService(S2) while one reader asks S2 by route then implicit route and another asks S2 by gRPC then S1", "",
			c12Thread(0, "writer", []c12Op{{op: "regS2"}}),
			c12Thread(1, "reader1", []c12Op{rq("S2", "/route"), rq("S2", "/implicit")}),
			c12Thread(2, "reader2", []c12Op{rq("S2", "/grpc"), rq("S1", "/route")})),
		mk("failing-registration", "a registration that fails on its second method while readers probe S1 and the half-registered S3", "",
			c12Thread(0, "writer", []c12Op{{op: "regBad"}}),
			c12Thread(1, "reader1", []c12Op{rq("S3", "/route"), rq("S1", "/route")}),
			c12Thread(2, "reader2", []c12Op{rq("S3", "/implicit"), rq("S1", "/grpc")})),
		mk("registerconn-vs-readers", "RegisterConn(b3:S2) (reflection against the scripted back-end) while readers ask S2 and S1", "",
			c12Thread(0, "writer", []c12Op{{op: "regB3"}}),
			c12Thread(1, "reader1", []c12Op{rq("S2", "/implicit"), rq("S2", "/route")}),
			c12Thread(2, "reader2", []c12Op{rq("S1", "/implicit"), rq("S2", "/grpc")})),
		mk("dropconn-vs-readers", "DropConn(b3) of a registered connection while readers ask S2 twice and S1", "b3",
			c12Thread(0, "writer", []c12Op{{op: "dropB3"}}),
			c12Thread(1, "reader1", []c12Op{rq("S2", "/route"), rq("S2", "/route")}),
			c12Thread(2, "reader2", []c12Op{rq("S2", "/grpc"), rq("S1", "/route")})),
		mk("two-writers", "RegisterService(S2) and RegisterConn(b3:S2) race (two owners of S2) while a reader asks S2 three ways", "",
			c12Thread(0, "writer1", []c12Op{{op: "regS2"}}),
			c12Thread(1, "writer2", []c12Op{{op: "regB3"}}),
			c12Thread(2, "reader", []c12Op{rq("S2", "/route"), rq("S2", "/implicit"), rq("S2", "/grpc")})),
		mk("register-then-drop", "one writer registers b3 and drops it again, another fails a registration, a reader asks S2 twice and S1", "",
			c12Thread(0, "writer1", []c12Op{{op: "regB3"}, {op: "dropB3"}}),
			c12Thread(1, "writer2", []c12Op{{op: "regBad"}}),
			c12Thread(2, "reader", []c12Op{rq("S2", "/route"), rq("S2", "/route"), rq("S1", "/implicit")})),
	}
	scs = append(scs,
		mk("drop-vs-register", "DropConn(b3) of a registered connection races with RegisterService(S2): neither update may be lost", "b3",
			c12Thread(0, "writer1", []c12Op{{op: "dropB3"}}),
			c12Thread(1, "writer2", []c12Op{{op: "regS2"}}),
			c12Thread(2, "reader", []c12Op{rq("S2", "/route"), rq("S2", "/grpc")})),
		mk("registerconn-vs-register-other", "RegisterConn(b3:S2), with its reflection round trips, races with RegisterService(S4) of an unrelated local service: the registration that finishes first must survive the other's publication", "",
			c12Thread(0, "writer1", []c12Op{{op: "regB3"}}),
			c12Thread(1, "writer2", []c12Op{{op: "regS4"}}),
			c12Thread(2, "reader", []c12Op{rq("S4", "/route"), rq("S2", "/implicit")})),
		mk("drop-older-of-two-owners", "S2 is served by b3 (registered first) and a local service; DropConn(b3) runs while readers ask S2", "b3,s2",
			c12Thread(0, "writer", []c12Op{{op: "dropB3"}}),
			c12Thread(1, "reader1", []c12Op{rq("S2", "/route"), rq("S2", "/implicit")}),
			c12Thread(2, "reader2", []c12Op{rq("S2", "/grpc"), rq("S2", "/route")})),
		mk("drop-newer-of-two-owners", "S2 is served by a local service (registered first) and b3; DropConn(b3) then RegisterConn(b3) again while a reader asks S2", "s2,b3",
			c12Thread(0, "writer", []c12Op{{op: "dropB3"}, {op: "regB3"}}),
			c12Thread(1, "reader1", []c12Op{rq("S2", "/route"), rq("S2", "/grpc")}),
			c12Thread(2, "reader2", []c12Op{rq("S2", "/implicit"), rq("S1", "/route")})))
	mini := mk("mini-register-vs-reader", "RegisterService(S2) while one reader asks S2 twice (small enough for a stateless search over every interleaving: cross-check of the state abstraction)", "",
		c12Thread(0, "writer", []c12Op{{op: "regS2"}}),
		c12Thread(1, "reader1", []c12Op{rq("S2", "/route"), rq("S2", "/grpc")}))
	mini.CrossCheck = true
	mini2 := mk("mini-drop-vs-reader", "DropConn(b3) while one reader asks S2 and S1 (cross-check of the state abstraction on the removal path)", "b3",
		c12Thread(0, "writer", []c12Op{{op: "dropB3"}}),
		c12Thread(1, "reader", []c12Op{rq("S2", "/route"), rq("S1", "/route"), rq("S2", "/implicit")}))
	mini2.CrossCheck = true
	scs = append(scs, mini, mini2)
	if thorough {
		scs = append(scs,
			mk("two-writers-two-readers", "RegisterService(S2) and DropConn(b3) race while two readers ask", "b3",
				c12Thread(0, "writer1", []c12Op{{op: "regS2"}}),
				c12Thread(1, "writer2", []c12Op{{op: "dropB3"}}),
				c12Thread(2, "reader1", []c12Op{rq("S2", "/route"), rq("S2", "/implicit")}),
				c12Thread(3, "reader2", []c12Op{rq("S2", "/grpc"), rq("S1", "/route")})))
	}
	return scs
}

func runC12(c *Ctx) {
	r := c.Run
	bound, per, maxExec := 2, 40*time.Second, int64(0)
	e3Unbounded, e3UnboundedBudget = true, 25*time.Second
	if c.Thorough() {
		bound, per = 4, 6*time.Minute
		e3UnboundedBudget = 10 * time.Minute
	}
	if os.Getenv("VERIF_E3_ONLY_UNBOUNDED") != "" {
		bound = -1 // demonstration knob: skip the preemption-bounded phases, the unbounded stateful search alone decides
	}
	r.Rule(fmt.Sprintf("scenarios of 3-4 controlled threads (writers: RegisterService, a registration failing on its second method, RegisterConn, DropConn; readers: 2-3 requests each over rule route / implicit route / gRPC for S1, S2, S3) on the real Mux; every interleaving of the scheduling points (Mutex lock/unlock, atomic.Value Load/Store, WaitGroup ops) with at most %d preemptions, bounds iterated from 0; oracles per schedule: porcupine linearizability of the call/return history (plus one request per service issued after all threads returned) against the registry specification, immutability of every published snapshot (fingerprint at Store time vs. end of schedule), a failing registration leaves the snapshot fingerprint unchanged, no panic, no deadlock; distinct = (scenario, observed outcome vector)", bound))
	r.Assume("unsynchronised accesses between scheduling points are not interleaved by the explorer; they are covered by the published-snapshot immutability monitor and by the separate free-running -race pass", "pool operations are not scheduling points in C12 scenarios (C13 covers them)")
	runScenarios(c, c12Scenarios(c.Thorough()), bound, per, maxExec)
	if c.Shards == 0 {
		racePass(c, "C12")
	}
}

// replayE3 builds a replayer for scheduler scenarios.
func replayE3(gen func(thorough bool) []*e3Scenario) func(c *Ctx, v report.Violation) {
	return func(c *Ctx, v report.Violation) {
		var tc e3Case
		if !remarshal(v.Case, &tc) {
			fmt.Println("replay: cannot decode case")
			return
		}
		for _, sc := range append(gen(true), gen(false)...) {
			if sc.Name != tc.Scenario {
				continue
			}
			x, sys := sc.runOnce(tc.Choices)
			fmt.Printf("replay: scenario=%s choices=%v\n", sc.Name, tc.Choices)
			for _, l := range x.Log {
				fmt.Println("  ", l)
			}
			var fails []e3Fail
			if l, ok := explorePanic(x); ok {
				fails = append(fails, e3Fail{"panic", l})
			}
			if x.Deadlock {
				fails = append(fails, e3Fail{"deadlock", x.DeadInfo})
			}
			if len(fails) == 0 {
				fails = sc.Check(sys, x)
			}
			if sc.Teardown != nil {
				sc.Teardown(sys)
			}
			for _, f := range fails {
				fmt.Printf("replay: %s: %s\n", f.Oracle, truncS(f.Note, 600))
				c.Run.Violation(report.Violation{Oracle: f.Oracle, Key: v.Key, Case: tc, Note: f.Note})
			}
			return
		}
		fmt.Println("replay: unknown scenario", tc.Scenario)
	}
}
