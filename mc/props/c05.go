package props

import (
	"bytes"
	"encoding/json"
	"fmt"
	"net/http"
	"strings"
	"unicode/utf8"

	"google.golang.org/grpc/codes"
	"google.golang.org/grpc/metadata"
	"google.golang.org/grpc/status"
	"google.golang.org/protobuf/encoding/protojson"
	"google.golang.org/protobuf/proto"
	"google.golang.org/protobuf/types/known/anypb"
	"google.golang.org/protobuf/types/known/durationpb"
	"google.golang.org/protobuf/types/known/wrapperspb"

	"verif/explore"
	"verif/ref/wire"
	"verif/report"
)

// C05 — status and error fidelity on every protocol.

func init() {
	register(&Check{ID: "C05", Level: "exploration", Run: runC05, Replay: replayC05})
}

type c05Case struct {
	Proto   string `json:"proto"` // http-json http-proto twirp-json twirp-proto grpc grpc+proto grpc+json web web+json webtext webtext+proto ws
	Shape   string `json:"shape"` // unary cs ss bidi
	Code    uint32 `json:"code"`
	Message string `json:"message"`
	Details int    `json:"details"`
	After   int    `json:"after_replies"`
	SendHdr bool   `json:"handler_calls_SendHeader_first,omitempty"` // the handler sends its headers, then fails
	Plain   bool   `json:"plain_response_writer,omitempty"`          // the ResponseWriter offers Header/Write/WriteHeader only (no Flush, no Hijack)
}

var c05Codes = []uint32{1, 2, 3, 4, 5, 6, 7, 8, 9, 10, 11, 12, 13, 14, 15, 16, 17, 18, 100, 1 << 31, 1<<32 - 1}

func c05Messages(thorough bool) []string {
	alpha := []string{"a", "%", " ", "\n", "é"}
	depth := 3
	if thorough {
		// plus DEL, NUL, a 4-byte rune, '+' and a hex digit (so that "%4" + "1"-like sequences and
		// escapes adjacent to multi-byte runes are all formed), to depth 4
		alpha = append(alpha, "\x7f", "\x00", "😀", "+", "4")
		depth = 4
	}
	var out []string
	var rec func(cur string, d int)
	rec = func(cur string, d int) {
		out = append(out, cur)
		if d == depth {
			return
		}
		for _, a := range alpha {
			rec(cur+a, d+1)
		}
	}
	rec("", 0)
	out = append(out, "%41", "100%", "%%", "日本語", "\x7f", "a\tb", "\x01", strings.Repeat("x", 200), "tab\there: 50% done, né?")
	for n := 119; n <= 126; n++ {
		out = append(out, strings.Repeat("y", n-1)+"é") // multi-byte rune on the close-frame boundary
		out = append(out, strings.Repeat("y", n))
	}
	return out
}

func c05Details(n int) []proto.Message {
	// the third detail is large (a stack trace, say): 3 KiB
	ds := []proto.Message{wrapperspb.String("detail-one"), durationpb.New(1500000000), wrapperspb.String(strings.Repeat("at frame.go:1\n", 220))}
	return ds[:n]
}

// c05Anys: the details as they travel. n == 4: a known detail followed by one of a type nobody
// here has a descriptor for (a proxy relays such details from its back-ends all the time).
func c05Anys(n int) []*anypb.Any {
	var out []*anypb.Any
	if n == 4 {
		a, _ := anypb.New(wrapperspb.String("detail-one"))
		return []*anypb.Any{a, {TypeUrl: "type.googleapis.com/verif.unknown.Detail", Value: []byte{0x0a, 0x03, 'a', 'b', 'c', 0x10, 0x07}}}
	}
	for _, d := range c05Details(n) {
		a, err := anypb.New(d)
		if err != nil {
			panic(err)
		}
		out = append(out, a)
	}
	return out
}

func c05Err(tc *c05Case) error {
	st := status.New(codes.Code(tc.Code), tc.Message)
	if tc.Details > 0 {
		p := st.Proto()
		p.Details = append(p.Details, c05Anys(tc.Details)...)
		st = status.FromProto(p)
	}
	return st.Err()
}

type c05Env struct {
	t    *tSchema
	mux  http.Handler
	impl *tImpl
}

func newC05Env() *c05Env {
	t, err := newTSchema()
	if err != nil {
		panic(err)
	}
	m, impl, err := t.newMux()
	if err != nil {
		panic(err)
	}
	return &c05Env{t: t, mux: m, impl: impl}
}

var shapeMethod = map[string]string{"unary": "Unary", "cs": "CS", "ss": "SS", "bidi": "Bidi"}
var shapeRoute = map[string]string{"unary": "/t/unary", "cs": "/t/cs", "ss": "/t/ss", "bidi": "/t/bidi"}

func (e *c05Env) exec(tc *c05Case) (oracle, note string) {
	herr := c05Err(tc)
	var replies []proto.Message
	for i := 0; i < tc.After; i++ {
		replies = append(replies, e.t.newRsp(fmt.Sprintf("r%d", i), nil, int32(i+1)))
	}
	recvN := -1
	if tc.Proto == "ws" {
		// The client keeps the socket open until the server closes it (a client-initiated
		// close would be echoed with its own code before the status exists), so the handler
		// reads exactly the one message that is sent.
		recvN = 1
	}
	hs := hScript{RecvN: recvN, Replies: replies, Err: herr, ErrAfter: tc.After}
	if tc.SendHdr {
		hs.SendHdr = metadata.Pairs("x-early", "1")
		hs.SendHdrNow = true
	}
	e.impl.reset(hs)
	reqMsg := e.t.newReq("q", nil, 1)
	pb, _ := proto.Marshal(reqMsg)
	js, _ := protojson.Marshal(reqMsg)
	full := "/vs.T/" + shapeMethod[tc.Shape]
	var res *callResult
	var mux http.Handler = e.mux
	if tc.Plain {
		mux = plainMux{e.mux}
	}
	switch tc.Proto {
	case "http-json":
		res = doHTTP(mux, "POST", shapeRoute[tc.Shape], "", http.Header{"Content-Type": {"application/json"}}, reqBody{Data: js, CL: -2})
	case "http-proto":
		res = doHTTP(mux, "POST", shapeRoute[tc.Shape], "", http.Header{"Content-Type": {"application/protobuf"}, "Accept": {"application/protobuf"}}, reqBody{Data: pb, CL: -2})
	case "http-implicit":
		res = doHTTP(mux, "POST", full, "", http.Header{}, reqBody{Data: js, CL: -2})
	case "twirp-json":
		res = doHTTP(mux, "POST", full, "", http.Header{"Content-Type": {"application/json"}, "Twirp-Version": {"v8.1.0"}}, reqBody{Data: js, CL: -2})
	case "twirp-proto":
		res = doHTTP(mux, "POST", full, "", http.Header{"Content-Type": {"application/protobuf"}, "Twirp-Version": {"v8.1.0"}}, reqBody{Data: pb, CL: -2})
	case "grpc", "grpc+proto":
		res = doGRPC(mux, full, "application/"+tc.Proto, nil, reqBody{Data: wire.GRPCFrame(0, pb)})
	case "grpc+json":
		res = doGRPC(mux, full, "application/grpc+json", nil, reqBody{Data: wire.GRPCFrame(0, js)})
	case "web", "web+proto":
		res = doWeb(mux, full, "application/grpc-"+tc.Proto, nil, reqBody{Data: wire.GRPCFrame(0, pb)})
	case "web+json":
		res = doWeb(mux, full, "application/grpc-web+json", nil, reqBody{Data: wire.GRPCFrame(0, js)})
	case "webtext", "webtext+proto":
		res = doWeb(mux, full, "application/grpc-web-text"+strings.TrimPrefix(tc.Proto, "webtext"), nil, reqBody{Data: wire.GRPCFrame(0, pb)})
	case "grpc-gzip", "web-gzip", "webtext-gzip":
		// gzip message compression negotiated: replies are compressed frames, the status follows them
		hdr := http.Header{"Grpc-Encoding": {"gzip"}, "Grpc-Accept-Encoding": {"gzip"}}
		frame := wire.GRPCFrame(1, gzipBytes(pb))
		switch tc.Proto {
		case "grpc-gzip":
			res = doGRPC(mux, full, "application/grpc", hdr, reqBody{Data: frame})
		case "web-gzip":
			res = doWeb(mux, full, "application/grpc-web+proto", hdr, reqBody{Data: frame})
		default:
			res = doWeb(mux, full, "application/grpc-web-text", hdr, reqBody{Data: frame})
		}
	case "ws":
		res = doWS(e.mux, "/ws/"+tc.Shape, "", nil, wsText(js), nil)
	default:
		return "harness", "proto " + tc.Proto
	}
	if res.Panicked {
		return "panic", res.Panic
	}
	if e.impl.log.Calls != 1 {
		return "handler-not-invoked", fmt.Sprintf("calls=%d http=%d body=%s", e.impl.log.Calls, res.HTTPCode, truncS(string(res.Body), 120))
	}
	if !utf8.ValidString(tc.Message) {
		// "No status value makes the server fail to produce a response": a message that is not
		// valid UTF-8 cannot be carried faithfully (fidelity is not demanded), but a response
		// with an error status must still come out
		switch {
		case strings.HasPrefix(tc.Proto, "http") || strings.HasPrefix(tc.Proto, "twirp"):
			if res.HTTPCode < 400 && tc.After == 0 {
				return "no-error-response", fmt.Sprintf("status with an invalid UTF-8 message: HTTP %d", res.HTTPCode)
			}
		case tc.Proto == "ws":
			if res.WSClose == nil {
				return "no-error-response", "status with an invalid UTF-8 message: no close frame"
			}
		default:
			if res.ParseErr != "" {
				return "response-malformed", res.ParseErr
			}
			if res.Status == nil || res.Status.Code == 0 {
				return "no-error-response", fmt.Sprintf("status with an invalid UTF-8 message: grpc status %+v", res.Status)
			}
		}
		return "", "invalid-utf8-message:error-response-produced"
	}
	inRange := tc.Code <= 16
	wantDetails := func() [][]byte {
		var out [][]byte
		for _, a := range c05Anys(tc.Details) {
			b, _ := proto.MarshalOptions{Deterministic: true}.Marshal(a)
			out = append(out, b)
		}
		return out
	}
	sameDetails := func(got [][]byte) bool {
		want := wantDetails()
		if len(got) != len(want) {
			return false
		}
		for i := range got {
			if !bytes.Equal(got[i], want[i]) {
				return false
			}
		}
		return true
	}
	switch {
	case strings.HasPrefix(tc.Proto, "http"):
		if inRange {
			ok := false
			for _, h := range wire.HTTPStatus[int(tc.Code)] {
				if res.HTTPCode == h {
					ok = true
				}
			}
			if !ok {
				return "http-status", fmt.Sprintf("code %d -> HTTP %d, documented %v", tc.Code, res.HTTPCode, wire.HTTPStatus[int(tc.Code)])
			}
		} else if res.HTTPCode < 500 || res.HTTPCode > 599 {
			return "http-status", fmt.Sprintf("out-of-range code %d -> HTTP %d (want 5xx)", tc.Code, res.HTTPCode)
		}
		res.parseHTTPStatus()
		if res.ParseErr != "" {
			return "http-body-undecodable", res.ParseErr + " body=" + truncS(string(res.Body), 120)
		}
		wantCT := "application/json"
		if tc.Proto == "http-proto" {
			wantCT = "application/protobuf"
		}
		if ct := res.Header.Get("Content-Type"); ct != wantCT {
			return "http-error-content-type", fmt.Sprintf("%q want %q", ct, wantCT)
		}
		if uint32(res.Status.Code) != tc.Code && !(tc.Code > 1<<31-1) {
			return "code-mismatch", fmt.Sprintf("sent %d got %d", tc.Code, res.Status.Code)
		}
		if res.Status.Message != tc.Message {
			return "message-mismatch", fmt.Sprintf("sent %q got %q", tc.Message, res.Status.Message)
		}
		if tc.Details == 4 && wantCT == "application/json" {
			// a detail of an unknown type has no JSON form: a response with the code and the
			// message is demanded, the details are not
		} else if !sameDetails(res.Status.Details) {
			return "details-mismatch", fmt.Sprintf("sent %d details got %d", tc.Details, len(res.Status.Details))
		}
	case strings.HasPrefix(tc.Proto, "twirp"):
		var te struct {
			Code string `json:"code"`
			Msg  string `json:"msg"`
		}
		if ct := res.Header.Get("Content-Type"); ct != "application/json" {
			return "twirp-content-type", ct
		}
		if err := json.Unmarshal(res.Body, &te); err != nil {
			return "twirp-body-undecodable", err.Error() + " body=" + truncS(string(res.Body), 120)
		}
		if inRange && te.Code != wire.TwirpName[int(tc.Code)] {
			return "twirp-code-name", fmt.Sprintf("code %d -> %q, Twirp spec says %q", tc.Code, te.Code, wire.TwirpName[int(tc.Code)])
		}
		wantMsg := tc.Message
		if !utf8.ValidString(wantMsg) {
			wantMsg = strings.ToValidUTF8(wantMsg, "�")
		}
		if te.Msg != wantMsg {
			return "message-mismatch", fmt.Sprintf("sent %q got %q", tc.Message, te.Msg)
		}
		if res.HTTPCode < 400 {
			return "twirp-http-status", fmt.Sprintf("error answered with HTTP %d", res.HTTPCode)
		}
	case strings.HasPrefix(tc.Proto, "grpc"), strings.HasPrefix(tc.Proto, "web"):
		if res.ParseErr != "" {
			return "framing", res.ParseErr
		}
		if res.HTTPCode != 200 {
			return "grpc-http-status", fmt.Sprintf("HTTP %d", res.HTTPCode)
		}
		if res.Status == nil {
			return "status-missing", fmt.Sprintf("no grpc-status: headers=%v trailers=%v", res.Header, res.Trailer)
		}
		if uint32(res.Status.Code) != tc.Code {
			return "code-mismatch", fmt.Sprintf("sent %d got %d", tc.Code, res.Status.Code)
		}
		if err := wire.GRPCMessageWellFormed(res.Status.RawMessage); err != nil {
			return "grpc-message-malformed", fmt.Sprintf("%q: %v", res.Status.RawMessage, err)
		}
		wantMsg := tc.Message
		if strings.HasPrefix(tc.Proto, "web") {
			// The gRPC-web trailer frame is an HTTP/1 header block: optional whitespace around
			// a field value is not part of it, and the gRPC percent-encoding leaves 0x20
			// unescaped. Leading/trailing spaces are therefore not representable: not demanded.
			wantMsg = strings.Trim(wantMsg, " ")
			res.Status.Message = strings.Trim(res.Status.Message, " ")
		}
		if res.Status.Message != wantMsg {
			return "message-mismatch", fmt.Sprintf("sent %q, grpc-message %q decodes to %q", tc.Message, res.Status.RawMessage, res.Status.Message)
		}
		if tc.Details > 0 && !res.Status.HasDetails {
			return "details-missing", "no grpc-status-details-bin"
		}
		if tc.Details > 0 && !sameDetails(res.Status.Details) {
			return "details-mismatch", fmt.Sprintf("sent %d details got %d", tc.Details, len(res.Status.Details))
		}
		if len(res.Msgs) != e.impl.log.SendOK {
			return "reply-count", fmt.Sprintf("handler sent %d replies, client parsed %d", e.impl.log.SendOK, len(res.Msgs))
		}
	case tc.Proto == "ws":
		if !res.Upgraded {
			return "ws-no-upgrade", fmt.Sprintf("HTTP %d %s", res.HTTPCode, res.ParseErr)
		}
		if res.ParseErr != "" {
			return "ws-invalid-frame", res.ParseErr
		}
		if res.WSClose == nil || res.Status == nil {
			return "ws-no-close-frame", fmt.Sprintf("%d frames, none a close frame with a status", len(res.WSFrames))
		}
		cc := res.Status.Code
		if !(cc >= 1000 && cc <= 1014 && cc != 1004 && cc != 1005 && cc != 1006) && !(cc >= 3000 && cc <= 4999) {
			return "ws-close-code-invalid", fmt.Sprintf("close code %d may not be sent", cc)
		}
		if cc == 1000 {
			return "ws-error-closed-normally", fmt.Sprintf("status %d closed with 1000", tc.Code)
		}
		wantCC := 1011 // out-of-range codes
		if inRange {
			wantCC = wire.WSCloseCode[int(tc.Code)]
		}
		if cc != wantCC {
			return "ws-close-code", fmt.Sprintf("status %d closed with %d, the mapped close code is %d", tc.Code, cc, wantCC)
		}
		got := res.Status.Message
		if !strings.HasPrefix(tc.Message, got) {
			return "message-mismatch", fmt.Sprintf("close reason %q is not a prefix of %q", got, tc.Message)
		}
		if got != tc.Message && len(got) < 123-utf8.UTFMax {
			return "message-truncated-early", fmt.Sprintf("close reason holds %d of %d bytes", len(got), len(tc.Message))
		}
		if len(res.Msgs) != e.impl.log.SendOK {
			return "reply-count", fmt.Sprintf("handler sent %d replies, client parsed %d", e.impl.log.SendOK, len(res.Msgs))
		}
	}
	return "", ""
}

func c05Cases(thorough bool) []c05Case {
	msgs := c05Messages(thorough)
	few := []string{"", "plain", "a%b é\n", strings.Repeat("y", 122) + "é"}
	// scale: messages around 2 KiB and 4 KiB (fixed-size scratch buffers), 6 kB, 70 kB, 2100 bytes of
	// CJK (6300 bytes percent-encoded); with 0..3 details, the third one 3 KiB
	long := []string{strings.Repeat("x", 2011), strings.Repeat("x", 2012), strings.Repeat("x", 4059), strings.Repeat("x", 4060), strings.Repeat("z", 6000), strings.Repeat("日", 700), strings.Repeat("w", 70000)}
	protos := []string{"http-json", "http-proto", "http-implicit", "twirp-json", "twirp-proto", "grpc", "grpc+proto", "grpc+json", "web", "web+proto", "web+json", "webtext", "webtext+proto", "grpc-gzip", "web-gzip", "webtext-gzip", "ws"}
	var out []c05Case
	for _, p := range protos {
		shapes := []string{"unary"}
		streaming := !strings.HasPrefix(p, "http") && !strings.HasPrefix(p, "twirp")
		if streaming {
			shapes = []string{"unary", "cs", "ss", "bidi"}
		}
		for _, sh := range shapes {
			afters := []int{0}
			if streaming && (sh == "ss" || sh == "bidi") {
				afters = []int{0, 1, 2}
			}
			for _, after := range afters {
				// every code × a few messages × details
				for _, code := range c05Codes {
					for _, m := range few {
						for d := 0; d <= 4; d++ {
							out = append(out, c05Case{Proto: p, Shape: sh, Code: code, Message: m, Details: d, After: after})
						}
					}
				}
				for _, m := range long {
					for d := 0; d <= 3; d++ {
						out = append(out, c05Case{Proto: p, Shape: sh, Code: 5, Message: m, Details: d, After: after})
					}
				}
				// the handler sends its headers first (grpc.SendHeader), then fails: the status must
				// still be the error's, on every protocol
				if after == 0 && p != "ws" {
					for _, code := range c05Codes {
						for _, m := range few[:3] {
							out = append(out, c05Case{Proto: p, Shape: sh, Code: code, Message: m, Details: int(code) % 3, After: 0, SendHdr: true})
						}
					}
				}
				// status messages that are not valid UTF-8, with and without details
				for _, m := range []string{"bad \xff utf8", "\xc3", "ok then \xe2\x82"} {
					for d := 0; d <= 2; d++ {
						out = append(out, c05Case{Proto: p, Shape: sh, Code: 13, Message: m, Details: d, After: after})
					}
				}
				// a ResponseWriter that is not a Flusher (a middleware wrapping the writer in a plain
				// struct): whatever larking buffers must still be completed
				if p == "web" || p == "web+json" || p == "webtext" || p == "webtext+proto" || p == "webtext-gzip" || p == "http-json" || p == "http-proto" || p == "twirp-json" {
					for _, code := range []uint32{5, 8, 13} {
						for _, m := range []string{"", "p", "pl", "pla", "a%b é\n", strings.Repeat("y", 122) + "é"} {
							for d := 0; d <= 2; d++ {
								out = append(out, c05Case{Proto: p, Shape: sh, Code: code, Message: m, Details: d, After: after, Plain: true})
							}
						}
					}
				}
				// every message × two codes (one shape per protocol unless thorough)
				if sh != "unary" && sh != "ss" && sh != "bidi" && !thorough {
					continue
				}
				for mi, m := range msgs {
					if thorough && len(msgs) > 2000 && sh != "unary" && mi%7 != after {
						continue // the long table: in full on unary, every 7th message on the other shapes
					}
					for _, code := range []uint32{5, 13} {
						out = append(out, c05Case{Proto: p, Shape: sh, Code: code, Message: m, After: after})
					}
				}
			}
		}
	}
	return out
}

func runC05(c *Ctx) {
	r := c.Run
	r.Rule("protocol{HTTP json/proto/implicit route, Twirp json/proto, gRPC (+proto,+json), gRPC-web (+proto,+json), gRPC-web-text (+proto), gRPC / gRPC-web / gRPC-web-text with gzip message compression negotiated, WebSocket} × shape{unary, client-, server-, bidi-streaming} × error position{before any reply, before any reply but after grpc.SendHeader, after 1, after 2} × code{1..16,17,18,100,2^31,2^32-1} × message{all strings of length <= 3 over {a,%,space,\\n,é} (thorough: length <= 4 over those plus DEL, NUL, a 4-byte rune, '+', '4'), %41, CJK, DEL, control chars, 200×x, lengths 119..126 with and without a multi-byte rune on the close-frame boundary} × details{0,1,2,3 (the third 3 KiB), and a known detail followed by one of a type without a descriptor}; messages of 2011/2012/4059/4060/6000/70000 bytes and 700 CJK characters × details on every protocol, shape and position; plus HTTP, Twirp, gRPC-web and gRPC-web-text behind a ResponseWriter without Flush (message lengths of every residue mod 3); plus three messages that are not valid UTF-8 (only 'an error response is produced' is demanded); distinct = (protocol, shape, position, code class, message class) combinations that produced a decodable status")
	r.Assume("CANCELLED may map to 408 or 499; Twirp HTTP statuses and Twirp names of out-of-range codes are not demanded; the WebSocket close code is larking's exported WSStatusCode table (pinned in ref/wire); error framing after HTTP stream messages is not demanded", "leading/trailing spaces of the message are not representable in a gRPC-web trailer frame and are not compared there")
	cases := c05Cases(c.Thorough())
	envs := make([]*c05Env, explore.Workers)
	explore.ParallelFor(len(cases), func() bool { return r.TooManyViolations() }, func(w, i int) {
		if envs[w] == nil {
			envs[w] = newC05Env()
		}
		tc := &cases[i]
		oracle, note := envs[w].exec(tc)
		r.Eval(1)
		if oracle != "" {
			r.Outcome("FAIL:" + oracle)
			r.Violation(report.Violation{Oracle: oracle, Key: fmt.Sprintf("%s proto=%s shape=%s after=%d sendheader=%v plain-writer=%v code=%d details=%d msg=%q", oracle, tc.Proto, tc.Shape, tc.After, tc.SendHdr, tc.Plain, tc.Code, tc.Details, truncS(tc.Message, 40)), Case: *tc, Note: note})
		} else {
			r.Outcome("status-delivered:" + strings.SplitN(tc.Proto, "+", 2)[0])
			cls := "in-range"
			if tc.Code > 16 {
				cls = "out-of-range"
			}
			r.Distinct(fmt.Sprintf("%s|%s|%d|%s|%d|%d|%v", tc.Proto, tc.Shape, tc.After, cls, tc.Details, len(tc.Message), tc.Plain))
		}
		if r.WantSample() && i%3001 == 9 {
			r.Sample(*tc)
		}
	})
	runC05Conformance(c)
}

func replayC05(c *Ctx, v report.Violation) {
	var tc c05Case
	if !remarshal(v.Case, &tc) {
		fmt.Println("replay: cannot decode case")
		return
	}
	e := newC05Env()
	oracle, note := e.exec(&tc)
	fmt.Printf("replay: proto=%s shape=%s code=%d msg=%q -> oracle=%q %s\n", tc.Proto, tc.Shape, tc.Code, tc.Message, oracle, note)
	if oracle != "" {
		c.Run.Violation(report.Violation{Oracle: oracle, Key: v.Key, Case: tc, Note: note})
	}
}
