package props

import (
	"bytes"
	"fmt"
	"io"
	"math"
	"net/http"
	"strings"

	"google.golang.org/protobuf/encoding/protojson"
	"google.golang.org/protobuf/proto"
	"google.golang.org/protobuf/reflect/protoreflect"
	"google.golang.org/protobuf/types/dynamicpb"

	"larking.io/larking"

	"verif/explore"
	"verif/ref/wire"
	"verif/report"
)

// C08 — message size limits hold on every protocol.

func init() {
	register(&Check{ID: "C08", Level: "exploration", Run: runC08, Replay: replayC08})
}

type c08Case struct {
	Kind   string `json:"kind"`  // recv | send | prefix
	Proto  string `json:"proto"` // http-json http-proto http-body http-json-stream http-proto-stream grpc grpc+json web webtext ws
	Gzip   bool   `json:"gzip"`
	L      int    `json:"recv_limit"` // 0 = default (4 MiB)
	S      int    `json:"send_limit"` // 0 = default
	Target int    `json:"encoded_size"`
	Lead   bool   `json:"small_message_first"`
	Split  bool   `json:"field_boundary_at_limit"` // the first L encoded bytes are complete fields, more fields follow
	Prefix uint64 `json:"length_prefix,omitempty"`
	Frag   int    `json:"ws_fragments,omitempty"` // WebSocket: the message is sent as this many frames
}

const defaultRecvLimit = 4 * 1024 * 1024

type c08Env struct {
	t     *tSchema
	muxes map[[2]int]*larking.Mux
	impls map[[2]int]*tImpl
}

func newC08Env() *c08Env {
	t, err := newTSchema()
	if err != nil {
		panic(err)
	}
	return &c08Env{t: t, muxes: map[[2]int]*larking.Mux{}, impls: map[[2]int]*tImpl{}}
}

func (e *c08Env) mux(l, s int) (*larking.Mux, *tImpl) {
	k := [2]int{l, s}
	if m, ok := e.muxes[k]; ok {
		return m, e.impls[k]
	}
	var opts []larking.MuxOption
	if l > 0 {
		opts = append(opts, larking.MaxReceiveMessageSizeOption(l))
	}
	if s > 0 {
		opts = append(opts, larking.MaxSendMessageSizeOption(s))
	}
	m, impl, err := e.t.newMux(opts...)
	if err != nil {
		panic(err)
	}
	e.muxes[k], e.impls[k] = m, impl
	return m, impl
}

// sized builds a message of descriptor md (fields s, n) whose encoding in codec has exactly
// target bytes; ok=false if unreachable.
func sized(md protoreflect.MessageDescriptor, codec string, target int) (proto.Message, []byte, bool) {
	enc := func(k int, withN bool) (proto.Message, []byte) {
		m := dynamicpb.NewMessage(md)
		var n int32
		if withN {
			n = 1
		}
		setSBN(m, strings.Repeat("x", k), nil, n)
		var b []byte
		if codec == "json" {
			b, _ = protojson.MarshalOptions{}.Marshal(m)
			// protojson output is deliberately unstable in whitespace; normalise by re-encoding compactly
			b = compactJSON(b)
		} else {
			b, _ = proto.Marshal(m)
		}
		return m, b
	}
	for _, withN := range []bool{false, true} {
		// size grows monotonically with k: search around target
		lo := target - 16
		if lo < 0 {
			lo = 0
		}
		for k := lo; k <= target; k++ {
			m, b := enc(k, withN)
			if len(b) == target {
				return m, b, true
			}
		}
	}
	return nil, nil, false
}

func compactJSON(b []byte) []byte {
	var out []byte
	inStr, esc := false, false
	for _, c := range b {
		switch {
		case esc:
			esc = false
		case inStr:
			if c == '\\' {
				esc = true
			} else if c == '"' {
				inStr = false
			}
		case c == '"':
			inStr = true
		case c == ' ' || c == '\n' || c == '\t' || c == '\r':
			continue
		}
		out = append(out, c)
	}
	return out
}

func (e *c08Env) exec(tc *c08Case) (oracle, note string) {
	switch tc.Kind {
	case "recv":
		return e.execRecv(tc)
	case "send":
		return e.execSend(tc)
	case "prefix":
		return e.execPrefix(tc)
	}
	return "harness", tc.Kind
}

func (e *c08Env) limit(tc *c08Case) int {
	if tc.L == 0 {
		return defaultRecvLimit
	}
	return tc.L
}

func (e *c08Env) execRecv(tc *c08Case) (oracle, note string) {
	m, impl := e.mux(tc.L, tc.S)
	L := e.limit(tc)
	codec := "proto"
	if strings.Contains(tc.Proto, "json") || tc.Proto == "ws" {
		codec = "json"
	}
	var big proto.Message
	var bigEnc []byte
	if tc.Proto == "http-body" {
		bigEnc = []byte(strings.Repeat("z", tc.Target))
	} else if tc.Split {
		// field s encodes to exactly L bytes, then field b follows: a reader that stops after L
		// bytes still sees a well-formed (truncated) message
		if codec != "proto" {
			return "", "n/a"
		}
		_, enc, ok := sized(e.t.req, codec, L)
		if !ok {
			return "", "unreachable-size"
		}
		extra := tc.Target - L
		if extra < 3 {
			return "", "n/a"
		}
		var tail []byte // field b, exactly `extra` bytes on the wire
		for n := extra - 2; n >= extra-4 && n >= 0; n-- {
			if t := append(append([]byte{0x12}, refVarint(uint64(n))...), bytes.Repeat([]byte("y"), n)...); len(t) == extra {
				tail = t
			}
		}
		if tail == nil {
			return "", "unreachable-size"
		}
		bigEnc = append(append([]byte{}, enc...), tail...)
		big = dynamicpb.NewMessage(e.t.req)
		if err := proto.Unmarshal(bigEnc, big); err != nil {
			return "harness", err.Error()
		}
	} else {
		var ok bool
		big, bigEnc, ok = sized(e.t.req, codec, tc.Target)
		if !ok {
			return "", "unreachable-size"
		}
	}
	var small proto.Message
	var smallEnc []byte
	if tc.Lead {
		small = e.t.newReq("lead", nil, 0)
		if codec == "json" {
			smallEnc, _ = protojson.Marshal(small)
		} else {
			smallEnc, _ = proto.Marshal(small)
		}
		if len(smallEnc) > L {
			return "", "n/a" // the leading message itself would exceed this limit
		}
	}
	streaming := strings.HasSuffix(tc.Proto, "-stream") || strings.HasPrefix(tc.Proto, "grpc") || strings.HasPrefix(tc.Proto, "web") || tc.Proto == "ws"
	if tc.Lead && !streaming {
		return "", "n/a"
	}
	impl.reset(hScript{RecvN: -1})
	if tc.Proto == "ws" {
		n := 1
		if tc.Lead {
			n = 2
		}
		impl.reset(hScript{RecvN: n})
	}
	var res *callResult
	hdr := http.Header{}
	frame := func(p []byte) []byte {
		if tc.Gzip {
			return wire.GRPCFrame(1, gzipBytes(p))
		}
		return wire.GRPCFrame(0, p)
	}
	switch tc.Proto {
	case "http-json", "http-proto", "http-body":
		path := "/t/unary"
		switch tc.Proto {
		case "http-json":
			hdr.Set("Content-Type", "application/json")
		case "http-proto":
			hdr.Set("Content-Type", "application/protobuf")
		case "http-body":
			hdr.Set("Content-Type", "text/plain")
			path = "/t/raw/f.txt"
		}
		body := bigEnc
		if tc.Gzip {
			body = gzipBytes(body)
			hdr.Set("Content-Encoding", "gzip")
		}
		res = doHTTP(m, "POST", path, "", hdr, reqBody{Data: body, CL: -2})
	case "http-json-stream", "http-ndjson-stream", "http-proto-stream":
		var body []byte
		add := func(p []byte) {
			if tc.Proto == "http-proto-stream" {
				body = append(body, refVarint(uint64(len(p)))...)
			}
			body = append(body, p...)
			if tc.Proto == "http-ndjson-stream" {
				body = append(body, '\n') // newline-delimited JSON: the separator is not part of any message
			}
		}
		if tc.Lead {
			add(smallEnc)
		}
		add(bigEnc)
		if tc.Proto != "http-proto-stream" {
			hdr.Set("Content-Type", "application/json")
		} else {
			hdr.Set("Content-Type", "application/protobuf")
		}
		if tc.Gzip {
			body = gzipBytes(body)
			hdr.Set("Content-Encoding", "gzip")
		}
		res = doHTTP(m, "POST", "/t/cs", "", hdr, reqBody{Data: body, CL: -1})
	case "grpc", "grpc+json", "web", "webtext":
		if tc.Gzip && tc.Target <= L && len(gzipBytes(bigEnc)) > L {
			return "", "n/a" // gzip expanded a tiny message beyond the limit on the wire: refusing it is standard gRPC behaviour
		}
		var body []byte
		if tc.Lead {
			body = append(body, frame(smallEnc)...)
		}
		body = append(body, frame(bigEnc)...)
		if tc.Gzip {
			hdr.Set("Grpc-Encoding", "gzip")
		}
		switch tc.Proto {
		case "grpc":
			res = doGRPC(m, "/vs.T/CS", "application/grpc+proto", hdr, reqBody{Data: body})
		case "grpc+json":
			res = doGRPC(m, "/vs.T/CS", "application/grpc+json", hdr, reqBody{Data: body})
		case "web":
			res = doWeb(m, "/vs.T/CS", "application/grpc-web+proto", hdr, reqBody{Data: body})
		case "webtext":
			res = doWeb(m, "/vs.T/CS", "application/grpc-web-text+proto", hdr, reqBody{Data: body})
		}
	case "ws":
		var frames []byte
		if tc.Lead {
			frames = append(frames, wsText(smallEnc)...)
		}
		frames = append(frames, wsFrag(bigEnc, tc.Frag)...)
		res = doWS(m, "/ws/bidi", "", nil, frames, nil)
	default:
		return "harness", tc.Proto
	}
	if res.Panicked {
		return "panic", res.Panic
	}
	lg := &impl.log
	// did the handler receive the big message?
	gotBig := false
	for _, r := range lg.Recv {
		if tc.Proto == "http-body" {
			file := r.ProtoReflect().Get(e.t.up.Fields().ByName("file")).Message()
			if len(file.Get(e.t.body.Fields().ByName("data")).Bytes()) == tc.Target {
				gotBig = true
			}
			continue
		}
		if proto.Equal(r, big) {
			gotBig = true
		}
	}
	if tc.Target > L {
		if gotBig {
			return "over-limit-delivered", fmt.Sprintf("a %d-byte message reached the handler under limit %d", tc.Target, L)
		}
		for _, r := range lg.Recv {
			if tc.Proto != "http-body" && len(r.ProtoReflect().Get(e.t.req.Fields().ByName("s")).String()) > L {
				return "over-limit-delivered", "an over-limit payload reached the handler (altered)"
			}
			if tc.Split && len(r.ProtoReflect().Get(e.t.req.Fields().ByName("s")).String()) > 8 {
				return "over-limit-delivered-truncated", fmt.Sprintf("a %d-byte message reached the handler cut down to its first fields under limit %d: {%v}", tc.Target, L, truncS(fmt.Sprint(r), 80))
			}
		}
		// the client must see an error
		switch {
		case strings.HasSuffix(tc.Proto, "-stream"):
			if lg.Calls == 1 && (lg.RecvErr == nil || lg.RecvErr == io.EOF) {
				return "over-limit-no-error", fmt.Sprintf("handler got err=%v", lg.RecvErr)
			}
		case strings.HasPrefix(tc.Proto, "http"):
			if res.HTTPCode < 400 {
				return "over-limit-no-error", fmt.Sprintf("HTTP %d", res.HTTPCode)
			}
		case tc.Proto == "ws":
			if lg.RecvErr == nil || lg.RecvErr == io.EOF {
				return "over-limit-no-error", fmt.Sprintf("handler got err=%v", lg.RecvErr)
			}
		default:
			if lg.Calls == 1 && (lg.RecvErr == nil || lg.RecvErr == io.EOF) {
				return "over-limit-no-error", fmt.Sprintf("handler got err=%v", lg.RecvErr)
			}
		}
		return "", "refused"
	}
	if !gotBig {
		return "within-limit-refused", fmt.Sprintf("a %d-byte message under limit %d did not reach the handler: calls=%d recv=%d err=%v http=%d %s", tc.Target, L, lg.Calls, len(lg.Recv), lg.RecvErr, res.HTTPCode, truncS(string(res.Body), 100))
	}
	if tc.Lead && len(lg.Recv) != 2 {
		return "within-limit-refused", fmt.Sprintf("handler received %d of 2 messages", len(lg.Recv))
	}
	return "", "delivered"
}

func (e *c08Env) execSend(tc *c08Case) (oracle, note string) {
	m, impl := e.mux(tc.L, tc.S)
	S := tc.S
	if S == 0 {
		S = math.MaxInt32
	}
	codec := "proto"
	if strings.Contains(tc.Proto, "json") {
		codec = "json"
	}
	reply, enc, ok := sized(e.t.rsp, codec, tc.Target)
	if !ok {
		return "", "unreachable-size"
	}
	if tc.Target > S {
		return "", "n/a" // what happens to over-limit replies is not part of the property
	}
	reqMsg := e.t.newReq("q", nil, 0)
	pb, _ := proto.Marshal(reqMsg)
	js, _ := protojson.Marshal(reqMsg)
	var res *callResult
	streamingReply := strings.HasSuffix(tc.Proto, "-ss")
	impl.reset(hScript{RecvN: -1, Replies: []proto.Message{reply}})
	if streamingReply {
		impl.reset(hScript{RecvN: 1, Replies: []proto.Message{reply, reply}})
	}
	switch tc.Proto {
	case "http-json":
		res = doHTTP(m, "POST", "/t/unary", "", http.Header{"Content-Type": {"application/json"}}, reqBody{Data: js, CL: -2})
	case "http-proto":
		res = doHTTP(m, "POST", "/t/unary", "", http.Header{"Content-Type": {"application/protobuf"}}, reqBody{Data: pb, CL: -2})
	case "grpc":
		res = doGRPC(m, "/vs.T/Unary", "application/grpc", nil, reqBody{Data: wire.GRPCFrame(0, pb)})
	case "grpc+json":
		res = doGRPC(m, "/vs.T/Unary", "application/grpc+json", nil, reqBody{Data: wire.GRPCFrame(0, js)})
	case "grpc-ss":
		res = doGRPC(m, "/vs.T/SS", "application/grpc", nil, reqBody{Data: wire.GRPCFrame(0, pb)})
	case "web":
		res = doWeb(m, "/vs.T/Unary", "application/grpc-web+proto", nil, reqBody{Data: wire.GRPCFrame(0, pb)})
	default:
		return "harness", tc.Proto
	}
	if res.Panicked {
		return "panic", res.Panic
	}
	var payloads [][]byte
	if strings.HasPrefix(tc.Proto, "http") {
		if res.HTTPCode != 200 {
			return "within-limit-reply-refused", fmt.Sprintf("a %d-byte reply under send limit %d (recv limit %d) was answered HTTP %d %s", tc.Target, S, e.limit(tc), res.HTTPCode, truncS(string(res.Body), 100))
		}
		payloads = [][]byte{res.Body}
	} else {
		if res.Status == nil || res.Status.Code != 0 {
			return "within-limit-reply-refused", fmt.Sprintf("a %d-byte reply under send limit %d (recv limit %d) failed: %+v", tc.Target, S, e.limit(tc), res.Status)
		}
		payloads = res.Msgs
	}
	want := 1
	if streamingReply {
		want = 2
	}
	if len(payloads) != want {
		return "within-limit-reply-refused", fmt.Sprintf("%d replies arrived, want %d", len(payloads), want)
	}
	for _, p := range payloads {
		if codec == "json" {
			p = compactJSON(p)
		}
		if len(p) != len(enc) {
			got := dynamicpb.NewMessage(e.t.rsp)
			var err error
			if codec == "json" {
				err = protojson.Unmarshal(p, got)
			} else {
				err = proto.Unmarshal(p, got)
			}
			if err != nil || !proto.Equal(got, reply) {
				return "reply-altered", fmt.Sprintf("reply of %d bytes arrived as %d bytes", len(enc), len(p))
			}
		}
	}
	return "", "delivered"
}

// execPrefix: a length prefix that claims more than the body holds.
func (e *c08Env) execPrefix(tc *c08Case) (oracle, note string) {
	m, impl := e.mux(tc.L, 0)
	L := e.limit(tc)
	impl.reset(hScript{RecvN: -1})
	payload := []byte{0x0a, 0x01, 'x'}
	var res *callResult
	switch tc.Proto {
	case "grpc":
		res = doGRPC(m, "/vs.T/CS", "application/grpc", nil, reqBody{Data: wire.GRPCFrameLen(0, uint32(tc.Prefix), payload)})
	case "web":
		res = doWeb(m, "/vs.T/CS", "application/grpc-web+proto", nil, reqBody{Data: wire.GRPCFrameLen(0, uint32(tc.Prefix), payload)})
	case "http-proto-stream":
		body := append(refVarint(tc.Prefix), payload...)
		res = doHTTP(m, "POST", "/t/cs", "", http.Header{"Content-Type": {"application/protobuf"}}, reqBody{Data: body, CL: -1})
	default:
		return "harness", tc.Proto
	}
	if res.Panicked {
		return "panic", res.Panic
	}
	lg := &impl.log
	if len(lg.Recv) > 0 {
		return "bogus-prefix-delivered", fmt.Sprintf("prefix %d with a 3-byte body delivered {%v}", tc.Prefix, lg.Recv[0])
	}
	if lg.Calls == 1 && (lg.RecvErr == nil) {
		return "bogus-prefix-no-error", "no error"
	}
	_ = L
	return "", "refused"
}

func c08Cases(thorough bool) []c08Case {
	var out []c08Case
	limits := []int{32, 100, 1000}
	if thorough {
		// varint length boundaries (127/128, 16383/16384), powers of two, tiny and large limits
		limits = []int{8, 16, 32, 33, 100, 127, 128, 129, 255, 256, 1000, 4096, 16383, 16384, 16385, 65536, 1 << 20}
	}
	recvProtos := []string{"http-json", "http-proto", "http-body", "http-json-stream", "http-ndjson-stream", "http-proto-stream", "grpc", "grpc+json", "web", "webtext", "ws"}
	for _, p := range recvProtos {
		for _, L := range limits {
			targets := []int{L - 3, L - 2, L - 1, L, L + 1, L + 2, L + 3, 2 * L, 2*L + 1, 64 * 1024}
			if thorough {
				targets = append(targets, L-6, L-5, L-4, L+4, L+5, L+6, L/2, 3*L, 10*L)
			}
			for _, t := range targets {
				for _, gz := range []bool{false, true} {
					if gz && (p == "ws") {
						continue
					}
					for _, lead := range []bool{false, true} {
						if p == "ws" {
							// fragmented messages: the limit applies to the reassembled message
							for _, k := range []int{2, 3, 5} {
								out = append(out, c08Case{Kind: "recv", Proto: p, L: L, Target: t, Lead: lead, Frag: k})
							}
						}
						out = append(out, c08Case{Kind: "recv", Proto: p, Gzip: gz, L: L, Target: t, Lead: lead})
						if t > L+2 && t <= 2*L+1 {
							out = append(out, c08Case{Kind: "recv", Proto: p, Gzip: gz, L: L, Target: t, Lead: lead, Split: true})
						}
					}
				}
			}
		}
		// default limit
		defSizes := []int{defaultRecvLimit, defaultRecvLimit + 1}
		if thorough {
			defSizes = []int{defaultRecvLimit - 1, defaultRecvLimit, defaultRecvLimit + 1, 2 * defaultRecvLimit}
		}
		for _, t := range defSizes {
			out = append(out, c08Case{Kind: "recv", Proto: p, L: 0, Target: t})
			if thorough && p != "ws" {
				out = append(out, c08Case{Kind: "recv", Proto: p, L: 0, Target: t, Gzip: true})
			}
		}
	}
	// send limits: S with L below and above it
	for _, p := range []string{"http-json", "http-proto", "grpc", "grpc+json", "grpc-ss", "web"} {
		sls := [][2]int{{100, 50}, {100, 1000}, {0, 50}, {100, 0}, {4096, 100}}
		if thorough {
			sls = append(sls, [2]int{127, 127}, [2]int{128, 64}, [2]int{16384, 100}, [2]int{33, 1 << 20}, [2]int{1 << 16, 1 << 16})
		}
		for _, sl := range sls {
			S, L := sl[0], sl[1]
			base := S
			if S == 0 {
				base = 200
			}
			for _, t := range []int{base - 1, base, base + 1, 20, 64, 150} {
				out = append(out, c08Case{Kind: "send", Proto: p, S: S, L: L, Target: t})
			}
		}
	}
	// bogus length prefixes
	for _, L := range []int{100, 0} {
		lim := L
		if lim == 0 {
			lim = defaultRecvLimit
		}
		for _, pf := range []uint64{uint64(lim) + 1, 1<<31 - 1, 1 << 31, 1<<32 - 1} {
			out = append(out, c08Case{Kind: "prefix", Proto: "grpc", L: L, Prefix: pf}, c08Case{Kind: "prefix", Proto: "web", L: L, Prefix: pf})
		}
		for _, pf := range []uint64{uint64(lim) + 1, 1<<31 - 1, 1 << 31, 1<<32 - 1, 1 << 32, 1<<63 - 1, 1 << 63, 1<<64 - 1} {
			out = append(out, c08Case{Kind: "prefix", Proto: "http-proto-stream", L: L, Prefix: pf})
		}
	}
	return out
}

func runC08(c *Ctx) {
	r := c.Run
	r.Rule("receive: protocol{HTTP unary json/proto/HttpBody, HTTP stream json/newline-delimited json/proto, gRPC (+json), gRPC-web, gRPC-web-text, WebSocket} × gzip{off,on (Content-Encoding / per-message grpc-encoding, highly compressible payload)} × limit{32,100,1000,default 4MiB; thorough: 17 limits incl. 127/128/129, 16383/16384/16385, 2^16, 2^20} × encoded size{L-3..L+3,2L,2L+1,64KiB; thorough: L-6..L+6, L/2, 3L, 10L} × {alone, after a small message} × WebSocket messages in {1,2,3,5} frames × {one big field, a field boundary exactly at the limit with more fields following}; send: protocol × (send limit, receive limit) pairs with S<L, S>L and defaults × reply size around S; streamed HttpBody uploads: limit{4,32,101,203,1009} × body size{0,1,L-1,L,L+1,L+37,2L,2L+1,3L+5} × end of body{EOF alone, EOF with the last bytes} × read size{all,1,7,64,L,L+1}: every chunk within the limit, every byte delivered; bogus length prefixes {L+1,2^31-1,2^31,2^32-1,2^32,2^63-1,2^63,2^64-1} with a 3-byte body; distinct = (kind, protocol, gzip, limit, size class, outcome)")
	r.Assume("sizes are measured in the codec used on the wire, after decompression; the message carries one string field so the size is an exact function of its length", "what happens to replies above the send limit is not part of the property")
	cases := c08Cases(c.Thorough())
	envs := make([]*c08Env, explore.Workers)
	explore.ParallelFor(len(cases), func() bool { return r.TooManyViolations() }, func(w, i int) {
		if envs[w] == nil {
			envs[w] = newC08Env()
		}
		tc := &cases[i]
		oracle, note := envs[w].exec(tc)
		if note == "n/a" || note == "unreachable-size" {
			return
		}
		r.Eval(1)
		if oracle != "" {
			r.Outcome("FAIL:" + oracle)
			r.Violation(report.Violation{Oracle: oracle, Key: fmt.Sprintf("%s kind=%s proto=%s gzip=%v L=%d S=%d size=%d lead=%v split=%v prefix=%d frag=%d", oracle, tc.Kind, tc.Proto, tc.Gzip, tc.L, tc.S, tc.Target, tc.Lead, tc.Split, tc.Prefix, tc.Frag), Case: *tc, Note: note})
			return
		}
		r.Outcome(tc.Kind + ":" + note)
		r.Distinct(fmt.Sprintf("%s|%s|%v|%d|%d|%d|%v|%s", tc.Kind, tc.Proto, tc.Gzip, tc.L, tc.S, tc.Target, tc.Split, note))
		if r.WantSample() && i%211 == 3 {
			r.Sample(*tc)
		}
	})
	c08UploadChunks(c)
}

// c08UploadChunks: a streamed google.api.HttpBody upload is handed to the handler in messages
// whose data never exceeds the receive limit, whatever the size of the body, the way the body
// is read and the way its end is reported (EOF alone or together with the last bytes - what
// net/http does for Content-Length bodies); nothing is refused and no byte is lost.
func c08UploadChunks(c *Ctx) {
	r := c.Run
	e := newC06Env()
	for _, L := range []int{4, 32, 101, 203, 1009} {
		for _, n := range []int{0, 1, L - 1, L, L + 1, L + 37, 2 * L, 2*L + 1, 3*L + 5} {
			for _, eofWith := range []bool{false, true} {
				for _, mr := range []int{0, 1, 7, 64, L, L + 1} {
					tc := c06Case{Transport: "http-body", Shape: "bidi", In: []int{n}, Out: []int{3}, Limit: L, EOFWith: eofWith, MaxRead: mr, Truncate: -1}
					res := e.execBody(&tc)
					r.Eval(1)
					if res.oracle != "" {
						r.Outcome("FAIL:upload-" + res.oracle)
						r.Violation(report.Violation{Oracle: "upload-" + res.oracle, Key: fmt.Sprintf("upload-%s L=%d size=%d eofwith=%v maxread=%d", res.oracle, L, n, eofWith, mr), Case: tc, Note: res.note})
						continue
					}
					r.Outcome("recv:upload-chunked-within-limit")
					r.Distinct(fmt.Sprintf("upload|%d|%d|%v", L, n, eofWith))
				}
			}
		}
	}
}

func replayC08(c *Ctx, v report.Violation) {
	if strings.HasPrefix(v.Oracle, "upload-") {
		var tc c06Case
		if !remarshal(v.Case, &tc) {
			fmt.Println("replay: cannot decode case")
			return
		}
		res := newC06Env().execBody(&tc)
		fmt.Printf("replay: %+v -> oracle=%q %s\n", tc, res.oracle, res.note)
		if res.oracle != "" {
			c.Run.Violation(report.Violation{Oracle: "upload-" + res.oracle, Key: v.Key, Case: tc, Note: res.note})
		}
		return
	}
	var tc c08Case
	if !remarshal(v.Case, &tc) {
		fmt.Println("replay: cannot decode case")
		return
	}
	oracle, note := newC08Env().exec(&tc)
	fmt.Printf("replay: %+v -> oracle=%q %s\n", tc, oracle, note)
	if oracle != "" {
		c.Run.Violation(report.Violation{Oracle: oracle, Key: v.Key, Case: tc, Note: note})
	}
}
