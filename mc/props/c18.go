package props

import (
	"context"
	"errors"
	"fmt"
	"net/http"
	"os"
	"sort"
	"strings"
	"sync"
	"time"

	"google.golang.org/grpc"
	"google.golang.org/grpc/codes"
	"google.golang.org/grpc/metadata"
	"google.golang.org/grpc/stats"
	"google.golang.org/grpc/status"
	"google.golang.org/protobuf/encoding/protojson"
	"google.golang.org/protobuf/proto"
	"google.golang.org/protobuf/reflect/protoreflect"
	"google.golang.org/protobuf/types/dynamicpb"

	"larking.io/larking"

	"verif/dyn"
	"verif/env"
	"verif/explore"
	"verif/ref/wire"
	"verif/report"
)

// C18 — interceptors and stats handlers see every RPC exactly once and change nothing.

func init() {
	register(&Check{ID: "C18", Level: "exploration", Run: runC18, Replay: replayC18})
}

type c18Case struct {
	WriteFault int    `json:"response_write_fails_at,omitempty"` // > 0: the n-th Write on the ResponseWriter fails (and every later one)
	Proto      string `json:"proto"`                             // http-json http-proto grpc web ws
	Shape      string `json:"shape"`                             // unary cs ss bidi
	Size       int    `json:"payload_size"`
	Fail       bool   `json:"handler_fails"`
	Icpt       string `json:"interceptor"` // none pass reply error short
	Stats      bool   `json:"stats"`
	MD         bool   `json:"handler_sets_metadata"`
}

type icptLog struct {
	unary, stream int
	method        string
	cs, ss        bool
}

type statsLog struct {
	events []string
	in     int
	out    int
	endErr []error
	tag    string
	// well-formedness of the single events: a server-side event must not claim to be a client
	// event, and InHeader names the message compression the request announced
	clientSide []string
	inComp     []string
}

func (s *statsLog) TagRPC(ctx context.Context, i *stats.RPCTagInfo) context.Context {
	s.events = append(s.events, "Tag")
	s.tag = i.FullMethodName
	return ctx
}
func (s *statsLog) HandleRPC(ctx context.Context, st stats.RPCStats) {
	if st.IsClient() {
		s.clientSide = append(s.clientSide, fmt.Sprintf("%T", st))
	}
	switch v := st.(type) {
	case *stats.InHeader:
		s.events = append(s.events, "InHeader")
		s.inComp = append(s.inComp, v.Compression)
	case *stats.Begin:
		s.events = append(s.events, "Begin")
	case *stats.InPayload:
		s.events = append(s.events, "InPayload")
		s.in++
	case *stats.OutHeader:
		s.events = append(s.events, "OutHeader")
	case *stats.OutPayload:
		s.events = append(s.events, "OutPayload")
		s.out++
	case *stats.OutTrailer:
		s.events = append(s.events, "OutTrailer")
	case *stats.InTrailer:
		s.events = append(s.events, "InTrailer")
	case *stats.End:
		s.events = append(s.events, "End")
		s.endErr = append(s.endErr, v.Error)
	default:
		s.events = append(s.events, fmt.Sprintf("%T", st))
	}
}
func (s *statsLog) TagConn(ctx context.Context, i *stats.ConnTagInfo) context.Context { return ctx }
func (s *statsLog) HandleConn(context.Context, stats.ConnStats)                       {}

type c18Env struct {
	t     *tSchema
	muxes map[string]*larking.Mux
	impls map[string]*tImpl
	il    map[string]*icptLog
	sl    map[string]*statsLog
}

func newC18Env() *c18Env {
	t, err := newTSchema()
	if err != nil {
		panic(err)
	}
	return &c18Env{t: t, muxes: map[string]*larking.Mux{}, impls: map[string]*tImpl{}, il: map[string]*icptLog{}, sl: map[string]*statsLog{}}
}

// shapes beyond the four call shapes: other ways HTTP transcoding builds the request message
// or the response body (URL-only GET, google.api.HttpBody request/response, streamed HttpBody
// upload, response_body selector).
var c18Method = map[string]string{"unary": "Unary", "cs": "CS", "ss": "SS", "bidi": "Bidi", "get": "Unary", "get-ss": "SS", "raw": "Raw", "sel": "Sel", "up": "Upload"}

func c18Unary(shape string) bool {
	switch shape {
	case "unary", "get", "raw", "sel":
		return true
	}
	return false
}

var errIntercepted = status.Error(codes.AlreadyExists, "intercepted")
var errBlocked = status.Error(codes.Unauthenticated, "blocked")

func (e *c18Env) mux(icpt string, st bool) (*larking.Mux, *tImpl, *icptLog, *statsLog) {
	key := fmt.Sprintf("%s|%v", icpt, st)
	if m, ok := e.muxes[key]; ok {
		return m, e.impls[key], e.il[key], e.sl[key]
	}
	il, sl := &icptLog{}, &statsLog{}
	var opts []larking.MuxOption
	if icpt != "none" {
		opts = append(opts, larking.UnaryServerInterceptorOption(func(ctx context.Context, req interface{}, info *grpc.UnaryServerInfo, handler grpc.UnaryHandler) (interface{}, error) {
			il.unary++
			il.method = info.FullMethod
			if icpt == "short" {
				return nil, errBlocked
			}
			rsp, err := handler(ctx, req)
			switch icpt {
			case "reply":
				if err == nil && rsp.(proto.Message).ProtoReflect().Descriptor() == e.t.rsp {
					return e.t.newRsp("intercepted", nil, 42), nil
				}
			case "error":
				return nil, errIntercepted
			}
			return rsp, err
		}), larking.StreamServerInterceptorOption(func(srv interface{}, ss grpc.ServerStream, info *grpc.StreamServerInfo, handler grpc.StreamHandler) error {
			il.stream++
			il.method = info.FullMethod
			il.cs, il.ss = info.IsClientStream, info.IsServerStream
			if icpt == "short" {
				return errBlocked
			}
			err := handler(srv, ss)
			if icpt == "error" {
				return errIntercepted
			}
			return err
		}))
	}
	if st {
		opts = append(opts, larking.StatsOption(sl))
	}
	m, impl, err := e.t.newMux(opts...)
	if err != nil {
		panic(err)
	}
	e.muxes[key], e.impls[key], e.il[key], e.sl[key] = m, impl, il, sl
	return m, impl, il, sl
}

type c18Obs struct {
	code    int
	status  string
	msgs    []string
	headers string
	body    string
}

func (e *c18Env) call(tc *c18Case, icpt string, st bool) (obs c18Obs, lg hLog, il icptLog, sl statsLog, oracle, note string) {
	mx, impl, ilp, slp := e.mux(icpt, st)
	*ilp, *slp = icptLog{}, statsLog{}
	var m http.Handler = mx
	if tc.WriteFault > 0 {
		m = faultMux{mx, tc.WriteFault}
	}
	herr := error(nil)
	if tc.Fail {
		herr = status.Error(codes.FailedPrecondition, "handler-failed")
	}
	nIn := 1
	if tc.Shape == "cs" || tc.Shape == "bidi" {
		nIn = 2
	}
	// single-field replies: dynamicpb marshals fields in map order, one field keeps bytes comparable
	replies := []proto.Message{e.t.newRsp("", c06Payload(9, tc.Size), 0)}
	if tc.Shape == "ss" || tc.Shape == "bidi" {
		replies = append(replies, e.t.newRsp("", nil, 0)) // an empty second reply
	}
	newBody := func(ct string, data []byte) proto.Message {
		b := dynamicpb.NewMessage(e.t.body)
		if ct != "" {
			b.Set(e.t.body.Fields().ByName("content_type"), protoreflect.ValueOfString(ct))
		}
		if len(data) > 0 {
			b.Set(e.t.body.Fields().ByName("data"), protoreflect.ValueOfBytes(data))
		}
		return b
	}
	switch tc.Shape {
	case "raw":
		replies = []proto.Message{newBody("application/x-raw", c06Payload(9, tc.Size))}
	case "up":
		replies = []proto.Message{newBody("application/x-raw", c06Payload(9, tc.Size)), newBody("", []byte("tail"))}
	case "sel":
		w := dynamicpb.NewMessage(e.t.wrap)
		w.Set(e.t.wrap.Fields().ByName("rsp"), protoreflect.ValueOfMessage(e.t.newRsp("", c06Payload(9, tc.Size), 0).ProtoReflect()))
		replies = []proto.Message{w}
	case "get-ss":
		replies = append(replies, e.t.newRsp("", nil, 0))
	}
	hs := hScript{RecvN: -1, Replies: replies, Err: herr, ErrAfter: 1}
	if tc.Proto == "ws" {
		hs.RecvN = nIn
	}
	if tc.MD {
		hs.Header = metadata.Pairs("x-h", "hv")
		hs.Trailer = metadata.Pairs("x-t", "tv")
	}
	impl.reset(hs)
	var pbs, jss [][]byte
	for i := 0; i < nIn; i++ {
		sz := tc.Size
		if i == 1 {
			sz = 0
		}
		var rm proto.Message
		if sz == 0 && i == 1 {
			rm = e.t.newReq("", nil, 0) // an empty message
		} else {
			rm = e.t.newReq("", c06Payload(i, sz), 0)
		}
		pb, _ := proto.Marshal(rm)
		js, _ := protojson.Marshal(rm)
		pbs, jss = append(pbs, pb), append(jss, js)
	}
	method := c18Method[tc.Shape]
	full := "/vs.T/" + method
	var res *callResult
	switch {
	case tc.Shape == "get" || tc.Shape == "get-ss":
		res = doHTTP(m, "GET", map[string]string{"get": "/t/unary/", "get-ss": "/t/ss/"}[tc.Shape]+strings.Repeat("v", tc.Size+1), "", http.Header{}, reqBody{CL: 0})
	case tc.Shape == "raw" || tc.Shape == "up":
		body := c06Payload(0, tc.Size)
		cl := int64(-1)
		if len(body) == 0 {
			cl = 0
		}
		res = doHTTP(m, "POST", map[string]string{"raw": "/t/raw/f.bin", "up": "/t/up/f.bin"}[tc.Shape], "", http.Header{"Content-Type": {"application/octet-stream"}}, reqBody{Data: body, CL: cl})
	case tc.Shape == "sel":
		res = doHTTP(m, "POST", "/t/sel", "", http.Header{"Content-Type": {"application/json"}}, reqBody{Data: jss[0], CL: -1})
	}
	switch tc.Proto {
	case "http-json":
		if res != nil {
			break
		}
		var body []byte
		for _, j := range jss {
			body = append(body, j...)
		}
		res = doHTTP(m, "POST", shapeRoute[tc.Shape], "", http.Header{"Content-Type": {"application/json"}}, reqBody{Data: body, CL: -1})
	case "http-proto":
		var body []byte
		for _, p := range pbs {
			if tc.Shape == "cs" || tc.Shape == "bidi" {
				body = append(body, refVarint(uint64(len(p)))...)
			}
			body = append(body, p...)
		}
		cl := int64(-1)
		if len(body) == 0 {
			cl = 0
		}
		res = doHTTP(m, "POST", shapeRoute[tc.Shape], "", http.Header{"Content-Type": {"application/protobuf"}}, reqBody{Data: body, CL: cl})
	case "grpc", "web", "grpc-gzip", "web-gzip":
		var body []byte
		var hdr http.Header
		gz := strings.HasSuffix(tc.Proto, "-gzip")
		if gz {
			hdr = http.Header{"Grpc-Encoding": {"gzip"}, "Grpc-Accept-Encoding": {"gzip"}}
		}
		for _, p := range pbs {
			if gz {
				body = append(body, wire.GRPCFrame(1, gzipBytes(p))...)
			} else {
				body = append(body, wire.GRPCFrame(0, p)...)
			}
		}
		if strings.HasPrefix(tc.Proto, "grpc") {
			res = doGRPC(m, full, "application/grpc", hdr, reqBody{Data: body})
		} else {
			res = doWeb(m, full, "application/grpc-web+proto", hdr, reqBody{Data: body})
		}
	case "ws":
		var frames []byte
		for _, j := range jss {
			frames = append(frames, wsText(j)...)
		}
		res = doWS(m, "/ws/"+tc.Shape, "", nil, frames, nil)
	}
	if res.Panicked {
		return obs, impl.log, *ilp, *slp, "panic", res.Panic
	}
	obs.code = res.HTTPCode
	if strings.HasPrefix(tc.Proto, "http") && res.HTTPCode != 200 {
		res.parseHTTPStatus()
	}
	if res.Status != nil {
		obs.status = fmt.Sprintf("%d:%s", res.Status.Code, res.Status.Message)
	}
	for _, p := range res.Msgs {
		obs.msgs = append(obs.msgs, fmt.Sprintf("%x", p))
	}
	var hk []string
	for k, vs := range res.Header {
		if k == "Date" {
			continue
		}
		hk = append(hk, fmt.Sprintf("%s=%q", k, vs))
	}
	sort.Strings(hk)
	obs.headers = strings.Join(hk, ";")
	obs.body = fmt.Sprintf("%x", res.Body)
	if tc.Proto == "ws" && res.Conn != nil {
		obs.body = fmt.Sprintf("%x", res.Conn.W.Bytes())
	}
	return obs, impl.log, *ilp, *slp, "", ""
}

func (e *c18Env) exec(tc *c18Case) (oracle, note string) {
	base, baseLog, _, _, o, n := e.call(tc, "none", false)
	if o != "" {
		return o + "-baseline", n
	}
	if baseLog.Calls != 1 {
		return "harness", fmt.Sprintf("baseline handler calls=%d http=%d", baseLog.Calls, base.code)
	}
	obs, lg, il, sl, o, n := e.call(tc, tc.Icpt, tc.Stats)
	if o != "" {
		return o, n
	}
	unaryMethod := c18Unary(tc.Shape)
	full := "/vs.T/" + c18Method[tc.Shape]
	// ---- interceptors
	if tc.Icpt != "none" {
		wantU, wantS := 0, 1
		if unaryMethod {
			wantU, wantS = 1, 0
		}
		if il.unary != wantU || il.stream != wantS {
			return "interceptor-count", fmt.Sprintf("unary interceptor ran %d times (want %d), stream interceptor %d times (want %d)", il.unary, wantU, il.stream, wantS)
		}
		if il.method != full {
			return "interceptor-method", fmt.Sprintf("FullMethod %q want %q", il.method, full)
		}
		if !unaryMethod {
			wcs := tc.Shape == "cs" || tc.Shape == "bidi" || tc.Shape == "up"
			wss := tc.Shape == "ss" || tc.Shape == "bidi" || tc.Shape == "up" || tc.Shape == "get-ss"
			if il.cs != wcs || il.ss != wss {
				return "interceptor-flags", fmt.Sprintf("IsClientStream=%v IsServerStream=%v for shape %s", il.cs, il.ss, tc.Shape)
			}
		}
		wantCalls := 1
		if tc.Icpt == "short" {
			wantCalls = 0
		}
		if lg.Calls != wantCalls {
			return "handler-count", fmt.Sprintf("handler ran %d times, want %d", lg.Calls, wantCalls)
		}
	}
	// ---- what the client gets is what the interceptor returned
	wantStatus := ""
	switch {
	case tc.Icpt == "short":
		wantStatus = fmt.Sprintf("%d:%s", codes.Unauthenticated, "blocked")
	case tc.Icpt == "error":
		wantStatus = fmt.Sprintf("%d:%s", codes.AlreadyExists, "intercepted")
	}
	if wantStatus != "" {
		got := obs.status
		if tc.Proto == "ws" {
			// close frames carry a close code, only the message is comparable
			if !strings.HasSuffix(got, ":"+strings.SplitN(wantStatus, ":", 2)[1]) {
				return "interceptor-result-lost", fmt.Sprintf("client sees %q, interceptor returned %q", got, wantStatus)
			}
		} else if strings.HasPrefix(tc.Proto, "http") && lg.SendOK > 0 {
			// error after HTTP stream messages: framing not demanded
		} else if got != wantStatus {
			return "interceptor-result-lost", fmt.Sprintf("client sees %q, interceptor returned %q", got, wantStatus)
		}
	}
	if tc.Icpt == "reply" && (tc.Shape == "unary" || tc.Shape == "get") && !tc.Fail {
		want := e.t.newRsp("intercepted", nil, 42)
		ok := false
		switch tc.Proto {
		case "http-json", "ws":
			got := e.t.newRsp("", nil, 0)
			var raw []byte
			if tc.Proto == "ws" {
				if len(obs.msgs) == 1 {
					raw = unhex(obs.msgs[0])
				}
			} else {
				raw = unhex(obs.body)
			}
			ok = protojson.Unmarshal(raw, got) == nil && proto.Equal(got, want)
		case "http-proto":
			got := e.t.newRsp("", nil, 0)
			ok = proto.Unmarshal(unhex(obs.body), got) == nil && proto.Equal(got, want)
		default:
			if len(obs.msgs) == 1 {
				got := e.t.newRsp("", nil, 0)
				ok = proto.Unmarshal(unhex(obs.msgs[0]), got) == nil && proto.Equal(got, want)
			}
		}
		if !ok {
			return "interceptor-result-lost", fmt.Sprintf("client did not receive the reply the interceptor returned (msgs=%v body=%s)", obs.msgs, truncS(obs.body, 80))
		}
	}
	// ---- transparency: pass-through options change nothing
	if tc.Icpt == "none" || tc.Icpt == "pass" {
		if obs.code != base.code || obs.status != base.status || fmt.Sprint(obs.msgs) != fmt.Sprint(base.msgs) || obs.body != base.body {
			return "options-change-outcome", fmt.Sprintf("without options: http=%d status=%q msgs=%d body=%s ; with interceptor=%s stats=%v: http=%d status=%q msgs=%d body=%s", base.code, base.status, len(base.msgs), truncS(base.body, 60), tc.Icpt, tc.Stats, obs.code, obs.status, len(obs.msgs), truncS(obs.body, 60))
		}
		if obs.headers != base.headers {
			return "options-change-headers", fmt.Sprintf("without options: %s ; with interceptor=%s stats=%v: %s", base.headers, tc.Icpt, tc.Stats, obs.headers)
		}
	}
	// ---- stats
	if tc.Stats {
		ev := strings.Join(sl.events, " ")
		if len(sl.events) < 4 || sl.events[0] != "Tag" || sl.events[1] != "InHeader" || sl.events[2] != "Begin" {
			return "stats-sequence", "must start with Tag InHeader Begin: " + ev
		}
		ends := 0
		for i, e := range sl.events {
			switch e {
			case "End":
				ends++
				if i != len(sl.events)-1 {
					return "stats-sequence", "End is not the last event: " + ev
				}
			case "Tag", "InHeader", "Begin":
				if i > 2 {
					return "stats-sequence", e + " repeated: " + ev
				}
			case "OutTrailer":
				if i != len(sl.events)-2 {
					return "stats-sequence", "OutTrailer not directly before End: " + ev
				}
			case "InPayload", "OutPayload", "OutHeader":
			default:
				return "stats-sequence", "unexpected event " + e + ": " + ev
			}
		}
		if ends != 1 {
			return "stats-end-count", fmt.Sprintf("%d End events: %s", ends, ev)
		}
		if sl.tag != full {
			return "stats-method", fmt.Sprintf("TagRPC FullMethodName %q want %q", sl.tag, full)
		}
		if len(sl.clientSide) > 0 {
			return "stats-client-flag", fmt.Sprintf("server-side events that report IsClient()==true: %v", sl.clientSide)
		}
		if strings.HasPrefix(tc.Proto, "grpc") || strings.HasPrefix(tc.Proto, "web") {
			want := ""
			if strings.HasSuffix(tc.Proto, "-gzip") {
				want = "gzip"
			}
			if len(sl.inComp) != 1 || sl.inComp[0] != want {
				return "stats-inheader-compression", fmt.Sprintf("InHeader.Compression=%q, the request announced grpc-encoding %q", sl.inComp, want)
			}
		}
		// End carries the error the handler chain returned
		var wantErr error
		switch {
		case tc.Icpt == "short":
			wantErr = errBlocked
		case tc.Icpt == "error":
			wantErr = errIntercepted
		case tc.Fail:
			wantErr = status.Error(codes.FailedPrecondition, "handler-failed")
		}
		gotErr := sl.endErr[0]
		if (wantErr == nil) != (gotErr == nil) || (wantErr != nil && status.Convert(gotErr).Message() != status.Convert(wantErr).Message()) {
			return "stats-end-error", fmt.Sprintf("End.Error=%v, the handler chain returned %v", gotErr, wantErr)
		}
		if tc.Proto != "ws" { // payload events are not demanded on WebSocket
			wantIn := len(lg.Recv)
			if unaryMethod && tc.Icpt == "short" {
				wantIn = 1 // the request of a unary call is decoded before the interceptor runs
			}
			if sl.in != wantIn {
				return "stats-inpayload-count", fmt.Sprintf("%d InPayload events, %d messages were received: %s", sl.in, wantIn, ev)
			}
			sent := lg.SendOK
			if unaryMethod && lg.Calls == 1 && !tc.Fail && tc.Icpt != "error" {
				sent = 1
			}
			if sl.out != sent {
				return "stats-outpayload-count", fmt.Sprintf("%d OutPayload events, %d messages were sent: %s", sl.out, sent, ev)
			}
		}
	}
	return "", ""
}

// faultMux makes the n-th Write (and every later one) on the response fail, the way a
// connection that went away does.
type faultMux struct {
	h http.Handler
	n int
}

var errWriteFault = errors.New("write tcp 192.0.2.1:1: broken pipe")

func (f faultMux) ServeHTTP(w http.ResponseWriter, r *http.Request) {
	if rec, ok := w.(*env.Recorder); ok {
		rec.FailWriteAt, rec.WriteErr = f.n, errWriteFault
	}
	f.h.ServeHTTP(w, r)
}

// execWriteFault: the response Write fails at position n. What the client sees is no longer
// defined; what interceptors and the stats handler see still is: the handler chain runs exactly
// once, Tag/InHeader/Begin come first and once, End comes last and exactly once, nothing panics.
func (e *c18Env) execWriteFault(tc *c18Case) (oracle, note string, writes int) {
	_, lg, il, sl, o, n := e.call(tc, tc.Icpt, tc.Stats)
	if o != "" {
		return o, n, 0
	}
	if lg.Calls > 1 {
		return "handler-count", fmt.Sprintf("handler ran %d times", lg.Calls), 0
	}
	if tc.Icpt != "none" && il.unary+il.stream != 1 {
		return "interceptor-count", fmt.Sprintf("unary interceptor ran %d times, stream interceptor %d times", il.unary, il.stream), 0
	}
	if tc.Stats {
		ev := strings.Join(sl.events, " ")
		if len(sl.events) < 4 || sl.events[0] != "Tag" || sl.events[1] != "InHeader" || sl.events[2] != "Begin" {
			return "stats-sequence", "must start with Tag InHeader Begin: " + ev, 0
		}
		ends := 0
		for i, x := range sl.events {
			switch x {
			case "End":
				ends++
				if i != len(sl.events)-1 {
					return "stats-sequence", "End is not the last event: " + ev, 0
				}
			case "Tag", "InHeader", "Begin":
				if i > 2 {
					return "stats-sequence", x + " repeated: " + ev, 0
				}
			}
		}
		if ends != 1 {
			return "stats-end-count", fmt.Sprintf("%d End events: %s", ends, ev), 0
		}
		// a reply whose SendMsg failed was not sent: one out-payload event per message the handler
		// got a nil error for (streaming handlers see the failure themselves)
		if (tc.Shape == "ss" || tc.Shape == "bidi" || tc.Shape == "get-ss") && lg.Calls == 1 && tc.Icpt != "error" && sl.out != lg.SendOK {
			return "stats-outpayload-count", fmt.Sprintf("%d OutPayload events, %d SendMsg calls succeeded (errors: %v): %s", sl.out, lg.SendOK, lg.SendErrs, ev), 0
		}
	}
	return "", "", 0
}

func c18WriteFaults(c *Ctx) {
	r := c.Run
	var cases []c18Case
	for _, p := range []string{"http-json", "http-proto", "grpc", "web", "grpc-gzip", "web-gzip"} {
		for _, sh := range []string{"unary", "cs", "ss", "bidi"} {
			for _, fail := range []bool{false, true} {
				for _, ic := range []string{"none", "pass", "error"} {
					for _, sz := range []int{5, 5000} {
						for k := 1; k <= 8; k++ {
							cases = append(cases, c18Case{Proto: p, Shape: sh, Size: sz, Fail: fail, Icpt: ic, Stats: true, MD: k%2 == 0, WriteFault: k})
						}
					}
				}
			}
		}
	}
	for _, sh := range []string{"get-ss", "raw", "up", "sel"} {
		for k := 1; k <= 6; k++ {
			cases = append(cases, c18Case{Proto: "http-json", Shape: sh, Size: 5000, Icpt: "pass", Stats: true, WriteFault: k})
		}
	}
	envs := make([]*c18Env, explore.Workers)
	explore.ParallelFor(len(cases), func() bool { return r.TooManyViolations() }, func(w, i int) {
		if envs[w] == nil {
			envs[w] = newC18Env()
		}
		tc := &cases[i]
		oracle, note, _ := envs[w].execWriteFault(tc)
		r.Eval(1)
		if oracle != "" {
			r.Outcome("FAIL:" + oracle)
			r.Violation(report.Violation{Oracle: oracle, Key: fmt.Sprintf("%s write-fault-at=%d proto=%s shape=%s size=%d fail=%v icpt=%s md=%v", oracle, tc.WriteFault, tc.Proto, tc.Shape, tc.Size, tc.Fail, tc.Icpt, tc.MD), Case: *tc, Note: note})
			return
		}
		r.Outcome("ok:write-fault:" + tc.Proto)
		r.Distinct(fmt.Sprintf("%+v", *tc))
	})
}

// c18EarlyExits: RPCs that stop outside the handler's ordinary return path - a request body that
// does not decompress, a deadline that has passed before anything was sent, a WebSocket whose
// close frame cannot be written. Whatever the client gets, a stats handler that was told an RPC
// began is told exactly once that it ended (and never about an RPC that never began).
func c18EarlyExits(c *Ctx) {
	r := c.Run
	e := newC18Env()
	reqMsg := e.t.newReq("q", []byte("payload"), 3)
	pb, _ := proto.Marshal(reqMsg)
	js, _ := protojson.Marshal(reqMsg)
	type probe struct {
		name string
		run  func(m http.Handler) serveResult
	}
	var probes []probe
	for _, sh := range []string{"unary", "cs", "ss", "bidi"} {
		sh := sh
		route, full := shapeRoute[sh], "/vs.T/"+c18Method[sh]
		for _, bad := range []struct {
			name string
			body []byte
		}{{"garbage", []byte("this is not gzip")}, {"empty", nil}, {"cut-header", gzipBytes(js)[:5]}, {"cut-stream", gzipBytes(js)[:14]}} {
			bad := bad
			for _, ct := range []string{"application/json", "application/protobuf"} {
				ct := ct
				probes = append(probes, probe{fmt.Sprintf("http %s %s Content-Encoding:gzip body=%s", sh, ct, bad.name), func(m http.Handler) serveResult {
					req := newPostRequest(route, http.Header{"Content-Type": {ct}, "Content-Encoding": {"gzip"}}, env.NewReader(env.Script{Data: bad.body}), -1)
					return serveReq(m, req)
				}})
			}
		}
		for _, to := range []string{"1n", "1u"} {
			to := to
			probes = append(probes, probe{fmt.Sprintf("grpc %s grpc-timeout=%s", sh, to), func(m http.Handler) serveResult {
				req := newPostRequest(full, http.Header{"Content-Type": {"application/grpc"}, "Te": {"trailers"}, "Grpc-Timeout": {to}}, env.NewReader(env.Script{Data: wire.GRPCFrame(0, pb)}), -1)
				req.Proto, req.ProtoMajor, req.ProtoMinor = "HTTP/2.0", 2, 0
				time.Sleep(time.Millisecond)
				return serveReq(m, req)
			}}, probe{fmt.Sprintf("grpc-web %s grpc-timeout=%s", sh, to), func(m http.Handler) serveResult {
				req := newPostRequest(full, http.Header{"Content-Type": {"application/grpc-web+proto"}, "Grpc-Timeout": {to}}, env.NewReader(env.Script{Data: wire.GRPCFrame(0, pb)}), -1)
				return serveReq(m, req)
			}})
		}
		if sh != "cs" {
			for k := 1; k <= 4; k++ {
				k := k
				probes = append(probes, probe{fmt.Sprintf("websocket %s, the connection fails at its write #%d", sh, k), func(m http.Handler) serveResult {
					res := doWSPrep(m, "/ws/"+sh, "", nil, append(wsText(js), wsClose(1000, "")...), nil, func(cn *env.Conn, rq *http.Request) *http.Request {
						cn.FailWriteAt = k
						return rq
					})
					return serveResult{Panicked: res.Panicked, Panic: res.Panic, Code: res.HTTPCode}
				}})
			}
		}
	}
	for _, fail := range []bool{false, true} {
		for _, ic := range []string{"none", "pass"} {
			m, impl, ilp, slp := e.mux(ic, true)
			for _, p := range probes {
				*ilp, *slp = icptLog{}, statsLog{}
				hs := hScript{RecvN: -1, Replies: []proto.Message{e.t.newRsp("", []byte("r"), 0)}}
				if fail {
					hs.Err = status.Error(codes.FailedPrecondition, "handler-failed")
				}
				impl.reset(hs)
				sr := p.run(m)
				r.Eval(1)
				key := fmt.Sprintf("early-exit %s handler-fails=%v interceptor=%s", p.name, fail, ic)
				cs := map[string]any{"kind": "early-exit", "probe": p.name, "handler_fails": fail, "interceptor": ic}
				ev := strings.Join(slp.events, " ")
				begins, ends := 0, 0
				for _, x := range slp.events {
					switch x {
					case "Begin":
						begins++
					case "End":
						ends++
					}
				}
				switch {
				case sr.Panicked:
					r.Outcome("FAIL:panic")
					r.Violation(report.Violation{Oracle: "panic", Key: "panic " + key, Case: cs, Note: sr.Panic})
				case begins > 1 || ends != begins:
					r.Outcome("FAIL:stats-end-count")
					if os.Getenv("VERIF_DEBUG") != "" {
						fmt.Println("DBG", key, "|", ev)
					}
					r.Violation(report.Violation{Oracle: "stats-end-count", Key: "stats-end-count " + key, Case: cs, Note: fmt.Sprintf("%d Begin and %d End events: %s", begins, ends, ev)})
				case ends == 1 && slp.events[len(slp.events)-1] != "End":
					r.Outcome("FAIL:stats-sequence")
					r.Violation(report.Violation{Oracle: "stats-sequence", Key: "stats-sequence " + key, Case: cs, Note: "End is not the last event: " + ev})
				case impl.log.Calls > 1:
					r.Outcome("FAIL:handler-count")
					r.Violation(report.Violation{Oracle: "handler-count", Key: "handler-count " + key, Case: cs, Note: fmt.Sprintf("handler ran %d times", impl.log.Calls)})
				default:
					r.Outcome(fmt.Sprintf("ok:early-exit:begin=%d", begins))
					r.Distinct(key)
				}
			}
		}
	}
}

func c18Cases(thorough bool) []c18Case {
	var out []c18Case
	for _, p := range []string{"http-json", "http-proto", "grpc", "web", "grpc-gzip", "web-gzip", "ws"} {
		for _, sh := range []string{"unary", "cs", "ss", "bidi"} {
			if p == "ws" && sh == "cs" {
				continue
			}
			sizes := []int{0, 1, 2, 3, 4, 5, 6, 100}
			if thorough {
				sizes = append(sizes, 7, 8, 9, 125, 126, 127, 128, 129, 1000, 5000, 16384, 70000)
			}
			for _, sz := range sizes {
				for _, fail := range []bool{false, true} {
					for _, ic := range []string{"none", "pass", "reply", "error", "short"} {
						for _, st := range []bool{false, true} {
							if ic == "none" && !st {
								continue
							}
							for _, md := range []bool{false, true} {
								if md && sz != 0 && sz != 5 && !thorough {
									continue
								}
								out = append(out, c18Case{Proto: p, Shape: sh, Size: sz, Fail: fail, Icpt: ic, Stats: st, MD: md})
							}
						}
					}
				}
			}
		}
	}
	for _, sh := range []string{"get", "get-ss", "raw", "sel", "up"} {
		sizes := []int{0, 1, 5, 100, 5000}
		if thorough {
			sizes = append(sizes, 2, 3, 4, 127, 128, 1000, 4095, 4096, 4097, 16384, 70000, 300000)
		}
		for _, sz := range sizes {
			for _, fail := range []bool{false, true} {
				for _, ic := range []string{"none", "pass", "reply", "error", "short"} {
					for _, st := range []bool{false, true} {
						if ic == "none" && !st {
							continue
						}
						out = append(out, c18Case{Proto: "http-json", Shape: sh, Size: sz, Fail: fail, Icpt: ic, Stats: st})
					}
				}
			}
		}
	}
	return out
}

func runC18(c *Ctx) {
	r := c.Run
	r.Rule("protocol{HTTP json, HTTP protobuf, gRPC, gRPC-web, gRPC and gRPC-web with gzip negotiated, WebSocket} × shape{unary, client-, server-, bidi-streaming; and for HTTP transcoding also: URL-only GET (unary and server-streaming), google.api.HttpBody request+response, streamed HttpBody upload, response_body selector} × payload size{0,1,2,3,4,5,6,100} (total message sizes from 0 bytes upward, incl. an empty second message) × handler{ok, fails} × interceptor{none, pass-through, replaces the reply, replaces the error, short-circuits} × stats handler{off,on} × handler metadata{none, header+trailer}; each compared with the same call on a mux without options; plus response-write faults: the 1st..8th Write on the ResponseWriter fails (and all later ones) on every protocol × shape × outcome × interceptor × sizes {5, 5000} with a stats handler: the handler chain still runs exactly once, Begin first and once, End last and exactly once, no panic; plus early exits (a gzip request body that does not decompress - garbage, empty, cut in the header, cut in the stream; a grpc-timeout that has passed before anything is sent, on gRPC and gRPC-web; a WebSocket whose connection fails at its 1st..4th write) × shape × handler outcome × interceptor: a Begin is followed by exactly one End; distinct = all case parameters")
	r.Assume("payload events are not demanded on WebSocket (the property lists HTTP transcoding, gRPC and gRPC-web)", "the framing of an error after HTTP stream messages is not demanded")
	cases := c18Cases(c.Thorough())
	envs := make([]*c18Env, explore.Workers)
	explore.ParallelFor(len(cases), func() bool { return r.TooManyViolations() }, func(w, i int) {
		if envs[w] == nil {
			envs[w] = newC18Env()
		}
		tc := &cases[i]
		oracle, note := envs[w].exec(tc)
		r.Eval(1)
		if oracle != "" {
			r.Outcome("FAIL:" + oracle)
			r.Violation(report.Violation{Oracle: oracle, Key: fmt.Sprintf("%s proto=%s shape=%s size=%d fail=%v icpt=%s stats=%v md=%v", oracle, tc.Proto, tc.Shape, tc.Size, tc.Fail, tc.Icpt, tc.Stats, tc.MD), Case: *tc, Note: note})
			return
		}
		r.Outcome("ok:" + tc.Proto + ":" + tc.Icpt)
		r.Distinct(fmt.Sprintf("%+v", *tc))
		if r.WantSample() && i%397 == 5 {
			r.Sample(*tc)
		}
	})
	c18WriteFaults(c)
	c18EarlyExits(c)
	c18LeftBehind(c)
}

func replayC18(c *Ctx, v report.Violation) {
	if m, ok := v.Case.(map[string]any); ok && m["family"] == "left-behind" {
		sub := *c
		sub.Run = report.NewRun("C18", "quick", 0, "exploration")
		c18LeftBehind(&sub)
		fmt.Printf("replay: left-behind family re-run -> %d violations\n", sub.Run.NumViolations())
		if sub.Run.NumViolations() > 0 {
			c.Run.Violation(v)
		}
		return
	}
	var tc c18Case
	if !remarshal(v.Case, &tc) {
		fmt.Println("replay: cannot decode case")
		return
	}
	oracle, note := "", ""
	if tc.WriteFault > 0 {
		oracle, note, _ = newC18Env().execWriteFault(&tc)
	} else {
		oracle, note = newC18Env().exec(&tc)
	}
	fmt.Printf("replay: %+v -> oracle=%q %s\n", tc, oracle, note)
	if oracle != "" {
		c.Run.Violation(report.Violation{Oracle: oracle, Key: v.Key, Case: tc, Note: note})
	}
}

// ---- a goroutine the handler left behind keeps receiving ------------------------------------
//
// What larking's own proxy handler does: the handler returns while its pump goroutine is still
// in (or about to make) a RecvMsg on the front stream. Whatever that late call does, the RPC
// is over once the stats handler has been told End: no event may follow it.

type leftStats struct {
	mu     sync.Mutex
	events []string
	onEnd  func()
}

func (s *leftStats) TagRPC(ctx context.Context, i *stats.RPCTagInfo) context.Context { return ctx }
func (s *leftStats) HandleRPC(ctx context.Context, st stats.RPCStats) {
	s.mu.Lock()
	s.events = append(s.events, strings.TrimPrefix(fmt.Sprintf("%T", st), "*stats."))
	s.mu.Unlock()
	if _, ok := st.(*stats.End); ok && s.onEnd != nil {
		s.onEnd() // the late call happens exactly now: after End was reported, before ServeHTTP returns
	}
}
func (s *leftStats) TagConn(ctx context.Context, i *stats.ConnTagInfo) context.Context { return ctx }
func (s *leftStats) HandleConn(context.Context, stats.ConnStats)                       {}

type leftImpl struct {
	goAhead chan struct{}
	done    chan struct{}
	lateErr error
}

func (l *leftImpl) Unary(c *dyn.Call) (proto.Message, error) {
	return dynamicpb.NewMessage(c.Desc.Output()), nil
}
func (l *leftImpl) Stream(c *dyn.Call) error {
	st := c.Stream
	first := dynamicpb.NewMessage(c.Desc.Input())
	if err := st.RecvMsg(first); err != nil {
		close(l.done)
		return err
	}
	go func() { // left behind
		defer close(l.done)
		<-l.goAhead
		l.lateErr = st.RecvMsg(dynamicpb.NewMessage(c.Desc.Input()))
	}()
	if !c.Desc.IsStreamingServer() {
		return st.SendMsg(dynamicpb.NewMessage(c.Desc.Output()))
	}
	return nil
}

func c18LeftBehind(c *Ctx) {
	r := c.Run
	ts, err := newTSchema()
	if err != nil {
		panic(err)
	}
	pb, _ := proto.Marshal(ts.newReq("", []byte("m"), 0))
	two := append(wire.GRPCFrame(0, pb), wire.GRPCFrame(0, pb)...)
	for _, method := range []string{"/vs.T/CS", "/vs.T/Bidi"} {
		for _, front := range []string{"grpc", "web"} {
			for _, when := range []string{"during-end", "after-return"} {
				impl := &leftImpl{goAhead: make(chan struct{}), done: make(chan struct{})}
				sl := &leftStats{}
				release := func() {
					close(impl.goAhead)
					select {
					case <-impl.done:
					case <-time.After(20 * time.Second): // a late call parked for good is C09's subject, not this oracle's
					}
				}
				if when == "during-end" {
					sl.onEnd = release
				}
				m, err := larking.NewMux(append(append([]larking.MuxOption{}, ts.opts...), larking.StatsOption(sl))...)
				if err != nil {
					panic(err)
				}
				if err := m.VerifRegisterService(ts.gsd, dyn.NewServer(impl)); err != nil {
					panic(err)
				}
				var res *callResult
				if front == "grpc" {
					res = doGRPC(m, method, "application/grpc", nil, reqBody{Data: two})
				} else {
					res = doWeb(m, method, "application/grpc-web+proto", nil, reqBody{Data: two})
				}
				if when == "after-return" {
					release()
				}
				r.Eval(1)
				key := fmt.Sprintf("left-behind receiver %s front=%s late-call=%s", method, front, when)
				r.Distinct(key)
				cs := map[string]any{"family": "left-behind", "method": method, "front": front, "when": when}
				if res.Panicked {
					r.Outcome("FAIL:panic")
					r.Violation(report.Violation{Oracle: "panic", Key: "panic " + key, Case: cs, Note: res.Panic})
					continue
				}
				sl.mu.Lock()
				ev := strings.Join(sl.events, " ")
				endAt := -1
				for i, e := range sl.events {
					if e == "End" && endAt < 0 {
						endAt = i
					}
				}
				tail := ""
				if endAt >= 0 && endAt != len(sl.events)-1 {
					tail = strings.Join(sl.events[endAt+1:], " ")
				}
				sl.mu.Unlock()
				switch {
				case endAt < 0:
					r.Outcome("FAIL:stats-end-count")
					r.Violation(report.Violation{Oracle: "stats-end-count", Key: "stats-end-count " + key, Case: cs, Note: "no End event: " + ev})
				case tail != "":
					r.Outcome("FAIL:stats-event-after-end")
					r.Violation(report.Violation{Oracle: "stats-event-after-end", Key: "stats-event-after-end " + key, Case: cs, Note: fmt.Sprintf("events after End: %s (all: %s); the late RecvMsg returned %v", tail, ev, impl.lateErr)})
				default:
					r.Outcome("left-behind:no-event-after-end")
				}
			}
		}
	}
}
