package props

import (
	"bytes"
	"compress/gzip"
	"context"
	"encoding/base64"
	"errors"
	"fmt"
	"io"
	"net/http"
	"net/url"
	"strconv"
	"strings"

	spb "google.golang.org/genproto/googleapis/rpc/status"
	"google.golang.org/grpc"
	"google.golang.org/grpc/metadata"
	"google.golang.org/protobuf/encoding/protojson"
	"google.golang.org/protobuf/proto"
	"google.golang.org/protobuf/reflect/protoreflect"
	"google.golang.org/protobuf/types/descriptorpb"
	"google.golang.org/protobuf/types/dynamicpb"

	"larking.io/larking"

	"verif/dyn"
	"verif/env"
	"verif/ref/wire"
)

// Multi-protocol in-process driver used by C04–C06, C08, C09, C14, C15, C18.
//
// Service vs.T (dynamic):
//
//	Unary(Req) Rsp          post /t/unary body *   | get /t/unary/{s} | websocket /ws/unary
//	(every one of the four call shapes also has a body-less websocket /ws/nobody/<shape>/{s})
//	CS(stream Req) Rsp      post /t/cs body *      | websocket /ws/cs
//	SS(Req) stream Rsp      post /t/ss body *      | get /t/ss/{s}    | websocket /ws/ss
//	Bidi(stream Req) stream Rsp  post /t/bidi body * | websocket /ws/bidi
//	Upload(stream Up) stream google.api.HttpBody   post /t/up/{filename} body file
//	Raw(Up) google.api.HttpBody                    post /t/raw/{filename} body file
//	Sel(Req) Wrap           post /t/sel body * response_body: rsp
//
//	message Req { string s = 1; bytes b = 2; int32 n = 3; }   message Rsp likewise
//	message Up  { string filename = 1; google.api.HttpBody file = 2; }
//	message Wrap { Rsp rsp = 1; string other = 2; }

type tSchema struct {
	fd   protoreflect.FileDescriptor
	reg  interface{}
	sd   protoreflect.ServiceDescriptor
	gsd  *grpc.ServiceDesc
	req  protoreflect.MessageDescriptor
	rsp  protoreflect.MessageDescriptor
	up   protoreflect.MessageDescriptor
	wrap protoreflect.MessageDescriptor
	body protoreflect.MessageDescriptor
	opts []larking.MuxOption
}

func newTSchema() (*tSchema, error) {
	ws := func(p string) dyn.Rule { return dyn.Rule{Kind: "websocket", Path: p, Body: "*"} }
	wsNoBody := func(p string) dyn.Rule { return dyn.Rule{Kind: "websocket", Path: p} } // the message comes from the URL alone
	msgs := []*descriptorpb.DescriptorProto{
		dyn.Msg("Req", dyn.Str("s", 1), dyn.Bytes("b", 2), dyn.Int32("n", 3)),
		dyn.Msg("Rsp", dyn.Str("s", 1), dyn.Bytes("b", 2), dyn.Int32("n", 3)),
		dyn.Msg("Up", dyn.Str("filename", 1), dyn.MsgField("file", 2, ".google.api.HttpBody")),
		dyn.Msg("Wrap", dyn.MsgField("rsp", 1, ".vs.Rsp"), dyn.Str("other", 2)),
	}
	f := dyn.File{Name: "vs/t.proto", Pkg: "vs", Messages: msgs, Services: []dyn.Service{{Name: "T", Methods: []dyn.Method{
		{Name: "Unary", In: "Req", Out: "Rsp", Rule: &dyn.Rule{Kind: "post", Path: "/t/unary", Body: "*", Add: []dyn.Rule{{Kind: "get", Path: "/t/unary/{s}"}, ws("/ws/unary"), wsNoBody("/ws/nobody/unary/{s}")}}},
		{Name: "CS", In: "Req", Out: "Rsp", CS: true, Rule: &dyn.Rule{Kind: "post", Path: "/t/cs", Body: "*", Add: []dyn.Rule{ws("/ws/cs"), wsNoBody("/ws/nobody/cs/{s}")}}},
		{Name: "SS", In: "Req", Out: "Rsp", SS: true, Rule: &dyn.Rule{Kind: "post", Path: "/t/ss", Body: "*", Add: []dyn.Rule{{Kind: "get", Path: "/t/ss/{s}"}, ws("/ws/ss"), wsNoBody("/ws/nobody/ss/{s}")}}},
		{Name: "Bidi", In: "Req", Out: "Rsp", CS: true, SS: true, Rule: &dyn.Rule{Kind: "post", Path: "/t/bidi", Body: "*", Add: []dyn.Rule{ws("/ws/bidi"), wsNoBody("/ws/nobody/bidi/{s}"), ws("/ws/pv/{s}")}}},
		{Name: "Upload", In: "Up", Out: ".google.api.HttpBody", CS: true, SS: true, Rule: &dyn.Rule{Kind: "post", Path: "/t/up/{filename}", Body: "file"}},
		{Name: "Raw", In: "Up", Out: ".google.api.HttpBody", Rule: &dyn.Rule{Kind: "post", Path: "/t/raw/{filename}", Body: "file"}},
		{Name: "Sel", In: "Req", Out: "Wrap", Rule: &dyn.Rule{Kind: "post", Path: "/t/sel", Body: "*", Resp: "rsp"}},
	}}}}
	fd, reg, err := f.Build()
	if err != nil {
		return nil, err
	}
	t := &tSchema{fd: fd, sd: fd.Services().Get(0)}
	t.gsd = dyn.ServiceDesc(t.sd)
	t.req = fd.Messages().ByName("Req")
	t.rsp = fd.Messages().ByName("Rsp")
	t.up = fd.Messages().ByName("Up")
	t.wrap = fd.Messages().ByName("Wrap")
	t.body = t.up.Fields().ByName("file").Message()
	t.opts = []larking.MuxOption{larking.FilesOption(reg)}
	return t, nil
}

func (t *tSchema) newReq(s string, b []byte, n int32) proto.Message {
	m := dynamicpb.NewMessage(t.req)
	setSBN(m, s, b, n)
	return m
}

func (t *tSchema) newRsp(s string, b []byte, n int32) proto.Message {
	m := dynamicpb.NewMessage(t.rsp)
	setSBN(m, s, b, n)
	return m
}

func setSBN(m protoreflect.Message, s string, b []byte, n int32) {
	fs := m.Descriptor().Fields()
	if s != "" {
		m.Set(fs.ByName("s"), protoreflect.ValueOfString(s))
	}
	if len(b) > 0 {
		m.Set(fs.ByName("b"), protoreflect.ValueOfBytes(b))
	}
	if n != 0 {
		m.Set(fs.ByName("n"), protoreflect.ValueOfInt32(n))
	}
}

// hScript tells the recording handler what to do for the next call.
type hScript struct {
	RecvN      int             // streaming-in: RecvMsg attempts; <0 = until an error (EOF)
	Replies    []proto.Message // unary / client-streaming: Replies[0] is the reply
	Err        error           // final status (nil = OK)
	ErrAfter   int             // server-streaming: return Err after this many replies (default: all)
	PingPong   bool            // bidi: recv one, send one, …
	Header     metadata.MD     // grpc.SetHeader before anything
	SendHdr    metadata.MD     // grpc.SendHeader before the first reply
	SendHdrNow bool            // streaming handlers: send SendHdr at once, even if no reply follows
	HeaderMid  metadata.MD     // grpc.SetHeader after the first reply was sent (must fail or be ignored)
	Trailer    metadata.MD     // grpc.SetTrailer before returning
	TrailerMid metadata.MD     // grpc.SetTrailer after the first reply
	OnRecv     func(i int, m proto.Message, err error)
	OnStart    func(ctx context.Context)
	RawUpload  bool // Upload: use AsHTTPBodyReader/Writer passthrough
}

type hLog struct {
	Calls    int
	Method   string
	Recv     []proto.Message
	RecvErr  error // terminal error of the receive loop (nil if RecvN was reached)
	SendErrs []error
	SendOK   int
	MD       metadata.MD
	HdrErr   []error
	RawBytes []byte
	Ctx      context.Context
}

type tImpl struct {
	t      *tSchema
	script hScript
	log    hLog
}

func (i *tImpl) reset(s hScript) { i.script, i.log = s, hLog{} }

func (i *tImpl) Unary(c *dyn.Call) (proto.Message, error) {
	s := &i.script
	i.log.Calls++
	i.log.Method = c.Method
	i.log.Ctx = c.Ctx
	i.log.MD, _ = metadata.FromIncomingContext(c.Ctx)
	i.log.Recv = append(i.log.Recv, proto.Clone(c.Req))
	if s.OnStart != nil {
		s.OnStart(c.Ctx)
	}
	if s.OnRecv != nil {
		s.OnRecv(0, c.Req, nil)
	}
	if s.Header != nil {
		i.log.HdrErr = append(i.log.HdrErr, grpc.SetHeader(c.Ctx, s.Header))
	}
	if s.SendHdr != nil {
		i.log.HdrErr = append(i.log.HdrErr, grpc.SendHeader(c.Ctx, s.SendHdr))
	}
	if s.Trailer != nil {
		i.log.HdrErr = append(i.log.HdrErr, grpc.SetTrailer(c.Ctx, s.Trailer))
	}
	if s.Err != nil {
		return nil, s.Err
	}
	if len(s.Replies) > 0 && s.Replies[0].ProtoReflect().Descriptor() == c.Desc.Output() {
		return s.Replies[0], nil
	}
	return dynamicpb.NewMessage(c.Desc.Output()), nil // generated code cannot return another type
}

func (i *tImpl) Stream(c *dyn.Call) error {
	s := &i.script
	i.log.Calls++
	i.log.Method = c.Method
	st := c.Stream
	ctx := st.Context()
	i.log.Ctx = ctx
	i.log.MD, _ = metadata.FromIncomingContext(ctx)
	if s.OnStart != nil {
		s.OnStart(ctx)
	}
	if s.Header != nil {
		i.log.HdrErr = append(i.log.HdrErr, st.SetHeader(s.Header))
	}
	if s.RawUpload {
		return i.rawUpload(c)
	}
	if s.SendHdrNow && s.SendHdr != nil {
		i.log.HdrErr = append(i.log.HdrErr, st.SendHeader(s.SendHdr))
		s.SendHdr = nil
	}
	recvOne := func() bool {
		m := dynamicpb.NewMessage(c.Desc.Input())
		err := st.RecvMsg(m)
		if s.OnRecv != nil {
			s.OnRecv(len(i.log.Recv), m, err)
		}
		if err != nil {
			i.log.RecvErr = err
			return false
		}
		i.log.Recv = append(i.log.Recv, proto.Clone(m))
		return true
	}
	sent := 0
	sendOne := func(m proto.Message) bool {
		if m.ProtoReflect().Descriptor() != c.Desc.Output() {
			m = dynamicpb.NewMessage(c.Desc.Output())
		}
		if sent == 0 && s.SendHdr != nil {
			i.log.HdrErr = append(i.log.HdrErr, st.SendHeader(s.SendHdr))
		}
		err := st.SendMsg(m)
		i.log.SendErrs = append(i.log.SendErrs, err)
		if err == nil {
			i.log.SendOK++
		}
		sent++
		if sent == 1 {
			if s.HeaderMid != nil {
				i.log.HdrErr = append(i.log.HdrErr, st.SetHeader(s.HeaderMid))
			}
			if s.TrailerMid != nil {
				st.SetTrailer(s.TrailerMid)
			}
		}
		return err == nil
	}
	cs, ss := c.Desc.IsStreamingClient(), c.Desc.IsStreamingServer()
	errAfter := len(s.Replies)
	if s.Err != nil && s.ErrAfter < len(s.Replies) {
		errAfter = s.ErrAfter
	}
	switch {
	case cs && ss && s.PingPong:
		for k := 0; s.RecvN < 0 || k < s.RecvN; k++ {
			if !recvOne() {
				break
			}
			if k < len(s.Replies) && k < errAfter {
				if !sendOne(s.Replies[k]) {
					break
				}
			}
		}
	default:
		n := s.RecvN
		if !cs {
			n = 1
		}
		for k := 0; n < 0 || k < n; k++ {
			if !recvOne() {
				break
			}
		}
		if ss {
			for k, m := range s.Replies {
				if k >= errAfter {
					break
				}
				if !sendOne(m) {
					break
				}
			}
		}
	}
	if s.Trailer != nil {
		st.SetTrailer(s.Trailer)
	}
	if s.Err != nil {
		return s.Err
	}
	if !ss {
		var m proto.Message = dynamicpb.NewMessage(c.Desc.Output())
		if len(s.Replies) > 0 {
			m = s.Replies[0]
		}
		sendOne(m)
	}
	return nil
}

func (i *tImpl) rawUpload(c *dyn.Call) error {
	req := dynamicpb.NewMessage(c.Desc.Input())
	r, err := larking.AsHTTPBodyReader(c.Stream, req)
	if err != nil {
		return err
	}
	i.log.Recv = append(i.log.Recv, proto.Clone(req))
	b, err := io.ReadAll(r)
	i.log.RawBytes = b
	i.log.RecvErr = err
	rsp := dynamicpb.NewMessage(c.Desc.Output())
	rsp.Set(rsp.Descriptor().Fields().ByName("content_type"), protoreflect.ValueOfString("application/x-raw"))
	w, err := larking.AsHTTPBodyWriter(c.Stream, rsp)
	if err != nil {
		return err
	}
	_, err = w.Write(b)
	if err != nil {
		return err
	}
	return i.script.Err
}

func (t *tSchema) newMux(extra ...larking.MuxOption) (*larking.Mux, *tImpl, error) {
	m, err := larking.NewMux(append(append([]larking.MuxOption{}, t.opts...), extra...)...)
	if err != nil {
		return nil, nil, err
	}
	impl := &tImpl{t: t}
	if err := m.VerifRegisterService(t.gsd, dyn.NewServer(impl)); err != nil {
		return nil, nil, err
	}
	return m, impl, nil
}

// ---- results -----------------------------------------------------------------------------

type statusObs struct {
	Code       int
	Message    string
	RawMessage string // as on the wire (percent-encoded for gRPC)
	Details    [][]byte
	HasDetails bool
	Source     string
}

type callResult struct {
	Proto    string
	Panicked bool
	Panic    string
	HTTPCode int
	Header   http.Header
	Trailer  http.Header // gRPC: HTTP trailers; gRPC-web: trailer frame (lower-case keys)
	Body     []byte
	Msgs     [][]byte // response message payloads after de-framing / decompression
	Status   *statusObs
	ParseErr string
	Rec      *env.Recorder
	Reader   *env.Reader
	// WebSocket
	Conn     *env.Conn
	WSClose  *wire.WSFrame
	WSFrames []wire.WSFrame
	Upgraded bool
}

func gunzipBytes(b []byte) ([]byte, error) {
	zr, err := gzip.NewReader(bytes.NewReader(b))
	if err != nil {
		return nil, err
	}
	return io.ReadAll(zr)
}

func gzipBytes(b []byte) []byte {
	var zb bytes.Buffer
	zw := gzip.NewWriter(&zb)
	zw.Write(b)
	zw.Close()
	return zb.Bytes()
}

// reqBody describes the request body as a read script.
type reqBody struct {
	Data   []byte
	Script *env.Script // nil = hand out everything, EOF separately
	CL     int64       // Content-Length to advertise; -1 unknown; -2 = len(Data)
}

func (b reqBody) reader() (*env.Reader, int64) {
	sc := env.Script{Data: b.Data}
	if b.Script != nil {
		sc = *b.Script
		sc.Data = b.Data
	}
	cl := b.CL
	if cl == -2 {
		cl = int64(len(b.Data))
	}
	return env.NewReader(sc), cl
}

// doHTTP runs a transcoding request (HTTP/1.1).
func doHTTP(m http.Handler, verb, path, rawQuery string, hdr http.Header, body reqBody) *callResult {
	rd, cl := body.reader()
	if hdr == nil {
		hdr = http.Header{}
	}
	req := &http.Request{Method: verb, URL: &url.URL{Path: path, RawQuery: rawQuery}, Header: hdr, Proto: "HTTP/1.1", ProtoMajor: 1, ProtoMinor: 1,
		Host: "verif.test", Body: rd, ContentLength: cl, RemoteAddr: "192.0.2.1:1234"}
	sr := serveReq(m, req)
	return &callResult{Proto: "http", Panicked: sr.Panicked, Panic: sr.Panic, HTTPCode: sr.Code, Header: sr.Header, Body: sr.Body, Rec: sr.Rec, Reader: rd, Trailer: sr.Rec.Trailers()}
}

// parseHTTPStatus decodes the google.rpc.Status error body of a transcoding response.
func (r *callResult) parseHTTPStatus() {
	ct := r.Header.Get("Content-Type")
	body := r.Body
	if r.Header.Get("Content-Encoding") == "gzip" {
		b, err := gunzipBytes(body)
		if err != nil {
			r.ParseErr = "gzip: " + err.Error()
			return
		}
		body = b
	}
	var st spb.Status
	var err error
	switch ct {
	case "application/json":
		err = protojson.Unmarshal(body, &st)
	case "application/protobuf", "application/octet-stream":
		err = proto.Unmarshal(body, &st)
	default:
		err = fmt.Errorf("unexpected error content-type %q", ct)
	}
	if err != nil {
		r.ParseErr = "status body: " + err.Error()
		return
	}
	so := &statusObs{Code: int(st.Code), Message: st.Message, Source: "http-body"}
	for _, d := range st.Details {
		b, _ := proto.MarshalOptions{Deterministic: true}.Marshal(d)
		so.Details = append(so.Details, b)
		so.HasDetails = true
	}
	r.Status = so
}

// doGRPC runs a gRPC request (HTTP/2 semantics: ProtoMajor=2, trailers).
// ct e.g. "application/grpc", "application/grpc+proto", "application/grpc+json".
func doGRPC(m http.Handler, fullMethod, ct string, hdr http.Header, body reqBody) *callResult {
	rd, _ := body.reader()
	if hdr == nil {
		hdr = http.Header{}
	}
	hdr.Set("Content-Type", ct)
	if hdr.Get("Te") == "" {
		hdr.Set("Te", "trailers")
	}
	req := &http.Request{Method: "POST", URL: &url.URL{Path: fullMethod}, Header: hdr, Proto: "HTTP/2.0", ProtoMajor: 2, ProtoMinor: 0,
		Host: "verif.test", Body: rd, ContentLength: -1, RemoteAddr: "192.0.2.1:1234"}
	sr := serveReq(m, req)
	r := &callResult{Proto: "grpc", Panicked: sr.Panicked, Panic: sr.Panic, HTTPCode: sr.Code, Header: sr.Header, Body: sr.Body, Rec: sr.Rec, Reader: rd, Trailer: sr.Rec.Trailers()}
	if r.Panicked {
		return r
	}
	r.parseGRPCBody(sr.Body, false)
	r.statusFromTrailers(r.Trailer, r.Header)
	return r
}

func (r *callResult) parseGRPCBody(b []byte, web bool) {
	frames, rest := wire.ParseFrames(b)
	if len(rest) > 0 {
		r.ParseErr = fmt.Sprintf("%d trailing bytes do not form a frame: %x", len(rest), rest)
	}
	for i, f := range frames {
		switch {
		case web && f.Flag&0x80 != 0:
			if i != len(frames)-1 {
				r.ParseErr = "trailer frame is not last"
			}
			h, err := wire.ParseWebTrailer(f.Payload)
			if err != nil {
				r.ParseErr = err.Error()
			}
			if r.Trailer != nil {
				r.ParseErr = "two trailer frames"
			}
			r.Trailer = h
		case f.Flag == 0:
			r.Msgs = append(r.Msgs, f.Payload)
		case f.Flag == 1:
			if enc := r.Header.Get("Grpc-Encoding"); enc != "gzip" {
				r.ParseErr = fmt.Sprintf("compressed frame but grpc-encoding=%q", enc)
			}
			p, err := gunzipBytes(f.Payload)
			if err != nil {
				r.ParseErr = "gunzip: " + err.Error()
			}
			r.Msgs = append(r.Msgs, p)
		default:
			r.ParseErr = fmt.Sprintf("frame flag 0x%02x", f.Flag)
		}
	}
}

// statusFromTrailers reads grpc-status/grpc-message/grpc-status-details-bin from the
// trailers, or from the headers for a trailers-only response.
func (r *callResult) statusFromTrailers(tr, hdr http.Header) {
	get := func(h http.Header, k string) (string, bool) {
		for hk, vs := range h {
			if strings.EqualFold(hk, k) && len(vs) > 0 {
				return vs[0], true
			}
		}
		return "", false
	}
	src := "trailers"
	cs, ok := get(tr, "grpc-status")
	h := tr
	if !ok {
		cs, ok = get(hdr, "grpc-status")
		h = hdr
		src = "headers(trailers-only)"
	}
	if !ok {
		return
	}
	code, err := strconv.ParseUint(cs, 10, 32)
	if err != nil {
		r.ParseErr = "grpc-status: " + err.Error()
		return
	}
	so := &statusObs{Code: int(code), Source: src}
	if raw, ok := get(h, "grpc-message"); ok {
		so.RawMessage = raw
		so.Message = wire.DecodeGRPCMessage(raw)
	}
	if d, ok := get(h, "grpc-status-details-bin"); ok {
		so.HasDetails = true
		b, err := base64.RawStdEncoding.DecodeString(strings.TrimRight(d, "="))
		if err != nil {
			r.ParseErr = "details-bin: " + err.Error()
		} else {
			var st spb.Status
			if err := proto.Unmarshal(b, &st); err != nil {
				r.ParseErr = "details-bin: " + err.Error()
			}
			for _, dd := range st.Details {
				bb, _ := proto.MarshalOptions{Deterministic: true}.Marshal(dd)
				so.Details = append(so.Details, bb)
			}
		}
	}
	r.Status = so
}

// doWeb runs a gRPC-web request. ct: application/grpc-web[+proto|+json] or
// application/grpc-web-text[+proto]. body.Data are the raw frames (base64 applied here for text).
func doWeb(m http.Handler, fullMethod, ct string, hdr http.Header, body reqBody) *callResult {
	text := strings.HasPrefix(ct, "application/grpc-web-text")
	if text {
		body.Data = wire.EncodeWebText(body.Data)
	}
	rd, _ := body.reader()
	if hdr == nil {
		hdr = http.Header{}
	}
	hdr.Set("Content-Type", ct)
	req := &http.Request{Method: "POST", URL: &url.URL{Path: fullMethod}, Header: hdr, Proto: "HTTP/1.1", ProtoMajor: 1, ProtoMinor: 1,
		Host: "verif.test", Body: rd, ContentLength: int64(len(body.Data)), RemoteAddr: "192.0.2.1:1234"}
	sr := serveReq(m, req)
	r := &callResult{Proto: "web", Panicked: sr.Panicked, Panic: sr.Panic, HTTPCode: sr.Code, Header: sr.Header, Body: sr.Body, Rec: sr.Rec, Reader: rd}
	if r.Panicked {
		return r
	}
	b := sr.Body
	if text {
		dec, err := wire.DecodeWebText(b)
		if err != nil {
			r.ParseErr = "base64: " + err.Error()
		}
		b = dec
	}
	r.parseGRPCBody(b, true)
	tr := r.Trailer
	if tr == nil {
		tr = http.Header{}
	}
	r.statusFromTrailers(tr, r.Header)
	return r
}

// doWS runs a WebSocket exchange: clientFrames are the (masked) frames the client sends
// after the handshake.
func doWS(m http.Handler, path, rawQuery string, hdr http.Header, clientFrames []byte, sc *env.Script) *callResult {
	return doWSPrep(m, path, rawQuery, hdr, clientFrames, sc, nil)
}

// doWSPrep is doWS with a hook that may replace the request (context) and instrument the conn.
func doWSPrep(m http.Handler, path, rawQuery string, hdr http.Header, clientFrames []byte, sc *env.Script, prep func(*env.Conn, *http.Request) *http.Request) *callResult {
	if hdr == nil {
		hdr = http.Header{}
	}
	hdr.Set("Upgrade", "websocket")
	hdr.Set("Connection", "Upgrade")
	hdr.Set("Sec-Websocket-Version", "13")
	hdr.Set("Sec-Websocket-Key", "dGhlIHNhbXBsZSBub25jZQ==")
	script := env.Script{Data: clientFrames}
	if sc != nil {
		script = *sc
		script.Data = clientFrames
	}
	conn := env.NewConn(script)
	rec := env.NewRecorder()
	rec.HijackConn = conn
	req := &http.Request{Method: "GET", URL: &url.URL{Path: path, RawQuery: rawQuery}, Header: hdr, Proto: "HTTP/1.1", ProtoMajor: 1, ProtoMinor: 1,
		Host: "verif.test", Body: http.NoBody, RemoteAddr: "192.0.2.1:1234"}
	if prep != nil {
		req = prep(conn, req)
	}
	p, txt := guard(func() { m.ServeHTTP(rec, req) })
	rec.Finish()
	r := &callResult{Proto: "ws", Panicked: p, Panic: txt, HTTPCode: rec.Code, Header: rec.Snap, Body: rec.Body.Bytes(), Rec: rec, Conn: conn, Reader: conn.R}
	if p || !rec.Hijacked {
		return r
	}
	out := conn.W.Bytes()
	// HTTP 101 response head
	idx := bytes.Index(out, []byte("\r\n\r\n"))
	if idx < 0 || !bytes.HasPrefix(out, []byte("HTTP/1.1 101")) {
		r.ParseErr = fmt.Sprintf("no 101 response head: %q", truncS(string(out), 80))
		return r
	}
	r.Upgraded = true
	frames, rest, err := wire.ParseWSFrames(out[idx+4:])
	if err != nil {
		r.ParseErr = err.Error()
	}
	if len(rest) > 0 {
		r.ParseErr = fmt.Sprintf("%d trailing bytes after the last frame", len(rest))
	}
	r.WSFrames = frames
	for i := range frames {
		f := frames[i]
		if err := wire.ValidateServerFrame(f); err != nil && r.ParseErr == "" {
			r.ParseErr = fmt.Sprintf("frame %d: %v", i, err)
		}
		switch f.Op {
		case wire.OpText, wire.OpBin:
			if r.WSClose != nil {
				r.ParseErr = "data frame after close"
			}
			r.Msgs = append(r.Msgs, f.Payload)
		case wire.OpClose:
			if r.WSClose == nil {
				r.WSClose = &frames[i]
			}
		}
	}
	if r.WSClose != nil && len(r.WSClose.Payload) >= 2 {
		r.Status = &statusObs{Code: int(r.WSClose.Payload[0])<<8 | int(r.WSClose.Payload[1]), Message: string(r.WSClose.Payload[2:]), Source: "ws-close"}
	}
	return r
}

// wsText builds one masked client text frame.
func wsText(payload []byte) []byte {
	return wire.WSClientFrame(true, wire.OpText, payload, [4]byte{0x11, 0x22, 0x33, 0x44})
}

// revCodec is a custom codec registered with larking.CodecOption("application/x-rev", …):
// the protobuf encoding with its bytes reversed. It is not a stream codec.
type revCodec struct{}

func (revCodec) Name() string { return "rev" }
func (revCodec) Marshal(v any) ([]byte, error) {
	m, ok := v.(proto.Message)
	if !ok {
		return nil, fmt.Errorf("rev: not a proto.Message: %T", v)
	}
	b, err := proto.Marshal(m)
	return revBytes(b), err
}
func (c revCodec) MarshalAppend(dst []byte, v any) ([]byte, error) {
	b, err := c.Marshal(v)
	return append(dst, b...), err
}
func (revCodec) Unmarshal(data []byte, v any) error {
	m, ok := v.(proto.Message)
	if !ok {
		return fmt.Errorf("rev: not a proto.Message: %T", v)
	}
	return proto.Unmarshal(revBytes(data), m)
}

func revBytes(b []byte) []byte {
	out := make([]byte, len(b))
	for i := range b {
		out[len(b)-1-i] = b[i]
	}
	return out
}

// rotCompressor is a custom compressor registered with larking.CompressorOption("x-rot", …):
// every byte XOR 0x5a (size-preserving, stateless).
type rotCompressor struct{}

func (rotCompressor) Name() string                                 { return "x-rot" }
func (rotCompressor) Compress(w io.Writer) (io.WriteCloser, error) { return rotW{w}, nil }
func (rotCompressor) Decompress(r io.Reader) (io.Reader, error)    { return rotR{r}, nil }

type rotW struct{ w io.Writer }

func (x rotW) Write(p []byte) (int, error) { return x.w.Write(rotBytes(p)) }
func (x rotW) Close() error                { return nil }

type rotR struct{ r io.Reader }

func (x rotR) Read(p []byte) (int, error) {
	n, err := x.r.Read(p)
	for i := 0; i < n; i++ {
		p[i] ^= 0x5a
	}
	return n, err
}

func rotBytes(b []byte) []byte {
	out := make([]byte, len(b))
	for i := range b {
		out[i] = b[i] ^ 0x5a
	}
	return out
}

// customOpts: the custom codec and compressor, as mux options.
func customOpts() []larking.MuxOption {
	return []larking.MuxOption{larking.CodecOption("application/x-rev", revCodec{}), larking.CompressorOption("x-rot", rotCompressor{})}
}

// wsFrag sends one text message as k frames (text, continuation…, the last with FIN), the
// payload cut into k nearly equal parts (parts may be empty when the payload is short).
func wsFrag(payload []byte, k int) []byte {
	if k <= 1 {
		return wsText(payload)
	}
	var out []byte
	for i := 0; i < k; i++ {
		lo, hi := len(payload)*i/k, len(payload)*(i+1)/k
		op := byte(wire.OpCont)
		if i == 0 {
			op = wire.OpText
		}
		out = append(out, wire.WSClientFrame(i == k-1, op, payload[lo:hi], [4]byte{0x51, 0x62, byte(i), 0x44})...)
	}
	return out
}

func wsClose(code uint16, reason string) []byte {
	return wire.WSClientFrame(true, wire.OpClose, wire.WSCloseBody(code, reason), [4]byte{9, 8, 7, 6})
}

// splitJSONStream splits concatenated JSON objects (independent brace scanner).
func splitJSONStream(b []byte) ([][]byte, error) {
	var out [][]byte
	depth, start := 0, -1
	inStr, esc := false, false
	for i, c := range b {
		switch {
		case esc:
			esc = false
		case inStr:
			if c == '\\' {
				esc = true
			} else if c == '"' {
				inStr = false
			}
		case c == '"':
			inStr = true
		case c == '{':
			if depth == 0 {
				start = i
			}
			depth++
		case c == '}':
			depth--
			if depth < 0 {
				return out, errors.New("unbalanced '}'")
			}
			if depth == 0 {
				out = append(out, b[start:i+1])
				start = -1
			}
		default:
			if depth == 0 && c != ' ' && c != '\n' && c != '\r' && c != '\t' {
				return out, fmt.Errorf("byte %q between objects", c)
			}
		}
	}
	if depth != 0 || inStr {
		return out, errors.New("truncated object")
	}
	return out, nil
}

// splitVarintStream splits varint-delimited messages.
func splitVarintStream(b []byte) ([][]byte, error) {
	var out [][]byte
	for len(b) > 0 {
		v, n, ok := refReadVarint(b)
		if !ok {
			return out, errors.New("bad length prefix")
		}
		if uint64(len(b)-n) < v {
			return out, errors.New("truncated message")
		}
		out = append(out, b[n:n+int(v)])
		b = b[n+int(v):]
	}
	return out, nil
}

func newPostRequest(path string, hdr http.Header, body io.ReadCloser, cl int64) *http.Request {
	return &http.Request{Method: "POST", URL: &url.URL{Path: path}, Header: hdr, Proto: "HTTP/1.1", ProtoMajor: 1, ProtoMinor: 1,
		Host: "verif.test", Body: body, ContentLength: cl, RemoteAddr: "192.0.2.1:1234"}
}

// plainWriter hides everything but the three ResponseWriter methods, the way a middleware does
// that wraps the writer in a struct of its own: no Flush, no Hijack, no Unwrap.
type plainWriter struct{ w http.ResponseWriter }

func (p plainWriter) Header() http.Header         { return p.w.Header() }
func (p plainWriter) Write(b []byte) (int, error) { return p.w.Write(b) }
func (p plainWriter) WriteHeader(code int)        { p.w.WriteHeader(code) }

type plainMux struct{ h http.Handler }

func (p plainMux) ServeHTTP(w http.ResponseWriter, r *http.Request) { p.h.ServeHTTP(plainWriter{w}, r) }

// h2Mux presents the request as an HTTP/2 one (what a browser speaks to a TLS server, also for
// gRPC-web).
type h2Mux struct{ h http.Handler }

func (p h2Mux) ServeHTTP(w http.ResponseWriter, r *http.Request) {
	r.Proto, r.ProtoMajor, r.ProtoMinor = "HTTP/2.0", 2, 0
	p.h.ServeHTTP(w, r)
}
