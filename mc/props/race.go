package props

import (
	"bytes"
	"fmt"
	"net/http"
	"os"
	"os/exec"
	"path/filepath"
	"strings"
	"sync"
	"time"

	"verif/explore"
	"verif/report"
	"verif/sched"
)

type httpHandler = http.Handler

var explorePanic = explore.HasPanic

// raceScenarios lists, per property, the scenario generators whose thread bodies are also run
// free-running under the race detector.
var raceScenarios = map[string]func(thorough bool) []*e3Scenario{}

// raceExtra lists additional free-running bodies (real-transport runs) for the -race binary.
var raceExtra = map[string]func(iters int, thorough bool) int{}

// RunFree executes the scenarios of property id as real goroutines (no scheduler) iters times
// each. It is the body of the separate -race binary: the race detector reports on stderr.
func RunFree(id string, iters int, thorough bool) int {
	gen := raceScenarios[id]
	if gen == nil {
		fmt.Fprintf(os.Stderr, "no race scenarios for %s\n", id)
		return 2
	}
	total := 0
	for _, sc := range gen(thorough) {
		for it := 0; it < iters; it++ {
			sys := sc.Setup()
			var wg sync.WaitGroup
			start := make(chan struct{})
			for _, th := range sc.Threads {
				th := th
				wg.Add(1)
				go func() {
					defer wg.Done()
					defer func() {
						if r := recover(); r != nil {
							fmt.Fprintf(os.Stderr, "FREE-RUN PANIC scenario=%s thread=%s: %v\n", sc.Name, th.Name, r)
						}
					}()
					<-start
					th.Body(sys)
				}()
			}
			close(start)
			done := make(chan struct{})
			go func() { wg.Wait(); close(done) }()
			select {
			case <-done:
			case <-time.After(60 * time.Second):
				fmt.Fprintf(os.Stderr, "FREE-RUN HANG scenario=%s iteration=%d\n", sc.Name, it)
				return 1
			}
			if sc.FreeCheck != nil {
				for _, f := range sc.FreeCheck(sys) {
					fmt.Fprintf(os.Stderr, "FREE-RUN FAIL scenario=%s %s: %s\n", sc.Name, f.Oracle, f.Note)
				}
			}
			if sc.Teardown != nil {
				sc.Teardown(sys)
			}
			total++
		}
	}
	if extra := raceExtra[id]; extra != nil {
		total += extra(iters, thorough)
	}
	fmt.Printf("race-pass property=%s scenarios=%d executions=%d\n", id, len(gen(thorough)), total)
	return 0
}

// racePass runs the separate free-running -race binary (built by check.sh, path in
// VERIF_RACE_BIN) over the same scenario bodies. A cooperative scheduler's hand-offs are
// happens-before edges that blind the detector, so this has to be a different run.
func racePass(c *Ctx, id string) {
	r := c.Run
	bin := os.Getenv("VERIF_RACE_BIN")
	if bin == "" {
		r.Set("race_pass", "skipped: VERIF_RACE_BIN not set (run through check.sh)")
		return
	}
	iters := "100"
	if c.Thorough() {
		iters = "1000"
	}
	cmd := exec.Command(bin, "race", id, "--iters", iters, "--tier", c.Tier)
	var out, errb bytes.Buffer
	cmd.Stdout, cmd.Stderr = &out, &errb
	cmd.Env = append(os.Environ(), "GORACE=halt_on_error=0 exitcode=0")
	start := time.Now()
	err := cmd.Run()
	es := errb.String()
	res := map[string]any{"binary": "go build -race (free-running, no scheduler)", "iterations_per_scenario": iters, "wall_s": time.Since(start).Seconds(), "stdout": strings.TrimSpace(out.String())}
	bad := ""
	switch {
	case strings.Contains(es, "WARNING: DATA RACE"):
		bad = "data-race"
	case strings.Contains(es, "FREE-RUN PANIC"):
		bad = "free-run-panic"
	case strings.Contains(es, "FREE-RUN HANG"):
		bad = "free-run-hang"
	case strings.Contains(es, "FREE-RUN FAIL"):
		bad = "free-run-oracle"
	case err != nil:
		bad = "race-binary-failed"
	}
	if bad != "" {
		dir := filepath.Join(report.Root, "replays", id)
		_ = os.MkdirAll(dir, 0o755)
		logf := filepath.Join(dir, "race-pass.log")
		_ = os.WriteFile(logf, errb.Bytes(), 0o644)
		res["report"] = logf
		r.Violation(report.Violation{Oracle: bad, Key: bad + " in the free-running -race pass of " + id, Case: map[string]any{"cmd": bin + " race " + id, "log": logf}, Note: truncS(es, 3000)})
	}
	if bad == "" {
		_ = os.Remove(filepath.Join(report.Root, "replays", id, "race-pass.log"))
	}
	res["races"] = strings.Count(es, "WARNING: DATA RACE")
	r.Set("race_pass", res)
	_ = sched.Active
}

// TraceScenario prints the trace of one schedule (debugging aid and replay helper).
func TraceScenario(id, name string, choices []int) {
	gen := raceScenarios[id]
	if id == "C10" {
		gen = c10Scenarios // C10 has no free-running pass of its own but its scenarios can be traced
	}
	if gen == nil {
		fmt.Println("no scenarios for", id)
		return
	}
	for _, sc := range append(gen(true), gen(false)...) {
		if sc.Name != name {
			continue
		}
		x, sys := sc.runOnce(choices)
		defer func() {
			if sc.Check != nil {
				for _, f := range sc.Check(sys, x) {
					fmt.Printf("--- oracle %s: %s\n", f.Oracle, f.Note)
				}
			}
		}()
		for _, l := range explore.FormatTrace(x.Trace) {
			fmt.Println(l)
		}
		fmt.Println("--- log")
		for _, l := range x.Log {
			fmt.Println(l)
		}
		fmt.Printf("--- deadlock=%v livelock=%v diverged=%q points=%d\n", x.Deadlock, x.Livelock, x.Diverged, len(x.Trace))
		if sc.Teardown != nil {
			sc.Teardown(sys)
		}
		return
	}
	fmt.Println("unknown scenario", name)
}
