package props

import (
	"context"
	"fmt"
	"sort"
	"strings"

	"google.golang.org/protobuf/proto"
	"google.golang.org/protobuf/reflect/protoreflect"
	"google.golang.org/protobuf/types/descriptorpb"

	"larking.io/larking"

	"verif/dyn"
	"verif/env"
	"verif/explore"
	tmpl "verif/ref/template"
	"verif/report"
)

// C16 — registration accepts valid rules, rejects invalid ones, never crashes, and a
// rejection leaves the mux unchanged.

func init() {
	register(&Check{ID: "C16", Level: "exploration", Run: runC16, Replay: replayC16})
}

type c16Case struct {
	Kind     string    `json:"kind"` // template | selector | nested | conflict
	Rule     dyn.Rule  `json:"rule"`
	Other    *dyn.Rule `json:"other,omitempty"` // conflict: rule registered first on another method
	NonEmpty bool      `json:"non_empty_mux"`
	Source   string    `json:"source,omitempty"` // serviceconfig | annotation
}

// Field table of message Req (see route.go): which dotted paths resolve, and to what.
var c16Scalar = map[string]bool{"s": true, "t": true, "u": true, "i": true, "small": true, "n.s": true, "n.i": true}
var c16NonScalar = map[string]bool{"n": true, "rs": true, "mp": true}

// c16FieldClass: "scalar" (must resolve), "grey" (resolves to a message/repeated/map leaf:
// google.api.http forbids binding those, larking may accept or reject), "unknown".
func c16FieldClass(fp string) string {
	if c16Scalar[fp] {
		return "scalar"
	}
	if c16NonScalar[fp] {
		return "grey"
	}
	return "unknown"
}

// expectation: "accept", "reject" or "either".
func c16ExpectTemplate(s string) (exp string, t tmpl.T, why string) {
	t, class, notes, err := tmpl.Parse(s)
	switch class {
	case tmpl.Malformed:
		return "reject", t, "malformed: " + err.Error()
	case tmpl.Grey:
		return "either", t, "grey: " + strings.Join(notes, ", ")
	}
	// larking documents a cap of 64 lexer tokens per template: beyond it a template may be
	// refused (with an error). The bound below counts every punctuation character and every run of
	// other characters as a token, which never under-counts.
	if c16TokenBound(s) > 64 {
		exp, why = "either", "more than 64 tokens"
	}
	for _, v := range t.Vars() {
		switch c16FieldClass(v) {
		case "unknown":
			return "reject", t, "unknown field path " + v
		case "grey":
			exp, why = "either", "non-scalar field path "+v
		}
	}
	if exp == "" {
		exp = "accept"
	}
	return exp, t, why
}

func c16TokenBound(s string) int {
	n, inRun := 1, false // the end-of-input token
	for _, r := range s {
		if strings.ContainsRune("/{}=.:*", r) {
			n++
			inRun = false
		} else if !inRun {
			n++
			inRun = true
		}
	}
	return n
}

// c16Oversized lists templates around and beyond the token cap, and with very long literals.
func c16Oversized() []string {
	var out []string
	for _, k := range []int{29, 30, 31, 32, 33, 40, 63, 64, 65, 100, 400} {
		segs := make([]string, k)
		for i := range segs {
			segs[i] = fmt.Sprintf("l%d", i)
		}
		lit := "/" + strings.Join(segs, "/")
		out = append(out, lit, lit+":vb", lit+"/{s}", lit+"/{s=**}", "/{s="+strings.Join(segs, "/")+"/*}", "/{s="+strings.Join(segs, "/")+"/**}:vb", "/{n.s}"+lit)
	}
	for _, n := range []int{63, 64, 65, 1000, 5000} {
		L := strings.Repeat("q", n)
		out = append(out, "/"+L, "/"+L+"/{s}", "/a:"+L, "/{s="+L+"/*}")
	}
	return out
}

var c16Alphabet = tmplAlphabet{
	Mid:   []string{"a", "bb", "a.b", "a-b", "v1", "*", "{$}", "{$=*}", "{$=a/*}", "{$=a.b/*}", "{n.s}", "{n.i}", "{i}", "{small}"},
	Last:  []string{"**", "{$=**}", "{$=a/**}"},
	Verbs: []string{"", "vb", "v.1"},
}

func c16Edits(s string) []string {
	alphabet := []rune("{}=/*:.a")
	rs := []rune(s)
	seen := map[string]bool{s: true}
	var out []string
	add := func(x string) {
		if !seen[x] {
			seen[x] = true
			out = append(out, x)
		}
	}
	for i := range rs {
		add(string(rs[:i]) + string(rs[i+1:]))
		for _, a := range alphabet {
			add(string(rs[:i]) + string(a) + string(rs[i+1:]))
		}
	}
	for i := 0; i <= len(rs); i++ {
		for _, a := range alphabet {
			add(string(rs[:i]) + string(a) + string(rs[i:]))
		}
	}
	return out
}

type c16Result struct {
	accepted bool
	err      string
	panicked bool
	before   string
	after    string
	probeBad string // non-empty: a probe after the operation gave a wrong answer
}

// c16Register registers rule r on service S2.M1 (shape B) — on an empty mux or after S1
// (with its own rule /zz/{s}) — and reports what happened.
func c16Register(s *routeSchema, r dyn.Rule, other *dyn.Rule, nonEmpty bool) (res c16Result, m *larking.Mux, impl *recImpl) {
	rules := []boundRule{{M: 1, Rule: r}}
	if nonEmpty {
		first := dyn.Rule{Kind: "get", Path: "/zz/{s}"}
		if other != nil {
			first = *other
		}
		rules = append([]boundRule{{M: 0, Rule: first}}, rules...)
	}
	// Build the mux by hand so that the two registrations can be observed separately.
	var regErr error
	p, txt := guard(func() {
		m, impl, regErr = s.newMuxSteps(rules, nonEmpty, &res)
	})
	if p {
		res.panicked = true
		res.err = txt
		return res, nil, nil
	}
	if pe, ok := regErr.(*panicError); ok {
		res.panicked = true
		res.err = pe.text
		return res, m, impl
	}
	if regErr != nil {
		res.err = regErr.Error()
		return res, m, impl
	}
	res.accepted = true
	return res, m, impl
}

// newMuxSteps: shape B. Registers S1 first when nonEmpty (must succeed), records the
// fingerprint, then registers S2 and records the fingerprint again.
func (s *routeSchema) newMuxSteps(rules []boundRule, nonEmpty bool, res *c16Result) (*larking.Mux, *recImpl, error) {
	if !s.multi {
		panic("shape B expected")
	}
	m, impl, err := s.newMuxNoRegister(rules)
	if err != nil {
		return nil, nil, err
	}
	if nonEmpty {
		if err := m.VerifRegisterService(s.gsds[0], dyn.NewServer(impl)); err != nil {
			return nil, nil, fmt.Errorf("harness: first service rejected: %w", err)
		}
	}
	res.before = larking.VerifFingerprint(m.VerifSnapshot())
	var rerr error
	if p, txt := guard(func() { rerr = m.VerifRegisterService(s.gsds[1], dyn.NewServer(impl)) }); p {
		rerr = &panicError{txt}
	}
	res.after = larking.VerifFingerprint(m.VerifSnapshot())
	return m, impl, rerr
}

func runC16(c *Ctx) {
	r := c.Run
	r.Rule("(a) every template with 1..2 (thorough 3) segments over literals {a,bb,a.b,a-b,v1}, variable forms incl. nested field paths, verbs; (a') templates of 29..400 segments (literal, with a verb, a trailing variable or **, a variable pattern of that many segments) and literals of 63..5000 bytes: accepted up to the documented 64-token cap, accepted or refused with an error beyond it; (b) every single-character edit (delete/insert/replace from \"{}=/*:.a\") of those, classified by the reference parser; (c) every body × response_body selector; (d) nested additional bindings, and rule sets that fail on a later binding after valid bindings were placed at or below existing nodes; (f) a second owner of an already-served method whose descriptor is another revision (same, new valid, and six kinds of invalid rule sets); (e) conflicting bindings (same path: same verb, '*' vs verb, verb vs '*', re-declared implicit path after and before its owner is registered, across services and inside one service) — each on an empty mux and on a mux already serving another service, from service config and from annotations; distinct = (expectation class, outcome) × template shape")
	r.Assume("grey zone (either outcome, but no panic and atomic): nested variables, literals/idents not starting with a letter, '**' not last, a field bound twice, variables on message/repeated/map fields, scalar body / non-message response_body selectors, '*'-kind vs verb conflicts")

	schema, err := newRouteSchemaMulti("vt", 2)
	if err != nil {
		panic(err)
	}
	maxSeg := 2
	if c.Thorough() {
		maxSeg = 3
	}
	base := enumTemplates(c16Alphabet, maxSeg)
	seen := map[string]bool{}
	var cands []string
	for _, t := range base {
		s := t.String()
		if !seen[s] {
			seen[s] = true
			cands = append(cands, s)
		}
	}
	nBase := len(cands)
	editBase := base
	if c.Thorough() {
		editBase = enumTemplates(c16Alphabet, 2)
		// plus every 7th 3-segment template
		for i, t := range base {
			if len(t.Segs) == 3 && i%7 == 0 {
				editBase = append(editBase, t)
			}
		}
	}
	for _, t := range editBase {
		for _, e := range c16Edits(t.String()) {
			if !seen[e] {
				seen[e] = true
				cands = append(cands, e)
			}
		}
	}
	// a few hand-picked shapes the edit distance does not reach
	for _, e := range []string{"/{s={t}}", "/{s=a/{t}}", "/a/{n.s={t=*}}", "/{s=**}/a", "/**/a", "/{n}", "/{rs}", "/{mp}", "/{s.x}", "/{n.zz}", "/{zz}", "", "/", "a", "/{s}/{s}", "/a/b/c/d/e/f/g/h:vb"} {
		if !seen[e] {
			seen[e] = true
			cands = append(cands, e)
		}
	}
	for _, e := range c16Oversized() {
		if !seen[e] {
			seen[e] = true
			cands = append(cands, e)
		}
	}
	r.Set("templates", map[string]int{"generated": nBase, "with_edits": len(cands)})
	fills := []string{"x", "a", "7"}

	done := explore.ParallelFor(len(cands), func() bool { return r.TooManyViolations() || r.Expired() }, func(_ int, i int) {
		s := cands[i]
		exp, t, why := c16ExpectTemplate(s)
		var evals int64
		outc := map[string]int64{}
		for _, nonEmpty := range []bool{false, true} {
			rule := dyn.Rule{Kind: "get", Path: s}
			res, m, impl := c16Register(schema, rule, nil, nonEmpty)
			evals++
			cs := c16Case{Kind: "template", Rule: rule, NonEmpty: nonEmpty}
			key := fmt.Sprintf("template %q nonempty=%v", s, nonEmpty)
			outcome := "accepted"
			if res.panicked {
				outcome = "panic"
			} else if !res.accepted {
				outcome = "rejected"
			}
			outc[exp+"->"+outcome]++
			if i < nBase {
				r.Distinct(exp + "->" + outcome + "|" + s)
			}
			switch {
			case res.panicked:
				r.Violation(report.Violation{Oracle: "register-panic", Key: "register-panic " + key, Case: cs, Note: why + "\n" + res.err})
				continue
			case exp == "accept" && !res.accepted:
				r.Violation(report.Violation{Oracle: "valid-template-rejected", Key: "valid-template-rejected " + key, Case: cs, Note: res.err})
				continue
			case exp == "reject" && res.accepted:
				r.Violation(report.Violation{Oracle: "invalid-template-accepted", Key: "invalid-template-accepted " + key, Case: cs, Note: why})
			}
			if !res.accepted {
				if res.before != res.after {
					r.Violation(report.Violation{Oracle: "rejection-not-atomic", Key: "rejection-not-atomic " + key, Case: cs, Note: "fingerprint changed by a failing registration"})
				}
				if bad := c16ProbeIntact(schema, m, impl, nonEmpty, false); bad != "" {
					r.Violation(report.Violation{Oracle: "rejection-damaged-routes", Key: "rejection-damaged-routes " + key, Case: cs, Note: bad})
				}
				continue
			}
			if bad := c16ProbeIntact(schema, m, impl, nonEmpty, true); bad != "" {
				r.Violation(report.Violation{Oracle: "acceptance-damaged-routes", Key: "acceptance-damaged-routes " + key, Case: cs, Note: bad})
			}
			if exp != "accept" {
				// grey but accepted: requests must at least not crash
				if class := tmplClassOK(t); class {
					t.Instantiate(fills, 2, func(p string, _ tmpl.Capture) {
						impl.reset()
						if sr := serveSimple(m, "GET", p, ""); sr.Panicked {
							r.Violation(report.Violation{Oracle: "request-panic-after-grey-accept", Key: "request-panic-after-grey-accept " + key + " " + p, Case: cs, Note: sr.Panic})
						}
						evals++
					})
				}
				continue
			}
			// accepted and well-formed: every instantiation routes to S2.M1 with the captures bound
			bad := 0
			t.Instantiate(fills, 2, func(p string, caps tmpl.Capture) {
				evals++
				want, ok := schema.expectedFromCapture(caps)
				if !ok {
					return // non-convertible typed capture: not demanded
				}
				impl.reset()
				sr := serveSimple(m, "GET", p, "")
				if sr.Panicked || impl.n != 1 || impl.method != schema.methods[1] || !proto.Equal(impl.req, want) {
					bad++
					if bad == 1 {
						r.Violation(report.Violation{Oracle: "accepted-template-does-not-route", Key: "accepted-template-does-not-route " + key + " " + p, Case: cs,
							Note: fmt.Sprintf("GET %s -> status=%d dispatched=%d method=%s msg={%v} want {%v} %s", p, sr.Code, impl.n, impl.method, impl.req, want, sr.Panic)})
					}
				}
			})
		}
		r.Eval(evals)
		for k, v := range outc {
			r.OutcomeN(k, v)
		}
		if r.WantSample() && i%4001 == 11 {
			r.Sample(map[string]any{"template": s, "expect": exp, "why": why})
		}
	})
	if !done {
		r.CapHit("deadline or violation cap reached")
	}
	c16Selectors(c, schema)
	c16Conflicts(c, schema)
	c16ImplicitBeforeOwner(c, schema)
	c16SecondOwnerRevision(c)
}

func tmplClassOK(t tmpl.T) bool { return len(t.Segs) > 0 }

// c16ProbeIntact checks that S1's route (if registered) still works and that S2's implicit
// route is served iff S2 was accepted.
func c16ProbeIntact(s *routeSchema, m *larking.Mux, impl *recImpl, nonEmpty, s2Accepted bool) string {
	if m == nil {
		return ""
	}
	if nonEmpty {
		impl.reset()
		sr := serveSimple(m, "GET", "/zz/x", "")
		if sr.Panicked || impl.n != 1 || impl.method != s.methods[0] {
			return fmt.Sprintf("GET /zz/x (S1's route) -> status=%d dispatched=%d method=%s %s", sr.Code, impl.n, impl.method, sr.Panic)
		}
		impl.reset()
		sr = serveSimple(m, "POST", s.methods[0], "")
		if sr.Panicked || impl.n != 1 || impl.method != s.methods[0] {
			return fmt.Sprintf("POST %s -> status=%d dispatched=%d %s", s.methods[0], sr.Code, impl.n, sr.Panic)
		}
	}
	impl.reset()
	sr := serveSimple(m, "POST", s.methods[1], "")
	if sr.Panicked {
		return "panic: " + sr.Panic
	}
	if s2Accepted && (impl.n != 1 || impl.method != s.methods[1]) {
		return fmt.Sprintf("POST %s after acceptance -> status=%d dispatched=%d", s.methods[1], sr.Code, impl.n)
	}
	if !s2Accepted && impl.n != 0 {
		return fmt.Sprintf("POST %s is served although its registration failed", s.methods[1])
	}
	return ""
}

// (c) body / response_body selectors and (d) nested additional bindings.
func c16Selectors(c *Ctx, schema *routeSchema) {
	r := c.Run
	// Req fields: s,t,u (string) i (int64) n (N) rs (repeated) mp (map) small; Rsp fields: s (string), n (N)
	bodyExp := map[string]string{"": "accept", "*": "accept", "n": "accept", "s": "either", "rs": "either", "mp": "either", "n.s": "either", "zz": "reject", "n.zz": "reject", "s.x": "reject"}
	respExp := map[string]string{"": "accept", "n": "accept", "s": "either", "n.s": "either", "zz": "reject", "n.zz": "reject", "*": "either"}
	var bodies, resps []string
	for k := range bodyExp {
		bodies = append(bodies, k)
	}
	for k := range respExp {
		resps = append(resps, k)
	}
	sort.Strings(bodies)
	sort.Strings(resps)
	for _, b := range bodies {
		for _, rs := range resps {
			for _, nonEmpty := range []bool{false, true} {
				for _, kind := range []string{"post", "get"} {
					rule := dyn.Rule{Kind: kind, Path: "/sel/{t}", Body: b, Resp: rs}
					exp := "accept"
					switch {
					case bodyExp[b] == "reject" || respExp[rs] == "reject":
						exp = "reject"
					case bodyExp[b] == "either" || respExp[rs] == "either":
						exp = "either"
					}
					res, m, impl := c16Register(schema, rule, nil, nonEmpty)
					r.Eval(1)
					cs := c16Case{Kind: "selector", Rule: rule, NonEmpty: nonEmpty}
					key := fmt.Sprintf("selector %s body=%q resp=%q nonempty=%v", kind, b, rs, nonEmpty)
					outcome := "accepted"
					if res.panicked {
						outcome = "panic"
					} else if !res.accepted {
						outcome = "rejected"
					}
					r.Outcome("selector:" + exp + "->" + outcome)
					r.Distinct("selector|" + b + "|" + rs + "|" + outcome)
					switch {
					case res.panicked:
						r.Violation(report.Violation{Oracle: "register-panic", Key: "register-panic " + key, Case: cs, Note: res.err})
					case exp == "accept" && !res.accepted:
						r.Violation(report.Violation{Oracle: "valid-selector-rejected", Key: "valid-selector-rejected " + key, Case: cs, Note: res.err})
					case exp == "reject" && res.accepted:
						r.Violation(report.Violation{Oracle: "invalid-selector-accepted", Key: "invalid-selector-accepted " + key, Case: cs})
					case !res.accepted:
						if res.before != res.after {
							r.Violation(report.Violation{Oracle: "rejection-not-atomic", Key: "rejection-not-atomic " + key, Case: cs})
						}
						if bad := c16ProbeIntact(schema, m, impl, nonEmpty, false); bad != "" {
							r.Violation(report.Violation{Oracle: "rejection-damaged-routes", Key: "rejection-damaged-routes " + key, Case: cs, Note: bad})
						}
					}
				}
			}
		}
	}
	// (d) nested additional bindings must be rejected; flat ones accepted.
	for _, nonEmpty := range []bool{false, true} {
		nested := dyn.Rule{Kind: "get", Path: "/nest/a", Add: []dyn.Rule{{Kind: "get", Path: "/nest/bb", Add: []dyn.Rule{{Kind: "get", Path: "/nest/cc"}}}}}
		res, m, impl := c16Register(schema, nested, nil, nonEmpty)
		r.Eval(1)
		cs := c16Case{Kind: "nested", Rule: nested, NonEmpty: nonEmpty}
		key := fmt.Sprintf("nested-additional-bindings nonempty=%v", nonEmpty)
		switch {
		case res.panicked:
			r.Violation(report.Violation{Oracle: "register-panic", Key: "register-panic " + key, Case: cs, Note: res.err})
		case res.accepted:
			r.Violation(report.Violation{Oracle: "nested-bindings-accepted", Key: "nested-bindings-accepted " + key, Case: cs})
		default:
			if res.before != res.after {
				r.Violation(report.Violation{Oracle: "rejection-not-atomic", Key: "rejection-not-atomic " + key, Case: cs})
			}
			if bad := c16ProbeIntact(schema, m, impl, nonEmpty, false); bad != "" {
				r.Violation(report.Violation{Oracle: "rejection-damaged-routes", Key: "rejection-damaged-routes " + key, Case: cs, Note: bad})
			}
			r.Outcome("nested->rejected")
		}
		// a rule set that fails on a LATER binding after earlier, valid bindings were placed at or
		// below nodes that already exist on the mux (S1's /zz/{s}): nothing of it may stay
		for bi, bad := range []dyn.Rule{
			{Kind: "delete", Path: "/zz/{s}", Add: []dyn.Rule{{Kind: "get", Path: "/nest/{zz}"}}},
			{Kind: "get", Path: "/zz/{s}/more", Add: []dyn.Rule{{Kind: "put", Path: "/zz/{s}"}, {Kind: "get", Path: "/{s"}}},
			{Kind: "post", Path: "/zz/{s}:vb", Body: "*", Add: []dyn.Rule{{Kind: "get", Path: "/zz/{t}/x", Body: "zz"}}},
			{Kind: "get", Path: "/zz/{s=a/*}", Add: []dyn.Rule{{Kind: "get", Path: "/zz/{s}"}}}, // the additional binding collides with S1's own
		} {
			_ = bi
			res, m, impl := c16Register(schema, bad, nil, nonEmpty)
			r.Eval(1)
			cs := c16Case{Kind: "nested", Rule: bad, NonEmpty: nonEmpty}
			key := fmt.Sprintf("late-failure-after-valid-bindings #%d nonempty=%v", bi, nonEmpty)
			switch {
			case res.panicked:
				r.Violation(report.Violation{Oracle: "register-panic", Key: "register-panic " + key, Case: cs, Note: res.err})
			case res.accepted && (bi < 3 || nonEmpty):
				r.Violation(report.Violation{Oracle: "invalid-template-accepted", Key: "invalid-rule-set-accepted " + key, Case: cs})
			case res.accepted:
				r.Outcome("late-failure->accepted-on-empty-mux")
			default:
				if res.before != res.after {
					r.Violation(report.Violation{Oracle: "rejection-not-atomic", Key: "rejection-not-atomic " + key, Case: cs, Note: "the published routing state changed although the registration was rejected"})
				}
				if bad := c16ProbeIntact(schema, m, impl, nonEmpty, false); bad != "" {
					r.Violation(report.Violation{Oracle: "rejection-damaged-routes", Key: "rejection-damaged-routes " + key, Case: cs, Note: bad})
				}
				// none of the valid early bindings of the rejected set may be live
				for _, pr := range [][2]string{{"DELETE", "/zz/x"}, {"GET", "/zz/x/more"}, {"PUT", "/zz/x"}, {"POST", "/zz/x:vb"}, {"GET", "/zz/a/x"}} {
					impl.reset()
					sr := serveSimple(m, pr[0], pr[1], "")
					r.Eval(1)
					if sr.Panicked || (impl.n != 0 && impl.method == schema.methods[1]) {
						r.Violation(report.Violation{Oracle: "rejection-damaged-routes", Key: "rejection-leaked-routes " + key + " " + pr[0] + " " + pr[1], Case: cs, Note: fmt.Sprintf("%s %s reached the method whose registration was rejected (status %d) %s", pr[0], pr[1], sr.Code, sr.Panic)})
					}
				}
				r.Outcome("late-failure->rejected")
			}
		}
		// the same below / on an existing LITERAL LEAF (S1 owns get /leaf/a): a rejected set whose valid
		// first binding adds a verb to that leaf, or a child below it, leaves nothing behind
		if nonEmpty {
			leafOwner := dyn.Rule{Kind: "get", Path: "/leaf/a"}
			for bi, bad := range []dyn.Rule{
				{Kind: "delete", Path: "/leaf/a", Add: []dyn.Rule{{Kind: "get", Path: "/nest/{zz}"}}},
				{Kind: "get", Path: "/leaf/a/b", Add: []dyn.Rule{{Kind: "get", Path: "/{s"}}},
				{Kind: "get", Path: "/leaf/a:vb", Add: []dyn.Rule{{Kind: "post", Path: "/leaf/q", Body: "zz"}}},
				{Kind: "get", Path: "/leaf/{s}", Add: []dyn.Rule{{Kind: "get", Path: "/leaf/a"}}}, // collides with S1's leaf itself
			} {
				res, m, impl := c16Register(schema, bad, &leafOwner, true)
				r.Eval(1)
				cs := c16Case{Kind: "nested", Rule: bad, Other: &leafOwner, NonEmpty: true}
				key := fmt.Sprintf("late-failure-on-literal-leaf #%d", bi)
				switch {
				case res.panicked:
					r.Violation(report.Violation{Oracle: "register-panic", Key: "register-panic " + key, Case: cs, Note: res.err})
				case res.accepted:
					r.Violation(report.Violation{Oracle: "invalid-template-accepted", Key: "invalid-rule-set-accepted " + key, Case: cs})
				default:
					if res.before != res.after {
						r.Violation(report.Violation{Oracle: "rejection-not-atomic", Key: "rejection-not-atomic " + key, Case: cs, Note: "the published routing state changed although the registration was rejected"})
					}
					for _, pr := range [][2]string{{"DELETE", "/leaf/a"}, {"GET", "/leaf/a/b"}, {"GET", "/leaf/a:vb"}, {"GET", "/leaf/x"}} {
						impl.reset()
						sr := serveSimple(m, pr[0], pr[1], "")
						r.Eval(1)
						if sr.Panicked || (impl.n != 0 && impl.method == schema.methods[1]) {
							r.Violation(report.Violation{Oracle: "rejection-damaged-routes", Key: "rejection-leaked-routes " + key + " " + pr[0] + " " + pr[1], Case: cs, Note: fmt.Sprintf("%s %s reached the method whose registration was rejected (status %d) %s", pr[0], pr[1], sr.Code, sr.Panic)})
						}
					}
					impl.reset()
					if sr := serveSimple(m, "GET", "/leaf/a", ""); sr.Panicked || impl.n != 1 || impl.method != schema.methods[0] {
						r.Violation(report.Violation{Oracle: "rejection-damaged-routes", Key: "rejection-damaged-routes " + key, Case: cs, Note: fmt.Sprintf("GET /leaf/a (S1's route) -> status=%d dispatched=%d method=%s", sr.Code, impl.n, impl.method)})
					}
					r.Outcome("late-failure-on-leaf->rejected")
				}
			}
		}
		// a later binding that lands on a node and verb the SAME method already owns (variable nodes
		// are keyed by their pattern, not by the field): its field path, body and response_body
		// are still checked
		for bi, bad := range []dyn.Rule{
			{Kind: "get", Path: "/own/{s}", Add: []dyn.Rule{{Kind: "get", Path: "/own/{nosuch}"}}},
			{Kind: "get", Path: "/own/{s}/x", Add: []dyn.Rule{{Kind: "get", Path: "/own/{n.nosuch}/x"}}},
			{Kind: "get", Path: "/own/{s=a/*}", Add: []dyn.Rule{{Kind: "get", Path: "/own/{nosuch=a/*}"}}},
			{Kind: "post", Path: "/own/{s}", Body: "*", Add: []dyn.Rule{{Kind: "post", Path: "/own/{s}", Body: "nosuch"}}},
			{Kind: "post", Path: "/own/{s}", Body: "*", Add: []dyn.Rule{{Kind: "post", Path: "/own/{s}", Body: "*", Resp: "nosuch"}}},
			{Kind: "get", Path: "/own/{s}", Add: []dyn.Rule{{Kind: "get", Path: "/own/{s}", Add: []dyn.Rule{{Kind: "get", Path: "/own/deeper"}}}}}, // nested bindings on the owned node
		} {
			res, m, impl := c16Register(schema, bad, nil, nonEmpty)
			r.Eval(1)
			cs := c16Case{Kind: "nested", Rule: bad, NonEmpty: nonEmpty}
			key := fmt.Sprintf("unknown-field-on-own-node #%d nonempty=%v", bi, nonEmpty)
			switch {
			case res.panicked:
				r.Violation(report.Violation{Oracle: "register-panic", Key: "register-panic " + key, Case: cs, Note: res.err})
			case res.accepted:
				r.Outcome("own-node-unknown-field->accepted")
				r.Violation(report.Violation{Oracle: "invalid-template-accepted", Key: "invalid-template-accepted " + key, Case: cs, Note: "an additional binding with an unknown field path was accepted because it lands on a node the method already owns"})
			default:
				if res.before != res.after {
					r.Violation(report.Violation{Oracle: "rejection-not-atomic", Key: "rejection-not-atomic " + key, Case: cs})
				}
				if bad := c16ProbeIntact(schema, m, impl, nonEmpty, false); bad != "" {
					r.Violation(report.Violation{Oracle: "rejection-damaged-routes", Key: "rejection-damaged-routes " + key, Case: cs, Note: bad})
				}
				r.Outcome("own-node-unknown-field->rejected")
			}
		}
		flat := dyn.Rule{Kind: "get", Path: "/nest/a", Add: []dyn.Rule{{Kind: "get", Path: "/nest/bb"}, {Kind: "post", Path: "/nest/{s}"}}}
		res, m, impl = c16Register(schema, flat, nil, nonEmpty)
		r.Eval(1)
		cs = c16Case{Kind: "nested", Rule: flat, NonEmpty: nonEmpty}
		if res.panicked || !res.accepted {
			r.Violation(report.Violation{Oracle: "flat-bindings-rejected", Key: fmt.Sprintf("flat-bindings-rejected nonempty=%v", nonEmpty), Case: cs, Note: res.err})
			continue
		}
		for _, pr := range [][2]string{{"GET", "/nest/a"}, {"GET", "/nest/bb"}, {"POST", "/nest/x"}} {
			impl.reset()
			sr := serveSimple(m, pr[0], pr[1], "")
			r.Eval(1)
			if sr.Panicked || impl.n != 1 || impl.method != schema.methods[1] {
				r.Violation(report.Violation{Oracle: "additional-binding-does-not-route", Key: "additional-binding-does-not-route " + pr[0] + " " + pr[1], Case: cs, Note: fmt.Sprintf("status=%d dispatched=%d", sr.Code, impl.n)})
			}
		}
		r.Outcome("flat->accepted")
	}
}

// (e) conflicting bindings between two methods of different services.
func c16Conflicts(c *Ctx, schema *routeSchema) {
	r := c.Run
	paths := []string{"/cf/a", "/cf/{s}", "/cf/{s=a/*}:vb", "/cf/**"}
	type kk struct{ first, second, exp string }
	kinds := []kk{
		{"get", "get", "reject"}, {"post", "post", "reject"}, {"*", "*", "reject"},
		{"get", "post", "accept"}, {"get", "*", "either"}, {"*", "get", "either"},
	}
	for _, p := range paths {
		for _, k := range kinds {
			first := dyn.Rule{Kind: k.first, Path: p}
			second := dyn.Rule{Kind: k.second, Path: p}
			res, m, impl := c16Register(schema, second, &first, true)
			r.Eval(1)
			cs := c16Case{Kind: "conflict", Rule: second, Other: &first, NonEmpty: true}
			key := fmt.Sprintf("conflict %s first=%s second=%s", p, k.first, k.second)
			outcome := "accepted"
			if res.panicked {
				outcome = "panic"
			} else if !res.accepted {
				outcome = "rejected"
			}
			r.Outcome("conflict:" + k.exp + "->" + outcome)
			r.Distinct("conflict|" + p + "|" + k.first + "|" + k.second + "|" + outcome)
			switch {
			case res.panicked:
				r.Violation(report.Violation{Oracle: "register-panic", Key: "register-panic " + key, Case: cs, Note: res.err})
			case k.exp == "reject" && res.accepted:
				r.Violation(report.Violation{Oracle: "conflict-accepted", Key: "conflict-accepted " + key, Case: cs})
			case k.exp == "accept" && !res.accepted:
				r.Violation(report.Violation{Oracle: "non-conflict-rejected", Key: "non-conflict-rejected " + key, Case: cs, Note: res.err})
			case !res.accepted:
				if res.before != res.after {
					r.Violation(report.Violation{Oracle: "rejection-not-atomic", Key: "rejection-not-atomic " + key, Case: cs})
				}
				// S1's conflicting route must still be S1's.
				inst := strings.NewReplacer("{s}", "x", "{s=a/*}", "a/x", "**", "x").Replace(p)
				verb := strings.ToUpper(k.first)
				if verb == "*" {
					verb = "GET"
				}
				impl.reset()
				sr := serveSimple(m, verb, inst, "")
				r.Eval(1)
				if sr.Panicked || impl.n != 1 || impl.method != schema.methods[0] {
					r.Violation(report.Violation{Oracle: "rejection-damaged-routes", Key: "rejection-damaged-routes " + key, Case: cs, Note: fmt.Sprintf("%s %s -> status=%d dispatched=%d method=%s", verb, inst, sr.Code, impl.n, impl.method)})
				}
				impl.reset()
				if sr := serveSimple(m, "POST", schema.methods[1], ""); impl.n != 0 || sr.Panicked {
					r.Violation(report.Violation{Oracle: "rejection-damaged-routes", Key: "rejection-leaked-routes " + key, Case: cs, Note: "implicit route of the rejected service is served"})
				}
			}
		}
	}
	// a rule that re-declares another method's implicit /Service/Method path
	for _, k := range []string{"post", "*"} {
		rule := dyn.Rule{Kind: k, Path: schema.methods[0]}
		res, _, _ := c16Register(schema, rule, nil, true)
		r.Eval(1)
		cs := c16Case{Kind: "conflict", Rule: rule, NonEmpty: true}
		key := "conflict implicit-path kind=" + k
		switch {
		case res.panicked:
			r.Violation(report.Violation{Oracle: "register-panic", Key: "register-panic " + key, Case: cs, Note: res.err})
		case res.accepted:
			r.Violation(report.Violation{Oracle: "conflict-accepted", Key: "conflict-accepted " + key, Case: cs, Note: "another method's implicit path was re-bound"})
		case res.before != res.after:
			r.Violation(report.Violation{Oracle: "rejection-not-atomic", Key: "rejection-not-atomic " + key, Case: cs})
		default:
			r.Outcome("conflict:implicit->rejected")
		}
	}
}

// c16ImplicitBeforeOwner: a rule of one method claims the implicit /Service/Method path of a
// method that is registered AFTER it (a later service on the same mux, or a later method of
// the same service). google.api.http does not say who wins, so accept/reject are both fine,
// but registration must return (no panic), a rejection must be atomic, and the claiming
// method's own implicit route and every earlier route must still be served.
func c16ImplicitBeforeOwner(c *Ctx, schema *routeSchema) {
	r := c.Run
	single, err := newRouteSchema("vq", "S", 3, nil)
	if err != nil {
		panic(err)
	}
	for _, k := range []string{"post", "get", "put", "*"} {
		// (i) two services: S1.M0 claims S2's implicit path; S1 registered first, then S2.
		first := dyn.Rule{Kind: k, Path: schema.methods[1]}
		res, m, impl := c16Register(schema, dyn.Rule{Kind: "get", Path: "/own/{s}"}, &first, true)
		r.Eval(1)
		cs := c16Case{Kind: "conflict", Rule: dyn.Rule{Kind: "get", Path: "/own/{s}"}, Other: &first, NonEmpty: true}
		key := "conflict implicit-path-claimed-before-owner kind=" + k
		outcome := "accepted"
		switch {
		case res.panicked:
			outcome = "panic"
			r.Violation(report.Violation{Oracle: "register-panic", Key: "register-panic " + key, Case: cs, Note: res.err})
		case !res.accepted:
			outcome = "rejected"
			if res.before != res.after {
				r.Violation(report.Violation{Oracle: "rejection-not-atomic", Key: "rejection-not-atomic " + key, Case: cs})
			}
		}
		if m != nil && !res.panicked {
			impl.reset()
			if sr := serveSimple(m, "POST", schema.methods[0], ""); sr.Panicked || impl.n != 1 || impl.method != schema.methods[0] {
				r.Violation(report.Violation{Oracle: "rejection-damaged-routes", Key: "rejection-damaged-routes " + key, Case: cs, Note: fmt.Sprintf("POST %s (the first service's own implicit route) -> status=%d dispatched=%d", schema.methods[0], sr.Code, impl.n)})
			}
			r.Eval(1)
		}
		r.Outcome("conflict:implicit-before-owner->" + outcome)
		r.Distinct("conflict|implicit-before-owner|two-services|" + k + "|" + outcome)

		// (ii) one service, three methods: M0 claims M1's and M2's implicit paths.
		for _, target := range []int{1, 2} {
			rules := []boundRule{{M: 0, Rule: dyn.Rule{Kind: k, Path: single.methods[target]}}}
			var rerr error
			var m2 *larking.Mux
			var impl2 *recImpl
			p, txt := guard(func() { m2, impl2, rerr = single.newMux(rules, nil) })
			r.Eval(1)
			cs := map[string]any{"kind": "conflict", "service": "vq.S (3 methods)", "rule_on": single.methods[0], "rule": rules[0].Rule, "claims_implicit_path_of": single.methods[target]}
			key := fmt.Sprintf("conflict implicit-path-claimed-by-earlier-method kind=%s target=M%d", k, target)
			if pe, ok := rerr.(*panicError); ok {
				p, txt = true, pe.text
			}
			outcome := "accepted"
			switch {
			case p:
				outcome = "panic"
				r.Violation(report.Violation{Oracle: "register-panic", Key: "register-panic " + key, Case: cs, Note: txt})
			case rerr != nil:
				outcome = "rejected"
			default:
				// accepted: M0's own implicit path and the third method's must be served by their owners
				for _, mi := range []int{0, 3 - target} {
					impl2.reset()
					if sr := serveSimple(m2, "POST", single.methods[mi], ""); sr.Panicked || impl2.n != 1 || impl2.method != single.methods[mi] {
						r.Violation(report.Violation{Oracle: "acceptance-damaged-routes", Key: "acceptance-damaged-routes " + key, Case: cs, Note: fmt.Sprintf("POST %s -> status=%d dispatched=%d method=%s", single.methods[mi], sr.Code, impl2.n, impl2.method)})
					}
					r.Eval(1)
				}
			}
			r.Outcome("conflict:implicit-before-owner->" + outcome)
			r.Distinct("conflict|implicit-before-owner|one-service|" + k + "|" + outcome)
		}
	}
}

// c16SecondOwnerRevision: a method that is already served gets a second owner whose
// descriptor is a different revision of the service (as a redeployed back-end offers
// through reflection; all owners here are scripted back-ends registered with RegisterConn): the second registration's own rules are checked and bound like any
// others - a valid new binding routes, an invalid one is rejected with an error and nothing
// of it stays.
func c16SecondOwnerRevision(c *Ctx) {
	r := c.Run
	msgs := []*descriptorpb.DescriptorProto{
		dyn.Msg("Req", dyn.Str("s", 1), dyn.Str("t", 2)),
		dyn.Msg("Rsp", dyn.Str("s", 1)),
	}
	build := func(fname string, rule *dyn.Rule, withOther bool) protoreflect.FileDescriptor {
		svcs := []dyn.Service{{Name: "R", Methods: []dyn.Method{{Name: "M1", In: "Req", Out: "Rsp", Rule: rule}}}}
		if withOther {
			svcs = []dyn.Service{{Name: "Other", Methods: []dyn.Method{{Name: "M1", In: "Req", Out: "Rsp", Rule: rule}}}}
		}
		f := dyn.File{Name: fname, Pkg: "vr", Messages: msgs, Services: svcs}
		fd, _, err := f.Build()
		if err != nil {
			panic(err)
		}
		return fd
	}
	v1 := build("vr/r_v1.proto", &dyn.Rule{Kind: "get", Path: "/rev/one/{s}"}, false)
	other := build("vr/other.proto", &dyn.Rule{Kind: "get", Path: "/rev/taken/{s}"}, true)
	type rev struct {
		name string
		rule *dyn.Rule
		exp  string   // accept | reject
		live []string // GET paths that must reach R.M1 afterwards
	}
	revs := []rev{
		{"same rule", &dyn.Rule{Kind: "get", Path: "/rev/one/{s}"}, "accept", []string{"/rev/one/x"}},
		{"new valid binding", &dyn.Rule{Kind: "get", Path: "/rev/two/{s}"}, "accept", []string{"/rev/one/x", "/rev/two/x"}},
		{"same primary binding with a new additional binding", &dyn.Rule{Kind: "get", Path: "/rev/one/{s}", Add: []dyn.Rule{{Kind: "get", Path: "/rev/three/{t}"}}}, "accept", []string{"/rev/one/x", "/rev/three/x"}},
		{"new valid binding with additional bindings", &dyn.Rule{Kind: "get", Path: "/rev/two/{s}", Add: []dyn.Rule{{Kind: "get", Path: "/rev/three/{t}"}}}, "accept", []string{"/rev/one/x", "/rev/two/x", "/rev/three/x"}},
		{"malformed template", &dyn.Rule{Kind: "get", Path: "/rev/{s"}, "reject", []string{"/rev/one/x"}},
		{"unknown field path", &dyn.Rule{Kind: "get", Path: "/rev/two/{zz}"}, "reject", []string{"/rev/one/x"}},
		{"unknown field path on the node the first revision owns", &dyn.Rule{Kind: "get", Path: "/rev/one/{zz}"}, "reject", []string{"/rev/one/x"}},
		{"unresolvable body selector", &dyn.Rule{Kind: "post", Path: "/rev/two", Body: "zz"}, "reject", []string{"/rev/one/x"}},
		{"nested additional bindings", &dyn.Rule{Kind: "get", Path: "/rev/two/{s}", Add: []dyn.Rule{{Kind: "get", Path: "/rev/three/{s}", Add: []dyn.Rule{{Kind: "get", Path: "/rev/four/{s}"}}}}}, "reject", []string{"/rev/one/x"}},
		{"binding of another method", &dyn.Rule{Kind: "get", Path: "/rev/taken/{s}"}, "reject", []string{"/rev/one/x"}},
		{"valid binding then invalid additional binding", &dyn.Rule{Kind: "get", Path: "/rev/two/{s}", Add: []dyn.Rule{{Kind: "get", Path: "/rev/three/{zz}"}}}, "reject", []string{"/rev/one/x"}},
		{"the first revision's node bound to another field, then an invalid additional binding", &dyn.Rule{Kind: "get", Path: "/rev/one/{t}", Add: []dyn.Rule{{Kind: "get", Path: "/rev/three/{zz}"}}}, "reject", []string{"/rev/one/x"}},
	}
	ctx := context.Background()
	for i, rv := range revs {
		v2 := build(fmt.Sprintf("vr/r_v2_%d.proto", i), rv.rule, false)
		m, err := larking.NewMux()
		if err != nil {
			panic(err)
		}
		var nFirst, nSecond, nOther int
		lastReq := ""
		mkBackend := func(name string, fd protoreflect.FileDescriptor, svc string, n *int) *env.Backend {
			b := env.NewBackend(name, []protoreflect.FileDescriptor{fd}, []string{svc})
			b.Unary = func(ctx context.Context, method string, req, reply proto.Message) error {
				*n++
				lastReq = fmt.Sprint(req)
				return nil
			}
			return b
		}
		bo, b1, b2 := mkBackend("other", other, "vr.Other", &nOther), mkBackend("first", v1, "vr.R", &nFirst), mkBackend("second", v2, "vr.R", &nSecond)
		if err := m.RegisterConn(ctx, bo.Conn()); err != nil {
			panic(err)
		}
		if err := m.RegisterConn(ctx, b1.Conn()); err != nil {
			panic(err)
		}
		before := larking.VerifFingerprint(m.VerifSnapshot())
		var rerr error
		p, txt := guard(func() { rerr = m.RegisterConn(ctx, b2.Conn()) })
		after := larking.VerifFingerprint(m.VerifSnapshot())
		r.Eval(1)
		cs := map[string]any{"kind": "second-owner-revision", "revision": rv.name, "rule": rv.rule}
		key := "second-owner-revision " + rv.name
		closeAll := func() { bo.Conn().Close(); b1.Conn().Close(); b2.Conn().Close() }
		outcome := "accepted"
		switch {
		case p:
			outcome = "panic"
			r.Violation(report.Violation{Oracle: "register-panic", Key: "register-panic " + key, Case: cs, Note: txt})
			closeAll()
			continue
		case rerr != nil:
			outcome = "rejected"
		}
		r.Outcome("second-owner-revision:" + rv.exp + "->" + outcome)
		r.Distinct("second-owner-revision|" + rv.name + "|" + outcome)
		if rv.exp == "accept" && rerr != nil {
			r.Violation(report.Violation{Oracle: "valid-template-rejected", Key: "valid-rule-rejected " + key, Case: cs, Note: rerr.Error()})
			closeAll()
			continue
		}
		if rv.exp == "reject" && rerr == nil {
			r.Violation(report.Violation{Oracle: "invalid-template-accepted", Key: "invalid-rule-accepted " + key, Case: cs, Note: "the second owner's rule set was accepted without being checked"})
		}
		if rerr != nil && before != after {
			r.Violation(report.Violation{Oracle: "rejection-not-atomic", Key: "rejection-not-atomic " + key, Case: cs})
		}
		// routes that must be live, probed 6 times each (the handler pick is random)
		for _, path := range rv.live {
			for k := 0; k < 6; k++ {
				nFirst, nSecond = 0, 0
				sr := serveSimple(m, "GET", path, "")
				r.Eval(1)
				if sr.Panicked || nFirst+nSecond != 1 {
					r.Violation(report.Violation{Oracle: "accepted-template-does-not-route", Key: "second-owner-route-dead " + key + " " + path, Case: cs, Note: fmt.Sprintf("GET %s -> status=%d dispatched=%d %s", path, sr.Code, nFirst+nSecond, sr.Panic)})
					break
				}
				if rerr != nil && path == "/rev/one/x" && !strings.Contains(lastReq, `s:"x"`) {
					r.Violation(report.Violation{Oracle: "rejection-damaged-routes", Key: "rejected-revision-changed-binding " + key, Case: cs, Note: fmt.Sprintf("after the rejected registration GET /rev/one/x delivers {%s}; the live binding /rev/one/{s} binds s", lastReq)})
					break
				}
				if rerr != nil && nSecond != 0 {
					r.Violation(report.Violation{Oracle: "rejection-damaged-routes", Key: "rejected-owner-serves " + key, Case: cs, Note: "the back-end whose registration was rejected received a request"})
					break
				}
			}
		}
		// the other method's binding stays its own
		nOther = 0
		if sr := serveSimple(m, "GET", "/rev/taken/x", ""); sr.Panicked || nOther != 1 {
			r.Violation(report.Violation{Oracle: "rejection-damaged-routes", Key: "other-method-route-lost " + key, Case: cs, Note: fmt.Sprintf("GET /rev/taken/x -> status=%d dispatched=%d", sr.Code, nOther)})
		}
		r.Eval(1)
		closeAll()
	}
}

func replayC16(c *Ctx, v report.Violation) {
	var tc c16Case
	if !remarshal(v.Case, &tc) {
		fmt.Println("replay: cannot decode case")
		return
	}
	schema, _ := newRouteSchemaMulti("vt", 2)
	res, _, _ := c16Register(schema, tc.Rule, tc.Other, tc.NonEmpty)
	fmt.Printf("replay: rule=%s nonempty=%v -> accepted=%v panicked=%v err=%s atomic=%v\n", tc.Rule, tc.NonEmpty, res.accepted, res.panicked, res.err, res.before == res.after)
	// re-run the whole class deterministically to decide
	sub := *c
	run := report.NewRun("C16", "quick", 0, "exploration")
	sub.Run = run
	if strings.Contains(v.Key, "second-owner") || strings.Contains(v.Key, "rejected-owner-serves") || strings.Contains(v.Key, "other-method-route-lost") {
		tc.Kind = "conflict"
	}
	switch tc.Kind {
	case "selector", "nested":
		c16Selectors(&sub, schema)
	case "conflict":
		c16Conflicts(&sub, schema)
		c16ImplicitBeforeOwner(&sub, schema)
		c16SecondOwnerRevision(&sub)
	default:
		exp, _, why := c16ExpectTemplate(tc.Rule.Path)
		fmt.Printf("replay: reference expectation=%s (%s)\n", exp, why)
		if res.panicked || (exp == "accept" && !res.accepted) || (exp == "reject" && res.accepted) || (!res.accepted && res.before != res.after) {
			c.Run.Violation(report.Violation{Oracle: v.Oracle, Key: v.Key, Case: tc, Note: res.err})
		}
		if exp == "accept" && res.accepted && v.Oracle == "accepted-template-does-not-route" {
			c.Run.Violation(report.Violation{Oracle: v.Oracle, Key: v.Key, Case: tc, Note: "re-run ./check.sh C16 quick for the routing probe"})
		}
		return
	}
	if run.NumViolations() > 0 {
		c.Run.Violation(report.Violation{Oracle: v.Oracle, Key: v.Key, Case: tc, Note: "class still violated"})
	}
}
