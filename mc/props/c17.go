package props

import (
	"bytes"
	"fmt"
	"io"
	"strings"
	"sync"

	"larking.io/larking"

	"verif/env"
	"verif/explore"
	"verif/report"
)

// C17 — stream codec framing is fragmentation-invariant and limit-safe.
//
// Space: codec × message sequence × limit × initial carry split × buffer capacity ×
// EOF convention × read partition. Every point is executed on the real codec through a
// scripted reader; the oracle is the sequence itself.

func init() {
	register(&Check{ID: "C17", Level: "model_checking", Run: runC17, Replay: replayC17})
}

type c17Case struct {
	Codec    string   `json:"codec"`
	Msgs     []string `json:"msgs_hex"`
	Stream   string   `json:"stream_hex"`
	Limit    int      `json:"limit"`
	Carry    int      `json:"initial_carry"`
	Cap      int      `json:"buf_cap"` // 0 = exact
	EOFWith  bool     `json:"eof_with_data"`
	Cuts     []int    `json:"cuts"`
	MaxRead  int      `json:"max_read,omitempty"`
	Truncate int      `json:"truncate_at"`             // -1 = none; else the stream is cut to this many bytes
	KeepCap  bool     `json:"keep_capacity,omitempty"` // the caller goes on with dst[n:] itself (spare capacity kept) instead of a copy
}

func c17Codec(name string) larking.StreamCodec {
	switch name {
	case "proto":
		return larking.CodecProto{}
	case "json":
		return larking.CodecJSON{}
	case "body":
		return larking.VerifHTTPBodyCodec()
	}
	panic("codec " + name)
}

// refVarint is an independent base-128 varint encoder.
func refVarint(v uint64) []byte {
	var b []byte
	for v >= 0x80 {
		b = append(b, byte(v)|0x80)
		v >>= 7
	}
	return append(b, byte(v))
}

// refReadVarint decodes a varint; ok=false on overflow/short.
func refReadVarint(b []byte) (v uint64, n int, ok bool) {
	for i := 0; i < len(b) && i < 10; i++ {
		c := b[i]
		if i == 9 && c > 1 {
			return 0, 0, false
		}
		v |= uint64(c&0x7f) << (7 * uint(i))
		if c < 0x80 {
			return v, i + 1, true
		}
	}
	return 0, 0, false
}

func c17Frame(codec string, m []byte) []byte {
	if codec == "proto" {
		return append(refVarint(uint64(len(m))), m...)
	}
	return m
}

type c17Obs struct {
	step   int
	oracle string
	note   string
}

// c17Exec runs one read schedule and returns the first oracle failure (nil if none),
// plus the (consumed, carry, index) states visited and number of ReadNext calls.
func c17Exec(tc *c17Case, msgs [][]byte, stream []byte, states map[[3]int]struct{}) (fail *c17Obs, calls int) {
	codec := c17Codec(tc.Codec)
	full := stream
	truncated := false
	if tc.Truncate >= 0 && tc.Truncate < len(stream) {
		stream = stream[:tc.Truncate]
		truncated = true
	}
	carry := tc.Carry
	if carry > len(stream) {
		carry = len(stream)
	}
	// Cuts are relative to the full stream; the reader only holds stream[carry:].
	var cuts []int
	for _, c := range tc.Cuts {
		if c > carry && c < len(stream) {
			cuts = append(cuts, c-carry)
		}
	}
	rd := env.NewReader(env.Script{Data: stream[carry:], Cuts: cuts, MaxRead: tc.MaxRead, EOFWithData: tc.EOFWith})
	capb := tc.Cap
	if capb < carry {
		capb = carry
	}
	buf := make([]byte, carry, capb)
	copy(buf, stream[:carry])

	off := 0 // offset in stream of the next expected message's first byte
	idx := 0
	maxSteps := len(msgs) + 3
	if tc.Codec == "body" {
		maxSteps = len(stream) + 4
	}
	for step := 0; step < maxSteps; step++ {
		if states != nil {
			states[[3]int{rd.Consumed(), len(buf), idx}] = struct{}{}
		}
		var dst []byte
		var n int
		var err error
		calls++
		panicked, ptxt := guard(func() { dst, n, err = codec.ReadNext(buf, rd, tc.Limit) })
		if panicked {
			return &c17Obs{step, "panic", ptxt}, calls
		}
		if n < 0 || n > len(dst) {
			return &c17Obs{step, "n-out-of-range", fmt.Sprintf("n=%d len(dst)=%d err=%v", n, len(dst), err)}, calls
		}
		if rd.PostEnd > 4 {
			return &c17Obs{step, "reads-after-eof", fmt.Sprintf("%d reads after terminal error", rd.PostEnd)}, calls
		}
		// What a correct codec must do at this position.
		if tc.Codec == "body" {
			// Chunker: concatenation of chunks == stream; each chunk <= limit; EOF when drained.
			if err != nil && err != io.EOF {
				return &c17Obs{step, "unexpected-error", err.Error()}, calls
			}
			if n > tc.Limit {
				return &c17Obs{step, "over-limit-chunk", fmt.Sprintf("n=%d limit=%d", n, tc.Limit)}, calls
			}
			if !bytes.Equal(dst[:n], stream[min(off, len(stream)):min(off+n, len(stream))]) || off+n > len(stream) {
				return &c17Obs{step, "chunk-mismatch", fmt.Sprintf("chunk %x at offset %d of stream %x", dst[:n], off, stream)}, calls
			}
			// remainder law
			rest := append(append([]byte{}, dst[n:]...), stream[carry+rd.Consumed():]...)
			if !bytes.Equal(rest, stream[off+n:]) {
				return &c17Obs{step, "remainder-mismatch", fmt.Sprintf("dst[n:]=%x unread=%x want rest=%x", dst[n:], stream[carry+rd.Consumed():], stream[off+n:])}, calls
			}
			off += n
			if err == io.EOF {
				if off == len(stream) {
					return nil, calls
				}
				// As used by the mux, a chunk returned together with io.EOF is the last one: whatever
				// the chunker still holds behind it (or has not read) is lost.
				return &c17Obs{step, "lost-bytes-at-eof", fmt.Sprintf("EOF reported with %d of %d bytes delivered, carry=%d, n=%d", off, len(stream), len(dst[n:]), n)}, calls
			}
			if n == 0 && err == nil {
				return &c17Obs{step, "empty-chunk-no-progress", "n=0 with nil error"}, calls
			}
			buf = append(buf[:0:0], dst[n:]...)
			idx++
			if step >= len(stream)+2 {
				return &c17Obs{step, "no-termination", "more chunks than bytes"}, calls
			}
			continue
		}

		// Framed codecs. Which message is expected next?
		if idx < len(msgs) {
			frame := c17Frame(tc.Codec, msgs[idx])
			complete := off+len(frame) <= len(stream)
			size := len(msgs[idx])
			if tc.Codec == "json" {
				// white space in front of a JSON message (the separator of a newline-delimited
				// stream, glued to the message here) belongs to no message: the limit is about the
				// message's own encoding (C08 states sizes that way)
				size = len(bytes.TrimLeft(msgs[idx], " \t\r\n"))
			}
			if size > tc.Limit {
				// Over the limit: must be an error (never truncated, never EOF-clean success).
				if err == nil {
					return &c17Obs{step, "over-limit-accepted", fmt.Sprintf("message %d of size %d returned n=%d under limit %d", idx, size, n, tc.Limit)}, calls
				}
				return nil, calls // error reported: stream is dead from here, nothing more demanded
			}
			if complete {
				if err != nil {
					return &c17Obs{step, "message-lost", fmt.Sprintf("message %d (size %d, limit %d) not returned: err=%v", idx, size, tc.Limit, err)}, calls
				}
				if !bytes.Equal(dst[:n], msgs[idx]) {
					return &c17Obs{step, "message-mismatch", fmt.Sprintf("message %d: got %x want %x", idx, dst[:n], msgs[idx])}, calls
				}
				rest := append(append([]byte{}, dst[n:]...), stream[carry+rd.Consumed():]...)
				if !bytes.Equal(rest, stream[off+len(frame):]) {
					return &c17Obs{step, "remainder-mismatch", fmt.Sprintf("after message %d: dst[n:]=%x unread=%x want %x", idx, dst[n:], stream[carry+rd.Consumed():], stream[off+len(frame):])}, calls
				}
				off += len(frame)
				idx++
				if tc.KeepCap {
					buf = dst[n:]
				} else {
					buf = append(buf[:0:0], dst[n:]...)
				}
				continue
			}
			// Truncated inside message idx (or exactly at its start when off==len(stream)).
			if !truncated {
				panic("harness: incomplete frame without truncation")
			}
			if err == nil {
				return &c17Obs{step, "fabricated-message", fmt.Sprintf("truncated stream (%d of %d bytes) yielded message %x", len(stream), len(full), dst[:n])}, calls
			}
			if off == len(stream) && err != io.EOF {
				return &c17Obs{step, "clean-end-not-eof", fmt.Sprintf("cut on a message boundary: err=%v", err)}, calls
			}
			return nil, calls
		}
		// All messages consumed: clean end of stream.
		if err == nil {
			return &c17Obs{step, "phantom-message", fmt.Sprintf("after %d messages got another one: %x", len(msgs), dst[:n])}, calls
		}
		if err != io.EOF {
			return &c17Obs{step, "clean-end-not-eof", fmt.Sprintf("err=%v", err)}, calls
		}
		return nil, calls
	}
	return &c17Obs{0, "no-termination", "read loop did not end"}, calls
}

func c17Msg(size int, seedByte byte) []byte {
	b := make([]byte, size)
	for i := range b {
		// includes bytes >= 0x80 and '{' '}' '"' lookalikes for the proto framing
		b[i] = seedByte + byte(i)*0x3b
	}
	return b
}

var c17JSON = []string{
	`{}`,
	`{"a":1}`,
	`{"a":{"b":{}}}`,
	`{"a":"}"}`,
	`{"a":"\"}"}`,
	`{"a":"\\"}`,
	`{"é":"{"}`,
	"\n{}",
}

type c17Seq struct {
	codec string
	msgs  [][]byte
}

func c17Sequences(thorough bool) []c17Seq {
	var out []c17Seq
	// proto: sizes; sequences of 0..3 messages
	sizes := []int{0, 1, 2, 5}
	var rec func(prefix []int, depth int)
	rec = func(prefix []int, depth int) {
		var msgs [][]byte
		for i, s := range prefix {
			msgs = append(msgs, c17Msg(s, byte(0x7d+i*0x41)))
		}
		out = append(out, c17Seq{"proto", msgs})
		if depth == 3 {
			return
		}
		for _, s := range sizes {
			rec(append(append([]int{}, prefix...), s), depth+1)
		}
	}
	rec(nil, 0)
	bigs := [][]int{{127}, {128}, {300}, {127, 128}, {128, 0, 300}, {300, 300}, {16384}}
	// sizes around the capacity-growth thresholds (doubling below 1024, by a quarter above), the
	// 2- and 3-byte length prefixes and 64 KiB; thorough: the 4-byte prefix as well
	for _, s := range []int{1023, 1024, 1025, 2047, 2048, 2049, 4095, 4096, 4097, 16383, 16385, 65535, 65536, 65537} {
		bigs = append(bigs, []int{s}, []int{3, s, 1})
	}
	if thorough {
		for _, s := range []int{2097151, 2097152, 2097153} {
			bigs = append(bigs, []int{s})
		}
	}
	// growth of a reused buffer: a message 1.25..2 times the capacity the previous ones left
	bigs = append(bigs, []int{1500}, []int{1500, 1500, 1500}, []int{3, 1300, 1}, []int{1000, 1500, 2300, 3500, 5300}, []int{5300, 1100, 2000, 1030})
	// long streams: 300 messages of cycling sizes (counters, accumulated carry-over)
	var long []int
	for i := 0; i < 300; i++ {
		long = append(long, []int{0, 1, 2, 5, 127, 128, 64, 63}[i%8])
	}
	bigs = append(bigs, long)
	for _, big := range bigs {
		var msgs [][]byte
		for i, s := range big {
			msgs = append(msgs, c17Msg(s, byte(0x80+i)))
		}
		out = append(out, c17Seq{"proto", msgs})
	}
	// json
	var recj func(prefix []int, depth int)
	recj = func(prefix []int, depth int) {
		var msgs [][]byte
		for _, s := range prefix {
			msgs = append(msgs, []byte(c17JSON[s]))
		}
		out = append(out, c17Seq{"json", msgs})
		maxd := 2
		if thorough {
			maxd = 3
		}
		if depth == maxd {
			return
		}
		for s := range c17JSON {
			recj(append(append([]int{}, prefix...), s), depth+1)
		}
	}
	recj(nil, 0)
	// json at scale: nesting depth 300, a long string full of braces / quotes / backslashes, messages
	// of 1 KiB .. 64 KiB, and a stream of 300 messages
	deep := strings.Repeat(`{"a":`, 300) + `{}` + strings.Repeat(`}`, 300)
	longStr := `{"s":"` + strings.Repeat(`}{\\\"x`, 700) + `"}`
	out = append(out, c17Seq{"json", [][]byte{[]byte(deep)}}, c17Seq{"json", [][]byte{[]byte(longStr)}}, c17Seq{"json", [][]byte{[]byte(`{}`), []byte(deep), []byte(longStr), []byte(`{"a":1}`)}})
	for _, n := range []int{1023, 1024, 1025, 4096, 65536} {
		out = append(out, c17Seq{"json", [][]byte{[]byte(`{"s":"` + strings.Repeat("y", n-8) + `"}`)}})
	}
	var many [][]byte
	for i := 0; i < 300; i++ {
		many = append(many, []byte(c17JSON[i%len(c17JSON)]))
	}
	out = append(out, c17Seq{"json", many})
	return out
}

func runC17(c *Ctx) {
	r := c.Run
	r.Rule("codec{proto,json,body} × message sequence (0..3 msgs of 0..5 bytes; sizes around 127/128, 1024, 2048, 4096, 16384, 65536 (thorough: 2 MiB) alone and between small messages; a 300-message stream; JSON nested 300 deep, a 5 kB string of braces/quotes/backslashes, 1 KiB..64 KiB strings) × limit{max-1,max,max+1,big} × initial carry split × buf cap{exact,64; 1024,4096 for streams over 1 kB} × carry-over convention{copy of dst[n:], dst[n:] itself with its spare capacity} × EOF convention{separate,with data} × read partition (all 2^(n-1) for short streams; ≤2 cuts + uniform chunk sizes beyond) × truncation offset; plus every 1..10-byte length prefix over {80,81,ff}*{00,01,02,7f}; plus the write side: WriteNext framing of every sequence, no write into the caller's memory (batch of messages in one buffer), and ReadNext→WriteNext relays with carried look-ahead (5 read granularities × 4 buffer capacities); distinct = (codec,sequence,limit) classes")
	r.Assume("limit <= 0 is not exercised (semantics undocumented)", "the scripted reader follows the io.Reader contract (may return n>0 together with io.EOF)")
	fullMax := 10
	if c.Thorough() {
		fullMax = 13
	}
	seqs := c17Sequences(c.Thorough())

	type job struct {
		seq   c17Seq
		limit int
	}
	var jobs []job
	for _, s := range seqs {
		mx := 0
		for _, m := range s.msgs {
			if len(m) > mx {
				mx = len(m)
			}
		}
		lims := map[int]bool{mx + 1: true, 1 << 22: true}
		if mx >= 1 {
			lims[mx] = true
		}
		if mx >= 2 {
			lims[mx-1] = true
		}
		for l := range lims {
			jobs = append(jobs, job{s, l})
		}
	}
	// HttpBody chunker: streams of every length 0..3*limit+1.
	for _, lim := range []int{1, 2, 3, 4, 7} {
		for n := 0; n <= 3*lim+1; n++ {
			jobs = append(jobs, job{c17Seq{"body", [][]byte{c17Msg(n, 0x11)}}, lim})
		}
	}

	var mu sync.Mutex
	stateSet := map[string]struct{}{}
	explore.ParallelFor(len(jobs), r.TooManyViolations, func(_ int, ji int) {
		j := jobs[ji]
		var stream []byte
		var hexMsgs, fullHex []string
		for _, m := range j.seq.msgs {
			stream = append(stream, c17Frame(j.seq.codec, m)...)
			fullHex = append(fullHex, hexs(m))
			if len(m) > 512 {
				hexMsgs = append(hexMsgs, fmt.Sprintf("%s..(%d bytes)", hexs(m[:8]), len(m)))
			} else {
				hexMsgs = append(hexMsgs, hexs(m))
			}
		}
		if j.seq.codec == "body" {
			hexMsgs, fullHex = nil, nil
		}
		if len(hexMsgs) > 8 {
			hexMsgs = append(hexMsgs[:8:8], fmt.Sprintf("..(%d messages)", len(j.seq.msgs)))
		}
		n := len(stream)
		local := map[[3]int]struct{}{}
		var execs, calls int64
		classKey := fmt.Sprintf("%s|%v|%d", j.seq.codec, hexMsgs, j.limit)
		if j.seq.codec == "body" {
			classKey = fmt.Sprintf("body|len=%d|%d", n, j.limit)
		}
		failed := map[string]bool{}
		outc := map[string]int64{}
		defer func() {
			for k, v := range outc {
				r.OutcomeN(k, v)
			}
		}()
		run := func(tc *c17Case) {
			execs++
			f, k := c17Exec(tc, j.seq.msgs, stream, local)
			calls += int64(k)
			if f != nil {
				outc["FAIL:"+f.oracle]++
				if failed[f.oracle] {
					return // one replay per (class, oracle) is enough
				}
				failed[f.oracle] = true
				cp := *tc
				cp.Cuts = append([]int(nil), tc.Cuts...)
				r.Violation(report.Violation{Oracle: f.oracle, Key: fmt.Sprintf("%s codec=%s msgs=%v limit=%d carry=%d cap=%d eofwith=%v cuts=%v maxread=%d trunc=%d", f.oracle, tc.Codec, hexMsgs, tc.Limit, tc.Carry, tc.Cap, tc.EOFWith, tc.Cuts, tc.MaxRead, tc.Truncate), Case: cp, Note: fmt.Sprintf("step %d: %s", f.step, f.note)})
			} else {
				outc["ok"]++
			}
		}
		tc := &c17Case{Codec: j.seq.codec, Msgs: fullHex, Stream: hexs(stream), Limit: j.limit, Truncate: -1}
		carries := []int{0}
		for k := 1; k <= n; k++ {
			if n > 64 && k > 2 && k < n-2 && k%61 != 0 {
				continue // long streams: boundary carries and every 61st only
			}
			if n > 1024 && k > 2 && k < n-2 && k%4099 != 0 {
				continue
			}
			if n > 100000 && k > 1 && k < n {
				continue
			}
			carries = append(carries, k)
		}
		caps := []int{0, 64}
		if n > 1000 {
			caps = []int{0, 64, 1024, 4096} // a pooled buffer that earlier, larger messages left behind
		}
		for _, ec := range []int{0, 1, 2, 3} {
			eofWith := ec&1 == 1
			tc.KeepCap = ec&2 == 2
			if tc.KeepCap && j.seq.codec == "body" {
				continue
			}
			for _, capb := range caps {
				for _, carry := range carries {
					tc.EOFWith, tc.Cap, tc.Carry, tc.MaxRead = eofWith, capb, carry, 0
					if n <= fullMax {
						env.AllCutSets(n, func(cuts []int) { tc.Cuts = cuts; run(tc) })
					} else {
						if n <= 400 {
							env.SmallCutSets(n, 1, func(cuts []int) { tc.Cuts = cuts; run(tc) })
						}
						tc.Cuts = nil
						mrs := []int{1, 2, 3, 5, 63, 64, 65, 127, 128, 129, 1024, 4096, 0}
						if n > 100000 {
							mrs = []int{4093, 65536, 0} // megabyte messages: coarse reads only
						}
						for _, mr := range mrs {
							tc.MaxRead = mr
							run(tc)
						}
						tc.MaxRead = 0
					}
				}
				// Truncation at every offset (carry 0, three partitions).
				if j.seq.codec != "body" && n <= 64 {
					for t := 0; t < n; t++ {
						tc.Truncate, tc.Carry = t, 0
						for _, mr := range []int{0, 1, 3} {
							tc.MaxRead, tc.Cuts = mr, nil
							run(tc)
						}
					}
					tc.Truncate, tc.MaxRead = -1, 0
				}
			}
		}
		r.Eval(execs)
		r.AddTransitions(calls)
		r.Distinct(classKey)
		if r.WantSample() && ji%37 == 5 && len(stream) <= 2048 {
			r.Sample(map[string]any{"codec": j.seq.codec, "msgs_hex": hexMsgs, "stream_hex": hexs(stream), "limit": j.limit, "schedules": execs})
		}
		mu.Lock()
		for s := range local {
			stateSet[fmt.Sprintf("%s|%d|%v", j.seq.codec, n, s)] = struct{}{}
		}
		mu.Unlock()
	})

	c17Prefixes(c)
	c17WriteSide(c)

	r.AddStates(int64(len(stateSet)))
	r.AddValidated(r.Evaluations())
	r.Set("validation_note", "every explored read schedule is executed on the real codec (no separate model); traces_validated_against_impl = schedules executed")
	r.Set("full_partition_max_stream_len", fullMax)
}

// c17Prefixes explores every 1..10-byte length prefix over a small byte alphabet.
func c17Prefixes(c *Ctx) {
	r := c.Run
	heads := []byte{0x80, 0x81, 0xff}
	tails := []byte{0x00, 0x01, 0x02, 0x7f}
	var prefixes [][]byte
	var rec func(p []byte, l int)
	rec = func(p []byte, l int) {
		if len(p) == l-1 {
			for _, t := range tails {
				prefixes = append(prefixes, append(append([]byte{}, p...), t))
			}
			return
		}
		for _, h := range heads {
			rec(append(p, h), l)
		}
	}
	maxL := 10
	for l := 1; l <= maxL; l++ {
		rec(nil, l)
	}
	// an 11-byte run of continuation bytes and a 10th byte > 1 (overflow)
	prefixes = append(prefixes, bytes.Repeat([]byte{0xff}, 11), append(bytes.Repeat([]byte{0x80}, 9), 0x02), append(bytes.Repeat([]byte{0xff}, 9), 0x7f))
	codec := larking.CodecProto{}
	explore.ParallelFor(len(prefixes), r.TooManyViolations, func(_ int, i int) {
		p := prefixes[i]
		v, vn, ok := refReadVarint(p)
		var execs int64
		outc := map[string]int64{}
		defer func() {
			for k, v := range outc {
				r.OutcomeN(k, v)
			}
		}()
		for _, payload := range []int{0, 1, 3} {
			stream := append(append([]byte{}, p...), c17Msg(payload, 0x55)...)
			for _, limit := range []int{1, 100, 1 << 22} {
				for _, eofWith := range []bool{false, true} {
					for _, mr := range []int{0, 1} {
						execs++
						rd := env.NewReader(env.Script{Data: stream, MaxRead: mr, EOFWithData: eofWith})
						var dst []byte
						var n int
						var err error
						panicked, ptxt := guard(func() { dst, n, err = codec.ReadNext(make([]byte, 0, 16), rd, limit) })
						key := fmt.Sprintf("prefix=%x payload=%d limit=%d eofwith=%v maxread=%d", p, payload, limit, eofWith, mr)
						cs := map[string]any{"prefix_hex": hexs(p), "payload": payload, "limit": limit, "eof_with_data": eofWith, "max_read": mr, "kind": "prefix"}
						fail := func(oracle, note string) {
							r.Outcome("FAIL:" + oracle)
							r.Violation(report.Violation{Oracle: "prefix-" + oracle, Key: "prefix-" + oracle + " " + key, Case: cs, Note: note})
						}
						switch {
						case panicked:
							fail("panic", ptxt)
						case n < 0 || n > len(dst):
							fail("n-out-of-range", fmt.Sprintf("n=%d len(dst)=%d err=%v (decoded length %d)", n, len(dst), err, v))
						case !ok && err == nil:
							fail("invalid-varint-accepted", fmt.Sprintf("n=%d", n))
						case ok && v > uint64(limit) && err == nil:
							fail("over-limit-accepted", fmt.Sprintf("length %d limit %d n=%d", v, limit, n))
						case ok && v <= uint64(limit) && uint64(len(stream)-vn) >= v && (err != nil || !bytes.Equal(dst[:n], stream[vn:vn+int(v)])):
							fail("message-lost", fmt.Sprintf("length %d: n=%d err=%v", v, n, err))
						case ok && v <= uint64(limit) && uint64(len(stream)-vn) < v && err == nil:
							fail("fabricated-message", fmt.Sprintf("length %d with %d payload bytes: n=%d", v, len(stream)-vn, n))
						default:
							if err != nil {
								outc["prefix-error"]++
							} else {
								outc["prefix-ok"]++
							}
						}
					}
				}
			}
		}
		r.Eval(execs)
		r.AddTransitions(execs)
		if i%5000 == 0 {
			r.Distinct(fmt.Sprintf("prefix|%x", p))
		}
	})
	r.Set("length_prefixes", len(prefixes))
}

// c17WriteSide: the writing half of the law. For every sequence: (1) WriteNext of each message
// produces exactly the reference framing; (2) WriteNext writes nothing into the caller's
// memory - neither into the message nor into the spare capacity behind it (which, in a relay
// or a batch, holds the next message or the reader's look-ahead); (3) a relay - ReadNext,
// WriteNext(dst[:n]) to the output, carry dst[n:] into the next ReadNext - reproduces the
// input stream byte for byte, for several read granularities and buffer capacities.
func c17WriteSide(c *Ctx) {
	r := c.Run
	for _, seq := range c17Sequences(c.Thorough()) {
		if seq.codec == "body" {
			continue
		}
		codec := c17Codec(seq.codec)
		var stream []byte
		for _, m := range seq.msgs {
			stream = append(stream, c17Frame(seq.codec, m)...)
		}
		cs := map[string]any{"kind": "write-side", "codec": seq.codec, "msgs_hex": fmt.Sprintf("%x", seq.msgs)}
		key := fmt.Sprintf("codec=%s msgs=%x", seq.codec, seq.msgs)
		// (1) + (2): a batch - all messages back to back in ONE buffer, written one by one
		batch := make([]byte, 0, len(stream)+32)
		var offs [][2]int
		for _, m := range seq.msgs {
			offs = append(offs, [2]int{len(batch), len(batch) + len(m)})
			batch = append(batch, m...)
		}
		batch = append(batch, bytes.Repeat([]byte{0xEE}, 16)...) // sentinel bytes behind the last message
		pristine := append([]byte(nil), batch...)
		var out bytes.Buffer
		for i, o := range offs {
			src := batch[o[0]:o[1]] // cap(src) reaches to the end of the batch buffer
			var one bytes.Buffer
			p, txt := guard(func() { _, _ = codec.WriteNext(&one, src) })
			r.Eval(1)
			if p {
				r.Violation(report.Violation{Oracle: "panic", Key: "write-panic " + key, Case: cs, Note: txt})
				break
			}
			if want := c17Frame(seq.codec, seq.msgs[i]); !bytes.Equal(one.Bytes(), want) {
				r.Outcome("FAIL:write-framing")
				r.Violation(report.Violation{Oracle: "write-framing", Key: "write-framing " + key, Case: cs, Note: fmt.Sprintf("message %d: WriteNext wrote %x, the framing is %x", i, one.Bytes(), want)})
				break
			}
			if !bytes.Equal(batch, pristine) {
				r.Outcome("FAIL:write-touches-caller-memory")
				r.Violation(report.Violation{Oracle: "write-touches-caller-memory", Key: "write-touches-caller-memory " + key, Case: cs,
					Note: fmt.Sprintf("writing message %d changed the caller's buffer (the message itself or the bytes behind it within its capacity):\n was %x\n now %x", i, pristine, batch)})
				break
			}
			out.Write(one.Bytes())
		}
		// (3) relay
		for _, chunk := range []int{1, 2, 3, 5, 64} {
			for _, capb := range []int{0, 4, 16, 64} {
				rd := env.NewReader(env.Script{Data: stream, MaxRead: chunk})
				var relayed bytes.Buffer
				buf := make([]byte, 0, capb)
				bad := ""
				for step := 0; step < len(seq.msgs)+2 && bad == ""; step++ {
					var dst []byte
					var n int
					var err error
					p, txt := guard(func() { dst, n, err = codec.ReadNext(buf, rd, 1<<22) })
					if p {
						bad = "panic in ReadNext: " + txt
						break
					}
					if err != nil {
						if n > 0 {
							if _, werr := codec.WriteNext(&relayed, dst[:n]); werr != nil {
								bad = "WriteNext: " + werr.Error()
							}
						}
						break
					}
					if _, werr := codec.WriteNext(&relayed, dst[:n]); werr != nil {
						bad = "WriteNext: " + werr.Error()
						break
					}
					buf = append(dst[:0], dst[n:]...) // carry the look-ahead, as the mux does
				}
				r.Eval(1)
				if bad == "" && !bytes.Equal(relayed.Bytes(), stream) {
					bad = fmt.Sprintf("relayed stream %x differs from the input stream %x", relayed.Bytes(), stream)
				}
				if bad != "" {
					r.Outcome("FAIL:relay")
					r.Violation(report.Violation{Oracle: "relay-differs", Key: fmt.Sprintf("relay-differs %s chunk=%d cap=%d", key, chunk, capb), Case: cs, Note: bad})
					break
				}
				r.Outcome("write-side:relay-ok")
			}
		}
	}
}

func replayC17(c *Ctx, v report.Violation) {
	if strings.HasPrefix(v.Key, "write-") || strings.HasPrefix(v.Key, "relay-") {
		sub := *c
		sub.Run = report.NewRun("C17", "quick", 0, "exploration")
		c17WriteSide(&sub)
		fmt.Printf("replay: write-side family re-run -> %d violations\n", sub.Run.NumViolations())
		if sub.Run.NumViolations() > 0 {
			c.Run.Violation(report.Violation{Oracle: v.Oracle, Key: v.Key, Case: v.Case, Note: "still violated"})
		}
		return
	}
	// Case is re-marshalled through JSON by the caller into v.Case (map); decode fields.
	var tc c17Case
	if !remarshal(v.Case, &tc) {
		fmt.Println("replay: cannot decode case")
		return
	}
	if tc.Codec == "" {
		fmt.Println("replay: prefix cases are replayed by re-running the check (deterministic enumeration)")
		return
	}
	var msgs [][]byte
	for _, h := range tc.Msgs {
		msgs = append(msgs, unhex(h))
	}
	stream := unhex(tc.Stream)
	if tc.Codec == "body" {
		msgs = [][]byte{stream}
	}
	f, _ := c17Exec(&tc, msgs, stream, nil)
	if f == nil {
		fmt.Println("replay: no failure")
		return
	}
	fmt.Printf("replay: oracle=%s step=%d %s\n", f.oracle, f.step, f.note)
	c.Run.Violation(report.Violation{Oracle: f.oracle, Key: v.Key, Case: tc, Note: f.note})
}
