package props

import (
	"context"
	"fmt"
	"sort"
	"strings"

	"google.golang.org/protobuf/proto"
	"google.golang.org/protobuf/reflect/protoreflect"
	"google.golang.org/protobuf/types/descriptorpb"

	"larking.io/larking"

	"verif/dyn"
	"verif/env"
	"verif/explore"
	tmpl "verif/ref/template"
	"verif/report"
)

// C02, histories with removals: the routing decision depends on the set of rules currently
// registered, not on how that set was reached. For every set of 3 (thorough: also 4) templates
// from a family that shares one trie node (literals, single/multi-segment variables with and
// without sub-patterns, wildcards), each template on its own method served by its own
// scripted back-end: register all (every order), DropConn one of them, and compare every
// probe's outcome (status, serving back-end, bound fields) with a mux that registered only
// the remaining templates from scratch.

var c02DropFamily = []string{
	"/d/{s}", "/d/{s=**}", "/d/{s=bb/*}", "/d/{s=bb/**}", "/d/{s=*/x}", "/d/*", "/d/**", "/d/bb/{t}", "/d/{s}/x", "/d/bb", "/d/{s=bb}",
	// one method with several bindings (" + " = additional binding) below sibling variables of the
	// shared node: the multi-pattern resource name
	"/d/{s=p/*} + /d/{s=f/*} + /d/{s=o/*}",
	"/d/{t=f/*/k} + /d/{t=g/*/k} + /d/{t=h/*/k} + /d/{t=i/*/k}",
}

func c02DropRule(member string) *dyn.Rule {
	parts := strings.Split(member, " + ")
	r := &dyn.Rule{Kind: "get", Path: parts[0]}
	for _, a := range parts[1:] {
		r.Add = append(r.Add, dyn.Rule{Kind: "get", Path: a})
	}
	return r
}

type c02DropWorld struct {
	files []protoreflect.FileDescriptor // one per template: service vd.S<i> with method M
}

func newC02DropWorld() *c02DropWorld {
	w := &c02DropWorld{}
	msgs := []*descriptorpb.DescriptorProto{
		dyn.Msg("Req", dyn.Str("s", 1), dyn.Str("t", 2)),
		dyn.Msg("Rsp", dyn.Str("s", 1)),
	}
	mf := dyn.File{Name: "vd/msgs.proto", Pkg: "vd", Messages: msgs}
	mfd, _, err := mf.Build()
	if err != nil {
		panic(err)
	}
	for i, t := range c02DropFamily {
		f := dyn.File{Name: fmt.Sprintf("vd/s%d.proto", i), Pkg: "vd", Deps: []protoreflect.FileDescriptor{mfd}, Services: []dyn.Service{{Name: fmt.Sprintf("S%d", i), Methods: []dyn.Method{
			{Name: "M", In: "Req", Out: "Rsp", Rule: c02DropRule(t)},
		}}}}
		fd, _, err := f.Build()
		if err != nil {
			panic(err)
		}
		w.files = append(w.files, fd)
	}
	return w
}

type c02DropMux struct {
	m      *larking.Mux
	b      map[int]*env.Backend
	served string // "S<i> s=… t=…" of the last call
}

func (w *c02DropWorld) newMux() *c02DropMux {
	m, err := larking.NewMux()
	if err != nil {
		panic(err)
	}
	return &c02DropMux{m: m, b: map[int]*env.Backend{}}
}

func (w *c02DropWorld) register(x *c02DropMux, i int) error {
	b := env.NewBackend(fmt.Sprintf("b%d", i), []protoreflect.FileDescriptor{w.files[i]}, []string{fmt.Sprintf("vd.S%d", i)})
	b.Unary = func(ctx context.Context, method string, req, reply proto.Message) error {
		r := req.ProtoReflect()
		var fs []string
		r.Range(func(fd protoreflect.FieldDescriptor, v protoreflect.Value) bool {
			fs = append(fs, fmt.Sprintf("%s=%q", fd.Name(), v.String()))
			return true
		})
		sort.Strings(fs)
		x.served = fmt.Sprintf("S%d %s", i, strings.Join(fs, " "))
		return nil
	}
	x.b[i] = b
	return x.m.RegisterConn(context.Background(), b.Conn())
}

func (x *c02DropMux) close() {
	for _, b := range x.b {
		b.Conn().Close()
	}
}

func (x *c02DropMux) probe(path string) string {
	x.served = ""
	sr := serveSimple(x.m, "GET", path, "")
	if sr.Panicked {
		return "PANIC " + sr.Panic
	}
	return fmt.Sprintf("status=%d served=[%s]", sr.Code, x.served)
}

func c02AfterDrop(c *Ctx) {
	r := c.Run
	w := newC02DropWorld()
	n := len(c02DropFamily)
	// probes: every instantiation of every family member with fills {x, bb}, plus near misses
	probeSet := map[string]bool{"/d": true, "/d/": true, "/d/bb/x/x": true, "/d/x/x/x": true}
	for _, member := range c02DropFamily {
		for _, ts := range strings.Split(member, " + ") {
			t, _, _, err := tmpl.Parse(ts)
			if err != nil {
				panic(err)
			}
			t.Instantiate([]string{"x", "bb"}, 2, func(p string, _ tmpl.Capture) { probeSet[p] = true })
		}
	}
	var probes []string
	for p := range probeSet {
		probes = append(probes, p)
	}
	sort.Strings(probes)
	var sets [][]int
	for a := 0; a < n; a++ {
		for b := a + 1; b < n; b++ {
			for d := b + 1; d < n; d++ {
				sets = append(sets, []int{a, b, d})
				if c.Thorough() {
					for e := d + 1; e < n; e++ {
						sets = append(sets, []int{a, b, d, e})
					}
				}
			}
		}
	}
	perms := func(s []int) [][]int {
		if len(s) > 3 { // 4-sets: natural, reverse, rotated
			return [][]int{s, {s[3], s[2], s[1], s[0]}, {s[1], s[3], s[0], s[2]}}
		}
		return [][]int{{s[0], s[1], s[2]}, {s[0], s[2], s[1]}, {s[1], s[0], s[2]}, {s[1], s[2], s[0]}, {s[2], s[0], s[1]}, {s[2], s[1], s[0]}}
	}
	explore.ParallelFor(len(sets), func() bool { return r.TooManyViolations() || r.Expired() }, func(_ int, si int) {
		set := sets[si]
		var evals int64
		for _, drop := range set {
			var rest []int
			for _, i := range set {
				if i != drop {
					rest = append(rest, i)
				}
			}
			// reference: the remaining templates registered from scratch
			fresh := w.newMux()
			ok := true
			for _, i := range rest {
				if err := w.register(fresh, i); err != nil {
					ok = false // a conflicting pair: not an accepted configuration
				}
			}
			if !ok {
				fresh.close()
				r.Outcome("after-drop:skipped-conflicting-set")
				continue
			}
			want := map[string]string{}
			for _, p := range probes {
				want[p] = fresh.probe(p)
			}
			fresh.close()
			for _, order := range perms(set) {
				hist := w.newMux()
				regOK := true
				for _, i := range order {
					if err := w.register(hist, i); err != nil {
						regOK = false
					}
				}
				if !regOK {
					hist.close()
					r.Outcome("after-drop:skipped-conflicting-set")
					continue
				}
				if !hist.m.DropConn(context.Background(), hist.b[drop].Conn()) {
					r.Violation(report.Violation{Oracle: "drop-returned-false", Key: fmt.Sprintf("after-drop set=%v order=%v drop=%d", set, order, drop), Case: map[string]any{"kind": "after-drop"}, Note: "DropConn of a registered connection returned false"})
				}
				bad := 0
				for _, p := range probes {
					got := hist.probe(p)
					evals++
					if got != want[p] {
						bad++
						if bad == 1 {
							var names, ord []string
							for _, i := range set {
								names = append(names, c02DropFamily[i])
							}
							for _, i := range order {
								ord = append(ord, c02DropFamily[i])
							}
							r.Outcome("FAIL:differs-after-drop")
							r.Violation(report.Violation{Oracle: "differs-after-drop", Key: fmt.Sprintf("differs-after-drop set=%v order=%v drop=%d GET %s", set, order, drop, p),
								Case: map[string]any{"kind": "after-drop", "templates": names, "registered_in_order": ord, "dropped": c02DropFamily[drop], "probe": "GET " + p},
								Note: fmt.Sprintf("GET %s: after registering %v and dropping %s -> %s ; a mux that only ever registered the remaining templates -> %s", p, ord, c02DropFamily[drop], got, want[p])})
						}
					}
				}
				if bad == 0 {
					r.Outcome("after-drop:same-as-fresh")
				}
				hist.close()
			}
		}
		r.Distinct(fmt.Sprintf("after-drop|%v", set))
		r.Eval(evals)
	})
	r.Set("after_drop", map[string]any{"template_family": c02DropFamily, "sets": len(sets), "probes_per_mux": len(probes)})
}
