package props

import (
	"context"
	"fmt"
	"google.golang.org/genproto/googleapis/api/annotations"
	"google.golang.org/genproto/googleapis/api/serviceconfig"
	"net/http"
	"regexp"
	"sort"
	"strings"
	"sync/atomic"

	"google.golang.org/grpc"
	"google.golang.org/grpc/codes"
	"google.golang.org/grpc/status"
	"google.golang.org/protobuf/encoding/protojson"
	"google.golang.org/protobuf/proto"
	"google.golang.org/protobuf/reflect/protoreflect"
	"google.golang.org/protobuf/reflect/protoregistry"
	"google.golang.org/protobuf/types/descriptorpb"
	"google.golang.org/protobuf/types/dynamicpb"

	"larking.io/larking"

	"verif/dyn"
	"verif/env"
	"verif/ref/wire"
	"verif/report"
	"verif/shim/vatomic"
	"verif/shim/vrand"
)

// C11 — dispatch follows the live registration set: explicit-state search over histories of
// RegisterService / RegisterConn / DropConn; a state is the shortest history reaching it.

func init() {
	register(&Check{ID: "C11", Level: "model_checking", NeedsSched: true, Run: runC11, Replay: replayC11})
}

// backend world: messages in vb/msgs.proto, service S1 in vb/s1.proto, S2 in vb/s2.proto.
type bWorld struct {
	msgs, f1, f2 protoreflect.FileDescriptor
	reg          *protoregistry.Files
	req, rsp     protoreflect.MessageDescriptor
	gsd1         *grpc.ServiceDesc
}

func newBWorld() *bWorld {
	w := &bWorld{}
	mf := dyn.File{Name: "vb/msgs.proto", Pkg: "vb", Messages: []*descriptorpb.DescriptorProto{
		dyn.Msg("Req", dyn.Str("s", 1), dyn.Bytes("b", 2), dyn.Int32("n", 3)),
		dyn.Msg("Rsp", dyn.Str("s", 1), dyn.Bytes("b", 2), dyn.Int32("n", 3)),
	}}
	msgs, _, err := mf.Build()
	if err != nil {
		panic(err)
	}
	w.msgs = msgs
	mk := func(name, svc, route string) protoreflect.FileDescriptor {
		f := dyn.File{Name: name, Pkg: "vb", Deps: []protoreflect.FileDescriptor{msgs}, Services: []dyn.Service{{Name: svc, Methods: []dyn.Method{
			{Name: "M1", In: "Req", Out: "Rsp", Rule: &dyn.Rule{Kind: "get", Path: route + "/{s}", Add: []dyn.Rule{{Kind: "get", Path: route + "alt/{s}"}, {Kind: "delete", Path: route + "/{s}"}}}},
			{Name: "M2", In: "Req", Out: "Rsp", Rule: &dyn.Rule{Kind: "post", Path: route, Body: "*"}},
		}}}}
		fd, reg, err := f.Build()
		if err != nil {
			panic(err)
		}
		if w.reg == nil {
			w.reg = reg
		} else {
			_ = w.reg.RegisterFile(fd)
		}
		return fd
	}
	w.f1 = mk("vb/s1.proto", "S1", "/s1")
	w.f2 = mk("vb/s2.proto", "S2", "/s2")
	w.req = msgs.Messages().ByName("Req")
	w.rsp = msgs.Messages().ByName("Rsp")
	w.gsd1 = dyn.ServiceDesc(w.f1.Services().Get(0))
	return w
}

type tagImpl struct {
	tag   string
	w     *bWorld
	calls atomic.Int64 // real sync/atomic: handlers run concurrently in the free-running -race pass
}

func (t *tagImpl) Unary(c *dyn.Call) (proto.Message, error) {
	t.calls.Add(1)
	m := dynamicpb.NewMessage(c.Desc.Output())
	m.Set(m.Descriptor().Fields().ByName("s"), protoreflect.ValueOfString(t.tag+"|"+c.Method))
	return m, nil
}
func (t *tagImpl) Stream(c *dyn.Call) error { return status.Error(codes.Unimplemented, "n/a") }

func (w *bWorld) newBackend(name string, files []protoreflect.FileDescriptor, svcs []string) *env.Backend {
	b := env.NewBackend(name, files, svcs)
	b.Unary = func(ctx context.Context, method string, req, reply proto.Message) error {
		// like a real gRPC server: a service this back-end does not list is not served by it,
		// whatever the descriptor files it hands out through reflection declare
		listed := false
		for _, sv := range b.Services() {
			if strings.HasPrefix(method, "/"+sv+"/") {
				listed = true
			}
		}
		if !listed {
			return status.Errorf(codes.Unimplemented, "unknown service %s", method)
		}
		r := reply.ProtoReflect()
		r.Set(r.Descriptor().Fields().ByName("s"), protoreflect.ValueOfString(name+"|"+method))
		return nil
	}
	return b
}

// ---- operations and the reference registry ---------------------------------------------

const (
	opRegLocal = iota
	opRegB1
	opRegB2
	opRegB3
	opDropB1
	opDropB2
	opDropB3
	opB2DropsS2 // b2 stops offering S2, then RegisterConn(b2)
	opB2AddsS2  // b2 offers S2 again, then RegisterConn(b2)
	opDropUnknown
	nOps
)

var opNames = []string{"RegisterService(local S1)", "RegisterConn(b1:S1)", "RegisterConn(b2)", "RegisterConn(b3:S2)", "DropConn(b1)", "DropConn(b2)", "DropConn(b3)", "b2 drops S2; RegisterConn(b2)", "b2 offers S2 again; RegisterConn(b2)", "DropConn(never registered)"}

// refRegistry: method service -> live owner tags; plus which conns are registered and what b2 offers.
type refRegistry struct {
	local    bool
	conn     [3]bool // b1 b2 b3 registered
	connSvcs [3][]string
	b2HasS2  bool
}

func newRefRegistry() *refRegistry { return &refRegistry{b2HasS2: true} }

func (r *refRegistry) offers(i int) []string {
	switch i {
	case 0:
		return []string{"S1"}
	case 1:
		if r.b2HasS2 {
			return []string{"S1", "S2"}
		}
		return []string{"S1"}
	}
	return []string{"S2"}
}

func (r *refRegistry) owners(svc string) []string {
	var out []string
	if r.local && svc == "S1" {
		out = append(out, "local")
	}
	for i := 0; i < 3; i++ {
		if r.conn[i] {
			for _, s := range r.connSvcs[i] {
				if s == svc {
					out = append(out, fmt.Sprintf("b%d", i+1))
				}
			}
		}
	}
	return out
}

func (r *refRegistry) key() string {
	return fmt.Sprintf("local=%v conns=%v/%v b2S2=%v", r.local, r.conn, r.connSvcs, r.b2HasS2)
}

// apply returns the expected result: "" (ok) / "true" / "false" for DropConn.
func (r *refRegistry) apply(op int) string {
	switch op {
	case opRegLocal:
		r.local = true
	case opRegB1, opRegB2, opRegB3:
		i := op - opRegB1
		r.conn[i] = true
		r.connSvcs[i] = r.offers(i)
	case opDropB1, opDropB2, opDropB3:
		i := op - opDropB1
		was := r.conn[i]
		r.conn[i] = false
		r.connSvcs[i] = nil
		return fmt.Sprint(was)
	case opB2DropsS2:
		r.b2HasS2 = false
		r.conn[1] = true
		r.connSvcs[1] = r.offers(1)
	case opB2AddsS2:
		r.b2HasS2 = true
		r.conn[1] = true
		r.connSvcs[1] = r.offers(1)
	case opDropUnknown:
		return "false"
	}
	return ""
}

// c11Sys is one fresh implementation instance.
type c11Sys struct {
	w     *bWorld
	mux   *larking.Mux
	local *tagImpl
	b     [3]*env.Backend
	never *env.Backend

	localReg bool
}

// c11Config: one service-config rule per service (GET /cfg/<svc>/{s} on M1). Rules that come
// from the configuration must follow the live registration set like annotated ones do: bound
// again when a method gets its first owner back.
func c11Config() larking.MuxOption {
	sc := &serviceconfig.Service{Http: &annotations.Http{}}
	for _, svc := range []string{"S1", "S2", "S3", "S4"} {
		sc.Http.Rules = append(sc.Http.Rules, &annotations.HttpRule{Selector: "vb." + svc + ".M1", Pattern: &annotations.HttpRule_Get{Get: "/cfg/" + strings.ToLower(svc) + "/{s}"}})
	}
	return larking.ServiceConfigOption(sc)
}

func newC11Sys(w *bWorld) *c11Sys {
	m, err := larking.NewMux(larking.FilesOption(w.reg), c11Config())
	if err != nil {
		panic(err)
	}
	s := &c11Sys{w: w, mux: m, local: &tagImpl{tag: "local", w: w}}
	s.b[0] = w.newBackend("b1", []protoreflect.FileDescriptor{w.f1}, []string{"vb.S1"})
	s.b[1] = w.newBackend("b2", []protoreflect.FileDescriptor{w.f1, w.f2}, []string{"vb.S1", "vb.S2"})
	s.b[2] = w.newBackend("b3", []protoreflect.FileDescriptor{w.f2}, []string{"vb.S2"})
	s.never = w.newBackend("never", []protoreflect.FileDescriptor{w.f2}, []string{"vb.S2"})
	return s
}

func (s *c11Sys) close() {
	for _, b := range s.b {
		b.Conn().Close()
	}
	s.never.Conn().Close()
}

// do applies op and returns its observable result ("" / "true" / "false" / "error: …" / "panic: …").
func (s *c11Sys) do(op int) string {
	var res string
	p, txt := guard(func() {
		ctx := context.Background()
		switch op {
		case opRegLocal:
			if s.localReg {
				return // registering the same local service twice is not part of the alphabet
			}
			if err := s.mux.VerifRegisterService(s.w.gsd1, dyn.NewServer(s.local)); err != nil {
				res = "error: " + err.Error()
			}
		case opRegB1, opRegB2, opRegB3:
			if err := s.mux.RegisterConn(ctx, s.b[op-opRegB1].Conn()); err != nil {
				res = "error: " + err.Error()
			}
		case opDropB1, opDropB2, opDropB3:
			res = fmt.Sprint(s.mux.DropConn(ctx, s.b[op-opDropB1].Conn()))
		case opB2DropsS2:
			s.b[1].Offer([]protoreflect.FileDescriptor{s.w.f1}, []string{"vb.S1"})
			if err := s.mux.RegisterConn(ctx, s.b[1].Conn()); err != nil {
				res = "error: " + err.Error()
			}
		case opB2AddsS2:
			s.b[1].Offer([]protoreflect.FileDescriptor{s.w.f1, s.w.f2}, []string{"vb.S1", "vb.S2"})
			if err := s.mux.RegisterConn(ctx, s.b[1].Conn()); err != nil {
				res = "error: " + err.Error()
			}
		case opDropUnknown:
			res = fmt.Sprint(s.mux.DropConn(ctx, s.never.Conn()))
		}
	})
	if p {
		return "panic: " + txt
	}
	return res
}

var ptrRe = regexp.MustCompile(`0x[0-9a-f]+`)

// fingerprint returns the implementation snapshot fingerprint with pointers canonicalised.
func (s *c11Sys) fingerprint() string {
	fp := larking.VerifFingerprint(s.mux.VerifSnapshot())
	names := map[string]string{}
	for i, b := range s.b {
		names[fmt.Sprintf("%p", b.Conn())] = fmt.Sprintf("b%d", i+1)
	}
	names[fmt.Sprintf("%p", s.never.Conn())] = "never"
	head, conns, ok := strings.Cut(fp, ";conns=")
	if ok && conns != "" {
		parts := strings.Split(conns, "|")
		for i, p := range parts {
			ptr, rest, _ := strings.Cut(p, ":")
			if n, ok := names[ptr]; ok {
				ptr = n
			}
			// drop the descriptor hash: it identifies what was offered, which the model tracks itself
			_, hs, _ := strings.Cut(rest, ":")
			parts[i] = ptr + ":" + hs
		}
		sort.Strings(parts)
		fp = head + ";conns=" + strings.Join(parts, "|")
	}
	idx := map[string]string{}
	return ptrRe.ReplaceAllStringFunc(fp, func(p string) string {
		if v, ok := idx[p]; ok {
			return v
		}
		idx[p] = fmt.Sprintf("h%d", len(idx))
		return idx[p]
	})
}

type c11Probe struct {
	name string
	svc  string
	run  func(m http.Handler) (served string, code int, panicked string)
}

func (w *bWorld) probes() []c11Probe { return w.probesFor("S1", "S2") }

func (w *bWorld) probesFor(svcs ...string) []c11Probe {
	// decode returns the owner tag that answered; the answer also names the method the owner
	// was invoked with: if that is not the method the request was for, the result is
	// "<owner> as <method>", which matches no owner.
	decode := func(body []byte, js bool, wantMethod string) string {
		m := dynamicpb.NewMessage(w.rsp)
		var err error
		if js {
			err = protojson.Unmarshal(body, m)
		} else {
			err = proto.Unmarshal(body, m)
		}
		if err != nil {
			return ""
		}
		owner, method, _ := strings.Cut(m.Get(w.rsp.Fields().ByName("s")).String(), "|")
		if method != wantMethod {
			return owner + " as " + method
		}
		return owner
	}
	reqMsg := dynamicpb.NewMessage(w.req)
	pb, _ := proto.Marshal(reqMsg)
	var out []c11Probe
	for _, svc := range svcs {
		svc := svc
		route := "/" + strings.ToLower(svc)
		out = append(out,
			c11Probe{name: "GET " + route + "/x", svc: svc, run: func(m http.Handler) (string, int, string) {
				r := serveSimple(m, "GET", route+"/x", "")
				if r.Panicked {
					return "", 0, r.Panic
				}
				if r.Code == 200 {
					return decode(r.Body, true, "/vb."+svc+"/M1"), r.Code, ""
				}
				return "", r.Code, ""
			}},
			c11Probe{name: "GET " + route + "alt/x (additional binding)", svc: svc, run: func(m http.Handler) (string, int, string) {
				r := serveSimple(m, "GET", route+"alt/x", "")
				if r.Panicked {
					return "", 0, r.Panic
				}
				if r.Code == 200 {
					return decode(r.Body, true, "/vb."+svc+"/M1"), r.Code, ""
				}
				return "", r.Code, ""
			}},
			c11Probe{name: "DELETE " + route + "/x (additional binding, other verb)", svc: svc, run: func(m http.Handler) (string, int, string) {
				r := serveSimple(m, "DELETE", route+"/x", "")
				if r.Panicked {
					return "", 0, r.Panic
				}
				if r.Code == 200 {
					return decode(r.Body, true, "/vb."+svc+"/M1"), r.Code, ""
				}
				return "", r.Code, ""
			}},
			c11Probe{name: "GET /cfg" + route + "/x (service-config rule)", svc: svc, run: func(m http.Handler) (string, int, string) {
				r := serveSimple(m, "GET", "/cfg"+route+"/x", "")
				if r.Panicked {
					return "", 0, r.Panic
				}
				if r.Code == 200 {
					return decode(r.Body, true, "/vb."+svc+"/M1"), r.Code, ""
				}
				return "", r.Code, ""
			}},
			c11Probe{name: "POST /vb." + svc + "/M2 (implicit)", svc: svc, run: func(m http.Handler) (string, int, string) {
				r := doHTTP(m, "POST", "/vb."+svc+"/M2", "", http.Header{"Content-Type": {"application/json"}}, reqBody{Data: []byte("{}"), CL: -2})
				if r.Panicked {
					return "", 0, r.Panic
				}
				if r.HTTPCode == 200 {
					return decode(r.Body, true, "/vb."+svc+"/M2"), 200, ""
				}
				return "", r.HTTPCode, ""
			}},
			c11Probe{name: "gRPC /vb." + svc + "/M1", svc: svc, run: func(m http.Handler) (string, int, string) {
				r := doGRPC(m, "/vb."+svc+"/M1", "application/grpc", nil, reqBody{Data: wire.GRPCFrame(0, pb)})
				if r.Panicked {
					return "", 0, r.Panic
				}
				if r.Status != nil && r.Status.Code == 0 && len(r.Msgs) == 1 {
					return decode(r.Msgs[0], false, "/vb."+svc+"/M1"), 200, ""
				}
				if r.Status != nil {
					return "", 1000 + r.Status.Code, ""
				}
				return "", r.HTTPCode, ""
			}},
		)
	}
	return out
}

type c11Case struct {
	History []int    `json:"history"`
	Ops     []string `json:"ops"`
}

// c11Check applies history to a fresh system, comparing with the reference after every step.
// It returns the violations found at the *last* step only (earlier steps were checked when
// their own state was visited) unless all is set.
func c11Check(w *bWorld, history []int, all bool, probes []c11Probe) (viol []report.Violation, modelKey, implKey string, picks int64) {
	sys := newC11Sys(w)
	defer sys.close()
	// every routing snapshot ever published must keep the fingerprint it was published with
	type pub struct {
		snap any
		fp   string
	}
	published := []pub{{sys.mux.VerifSnapshot(), larking.VerifFingerprint(sys.mux.VerifSnapshot())}}
	vatomic.StoreHook = func(v any) { published = append(published, pub{v, larking.VerifFingerprint(v)}) }
	defer func() { vatomic.StoreHook = nil }()
	ref := newRefRegistry()
	mk := func(oracle, note string, step int) {
		var ops []string
		for _, o := range history[:step+1] {
			ops = append(ops, opNames[o])
		}
		viol = append(viol, report.Violation{Oracle: oracle, Key: fmt.Sprintf("%s history=%v", oracle, history[:step+1]), Case: c11Case{History: append([]int(nil), history[:step+1]...), Ops: ops}, Note: note})
	}
	for step, op := range history {
		if op == opRegLocal && sys.localReg {
			continue
		}
		before := sys.fingerprint()
		want := ref.apply(op)
		got := sys.do(op)
		if op == opRegLocal {
			sys.localReg = true
		}
		last := step == len(history)-1
		if !(last || all) {
			continue
		}
		if strings.HasPrefix(got, "panic: ") {
			mk("operation-panic", fmt.Sprintf("%s: %s", opNames[op], got), step)
			return viol, ref.key(), "panicked", picks
		}
		if got != want {
			mk("operation-result", fmt.Sprintf("%s returned %q, reference says %q", opNames[op], got, want), step)
		}
		if op == opDropUnknown && sys.fingerprint() != before {
			mk("drop-unknown-changed-state", "snapshot fingerprint changed", step)
		}
		for i, p := range published {
			if now := larking.VerifFingerprint(p.snap); now != p.fp {
				mk("published-snapshot-mutated", fmt.Sprintf("snapshot #%d (published before %s) was modified in place:\n was %s\n now %s", i, opNames[op], truncS(p.fp, 500), truncS(now, 500)), step)
				break
			}
		}
		// probes × every handler pick
		for _, pr := range probes {
			owners := ref.owners(pr.svc)
			seenOwners := map[string]bool{}
			maxN := 1
			for pick := 0; pick < maxN; pick++ {
				vrand.Override = func(n int) int {
					if n > maxN {
						maxN = n
					}
					if pick < n {
						return pick
					}
					return 0
				}
				served, code, pan := pr.run(sys.mux)
				vrand.Override = nil
				picks++
				if pan != "" {
					mk("probe-panic", fmt.Sprintf("%s: %s", pr.name, pan), step)
					break
				}
				if len(owners) == 0 {
					if served != "" {
						mk("served-by-dropped-or-unregistered", fmt.Sprintf("%s answered by %q although vb.%s has no live back-end", pr.name, served, pr.svc), step)
					} else if !(code == 404 || code == 501 || code == 1000+int(codes.Unimplemented) || code == 1000+int(codes.NotFound)) {
						mk("unregistered-status", fmt.Sprintf("%s: status %d, want NotFound/Unimplemented", pr.name, code), step)
					}
					continue
				}
				if served == "" {
					mk("live-method-unserved", fmt.Sprintf("%s: status %d although vb.%s is served by %v", pr.name, code, pr.svc, owners), step)
					continue
				}
				ok := false
				for _, o := range owners {
					if o == served {
						ok = true
					}
				}
				if !ok && strings.Contains(served, " as ") {
					mk("delivered-as-another-method", fmt.Sprintf("%s was delivered to %s", pr.name, served), step)
				} else if !ok {
					mk("served-by-dropped-or-unregistered", fmt.Sprintf("%s answered by %q, live owners of vb.%s are %v", pr.name, served, pr.svc, owners), step)
				}
				seenOwners[served] = true
			}
			if len(owners) > 0 && len(viol) == 0 && len(seenOwners) == 0 {
				mk("live-method-unserved", pr.name, step)
			}
		}
	}
	// a service without a live owner leaves nothing behind in the routing state: a binding that
	// survived its method's last handler answers for a method nobody serves and stands in the
	// way of whoever registers that path next
	if len(viol) == 0 && len(history) > 0 {
		fp := sys.fingerprint()
		for _, svc := range []string{"S1", "S2"} {
			if len(ref.owners(svc)) == 0 && strings.Contains(fp, "/vb."+svc+"/") {
				mk("stale-binding-after-drop", fmt.Sprintf("vb.%s has no live owner, the routing state still names its methods: %s", svc, truncS(fp, 600)), len(history)-1)
			}
		}
	}
	return viol, ref.key(), sys.fingerprint(), picks
}

func runC11(c *Ctx) {
	r := c.Run
	maxDepth := 5
	if c.Thorough() {
		maxDepth = 8
	}
	r.Rule(fmt.Sprintf("breadth-first search over histories of {RegisterService(local S1), RegisterConn(b1:S1 | b2:S1+S2 | b3:S2), DropConn(b1|b2|b3), b2 drops S2 and re-registers, b2 offers S2 again and re-registers, DropConn(never registered)} to depth %d (or closure of the state set); a state is the shortest history reaching it, re-executed on a fresh Mux with fresh scripted back-ends; states are merged on (reference registry, canonical fingerprint of the implementation snapshot); after every transition 12 probes (HTTP rule route, two additional bindings, a service-config rule, implicit route, gRPC × 2 services) × every handler pick of rand.Intn", maxDepth))
	r.Assume("back-ends are scripted (never-dialled grpc.ClientConn whose interceptors answer reflection from descriptors and data calls from a script); validated against real grpc-go servers by the conformance pass", "RegisterService of the same local service twice is not in the alphabet")
	w := newBWorld()
	probes := w.probes()
	type node struct{ hist []int }
	seen := map[string]bool{}
	frontier := []node{{nil}}
	_, mk0, ik0, _ := c11Check(w, nil, false, probes)
	seen[mk0+"||"+ik0] = true
	var states, transitions int64 = 1, 0
	depthReached := 0
	closed := false
	for depth := 1; depth <= maxDepth && len(frontier) > 0; depth++ {
		var next []node
		for _, nd := range frontier {
			for op := 0; op < nOps; op++ {
				if r.Expired() {
					r.CapHit(fmt.Sprintf("deadline reached at depth %d", depth))
					goto done
				}
				h := append(append([]int{}, nd.hist...), op)
				viol, mk, ik, picks := c11Check(w, h, false, probes)
				transitions++
				r.Eval(picks)
				for _, v := range viol {
					r.Violation(v)
					r.Outcome("FAIL:" + v.Oracle)
				}
				if len(viol) > 0 {
					continue // do not expand beyond a violating state
				}
				r.Outcome("transition-ok:" + opNames[op])
				k := mk + "||" + ik
				if seen[k] {
					continue
				}
				seen[k] = true
				states++
				next = append(next, node{h})
				r.Distinct(k)
				if r.WantSample() && states%7 == 3 {
					var ops []string
					for _, o := range h {
						ops = append(ops, opNames[o])
					}
					r.Sample(map[string]any{"history": ops, "model_state": mk})
				}
			}
		}
		depthReached = depth
		frontier = next
		if len(frontier) == 0 {
			closed = true
		}
	}
done:
	if !closed && depthReached >= maxDepth {
		r.Set("state_set_closed", false)
	} else {
		r.Set("state_set_closed", closed)
	}
	r.Set("depth_reached", depthReached)
	r.AddStates(states)
	r.AddTransitions(transitions)
	c11SharedFile(c, w, maxDepth)
	c11Editions(c, maxDepth)
	c11Conformance(c, w)
}

// ---- second world: one descriptor file, two services, two back-ends that each serve one ----
//
// vb/s34.proto declares S3 and S4. Back-end x4 serves (lists) only S3, back-end x5 only S4;
// both hand out the whole file through reflection, as grpc-go's reflection service does. A
// request for S4 must only ever reach x5.

const (
	opRegX4 = iota
	opRegX5
	opDropX4
	opDropX5
	opX4Swaps     // x4 now serves S4 instead of S3 (same descriptor file), then RegisterConn(x4)
	opRegX5Breaks // RegisterConn(x5) whose reflection stream fails at the final CloseSend: an error, nothing changes
	nOpsX
)

var opNamesX = []string{"RegisterConn(x4: lists S3, file declares S3+S4)", "RegisterConn(x5: lists S4, same file)", "DropConn(x4)", "DropConn(x5)", "x4 serves S4 instead of S3 now (same file); RegisterConn(x4)", "RegisterConn(x5) failing at the reflection stream's CloseSend"}

func (w *bWorld) sharedFile() protoreflect.FileDescriptor {
	f := dyn.File{Name: "vb/s34.proto", Pkg: "vb", Deps: []protoreflect.FileDescriptor{w.msgs}}
	for _, svc := range []string{"S3", "S4"} {
		route := "/" + strings.ToLower(svc)
		f.Services = append(f.Services, dyn.Service{Name: svc, Methods: []dyn.Method{
			{Name: "M1", In: "Req", Out: "Rsp", Rule: &dyn.Rule{Kind: "get", Path: route + "/{s}", Add: []dyn.Rule{{Kind: "get", Path: route + "alt/{s}"}, {Kind: "delete", Path: route + "/{s}"}}}},
			{Name: "M2", In: "Req", Out: "Rsp", Rule: &dyn.Rule{Kind: "post", Path: route, Body: "*"}},
		}})
	}
	fd, _, err := f.Build()
	if err != nil {
		panic(err)
	}
	return fd
}

type c11CaseX struct {
	World   string   `json:"world"`
	History []int    `json:"history"`
	Ops     []string `json:"ops"`
}

// c11CheckX replays a history of the second world on a fresh Mux and checks the last step.
func c11CheckX(w *bWorld, f34 protoreflect.FileDescriptor, history []int, probes []c11Probe) (viol []report.Violation, key string, picks int64) {
	m, err := larking.NewMux(larking.FilesOption(w.reg), c11Config())
	if err != nil {
		panic(err)
	}
	x := [2]*env.Backend{
		w.newBackend("x4", []protoreflect.FileDescriptor{f34}, []string{"vb.S3"}),
		w.newBackend("x5", []protoreflect.FileDescriptor{f34}, []string{"vb.S4"}),
	}
	defer x[0].Conn().Close()
	defer x[1].Conn().Close()
	reg := [2]bool{}
	x4svc := "S3" // what x4 lists
	mk := func(oracle, note string) {
		var ops []string
		for _, o := range history {
			ops = append(ops, opNamesX[o])
		}
		viol = append(viol, report.Violation{Oracle: oracle, Key: fmt.Sprintf("%s shared-file history=%v", oracle, history), Case: c11CaseX{World: "shared-file", History: append([]int(nil), history...), Ops: ops}, Note: note})
	}
	for step, op := range history {
		var got, want string
		p, txt := guard(func() {
			switch op {
			case opRegX4, opRegX5:
				if err := m.RegisterConn(context.Background(), x[op-opRegX4].Conn()); err != nil {
					got = "error: " + err.Error()
				}
				reg[op-opRegX4] = true
			case opDropX4, opDropX5:
				got = fmt.Sprint(m.DropConn(context.Background(), x[op-opDropX4].Conn()))
				want = fmt.Sprint(reg[op-opDropX4])
				reg[op-opDropX4] = false
			case opRegX5Breaks:
				x[1].FailCloseSend = true
				err := m.RegisterConn(context.Background(), x[1].Conn())
				x[1].FailCloseSend = false
				got, want = "error", "error"
				if err == nil {
					got = ""
				}
			case opX4Swaps:
				x4svc = "S4"
				x[0].Offer([]protoreflect.FileDescriptor{f34}, []string{"vb.S4"})
				if err := m.RegisterConn(context.Background(), x[0].Conn()); err != nil {
					got = "error: " + err.Error()
				}
				reg[0] = true
			}
		})
		if step != len(history)-1 {
			continue
		}
		if p {
			mk("operation-panic", opNamesX[op]+": "+txt)
			return viol, "panicked", picks
		}
		if got != want {
			mk("operation-result", fmt.Sprintf("%s returned %q, reference says %q", opNamesX[op], got, want))
		}
	}
	owners := map[string][]string{}
	if reg[0] {
		owners[x4svc] = append(owners[x4svc], "x4")
	}
	if reg[1] {
		owners["S4"] = append(owners["S4"], "x5")
	}
	for _, pr := range probes {
		own := owners[pr.svc]
		maxN := 1
		for pick := 0; pick < maxN; pick++ {
			vrand.Override = func(n int) int {
				if n > maxN {
					maxN = n
				}
				if pick < n {
					return pick
				}
				return 0
			}
			before := [2]int{x[0].UnaryCalls, x[1].UnaryCalls}
			served, code, pan := pr.run(m)
			vrand.Override = nil
			picks++
			if pan != "" {
				mk("probe-panic", pr.name+": "+pan)
				break
			}
			// who was asked, whatever the answer was
			isOwner := func(name string) bool {
				for _, o := range own {
					if o == name {
						return true
					}
				}
				return false
			}
			for i, name := range []string{"x4", "x5"} {
				if x[i].UnaryCalls != before[i] && !isOwner(name) {
					mk("delivered-to-a-back-end-not-serving-it", fmt.Sprintf("%s (handler pick %d) was sent to %s, which does not list vb.%s; live back-ends of vb.%s: %v", pr.name, pick, name, pr.svc, pr.svc, own))
				}
			}
			if len(own) == 0 {
				if served != "" {
					mk("served-by-dropped-or-unregistered", fmt.Sprintf("%s answered by %q although vb.%s has no live back-end", pr.name, served, pr.svc))
				} else if !(code == 404 || code == 501 || code == 1000+int(codes.Unimplemented) || code == 1000+int(codes.NotFound)) {
					mk("unregistered-status", fmt.Sprintf("%s: status %d, want NotFound/Unimplemented", pr.name, code))
				}
				continue
			}
			if !isOwner(served) {
				mk("live-method-unserved", fmt.Sprintf("%s (handler pick %d): status %d, answered by %q although vb.%s is served by %v", pr.name, pick, code, served, pr.svc, own))
			}
		}
	}
	fp := larking.VerifFingerprint(m.VerifSnapshot())
	names := map[string]string{fmt.Sprintf("%p", x[0].Conn()): "x4", fmt.Sprintf("%p", x[1].Conn()): "x5"}
	idx := map[string]string{}
	fp = ptrRe.ReplaceAllStringFunc(fp, func(p string) string {
		if n, ok := names[p]; ok {
			return n
		}
		if v, ok := idx[p]; ok {
			return v
		}
		idx[p] = fmt.Sprintf("h%d", len(idx))
		return idx[p]
	})
	return viol, fmt.Sprintf("%v|%s||%s", reg, x4svc, fp), picks
}

// c11SharedFile: breadth-first search over the second world.
func c11SharedFile(c *Ctx, w *bWorld, maxDepth int) {
	r := c.Run
	f34 := w.sharedFile()
	probes := w.probesFor("S3", "S4")
	seen := map[string]bool{}
	_, k0, _ := c11CheckX(w, f34, nil, probes)
	seen[k0] = true
	frontier := [][]int{nil}
	var states, transitions int64 = 1, 0
	for depth := 1; depth <= maxDepth && len(frontier) > 0; depth++ {
		var next [][]int
		for _, h0 := range frontier {
			for op := 0; op < nOpsX; op++ {
				h := append(append([]int{}, h0...), op)
				viol, k, picks := c11CheckX(w, f34, h, probes)
				transitions++
				r.Eval(picks)
				for _, v := range viol {
					r.Violation(v)
					r.Outcome("FAIL:" + v.Oracle)
				}
				if len(viol) > 0 || seen[k] {
					continue
				}
				r.Outcome("shared-file transition-ok:" + opNamesX[op])
				seen[k] = true
				states++
				r.Distinct("shared-file|" + k)
				next = append(next, h)
			}
		}
		frontier = next
	}
	r.AddStates(states)
	r.AddTransitions(transitions)
	r.Set("shared_file_world", map[string]any{"states": states, "transitions": transitions, "closed": len(frontier) == 0, "what": "one descriptor file declaring S3 and S4; back-end x4 lists only S3, x5 only S4; histories over RegisterConn/DropConn of both; 12 probes x every handler pick; a request must only be sent to a back-end that lists its service"})
}

// ---- third world: two editions of one schema behind one method ----------------------------------
//
// Back-ends e1 and e2 both serve vbe.S5. Their descriptor files are wire- and JSON-compatible
// editions of each other: the same messages, fields, numbers and types, declared in another
// order (e2 also knows one more field). larking keeps the bindings of the first registrant; who
// answers a request - and after a drop, who is left - must still get every URL and body value
// in the field it was sent for.

const (
	opRegE1 = iota
	opRegE2
	opDropE1
	opDropE2
	nOpsE
)

var opNamesE = []string{"RegisterConn(e1: edition 1 of vbe.S5)", "RegisterConn(e2: edition 2, fields declared in another order)", "DropConn(e1)", "DropConn(e2)"}

func c11Edition(second bool) protoreflect.FileDescriptor {
	req := dyn.Msg("EReq", dyn.Str("s", 1), dyn.Str("t", 2), dyn.Str("u", 3))
	rsp := dyn.Msg("ERsp", dyn.Str("s", 1))
	if second {
		req = dyn.Msg("EReq", dyn.Str("extra", 9), dyn.Str("u", 3), dyn.Str("t", 2), dyn.Str("s", 1))
	}
	f := dyn.File{Name: "vbe/s5.proto", Pkg: "vbe", Messages: []*descriptorpb.DescriptorProto{req, rsp}, Services: []dyn.Service{{Name: "S5", Methods: []dyn.Method{
		{Name: "M1", In: "EReq", Out: "ERsp", Rule: &dyn.Rule{Kind: "get", Path: "/s5/{s}"}},
		{Name: "M2", In: "EReq", Out: "ERsp", Rule: &dyn.Rule{Kind: "post", Path: "/s5/{t}", Body: "*"}},
	}}}}
	fd, _, err := f.Build()
	if err != nil {
		panic(err)
	}
	return fd
}

type c11CaseE struct {
	World   string   `json:"world"`
	History []int    `json:"history"`
	Ops     []string `json:"ops"`
}

func c11CheckE(history []int) (viol []report.Violation, key string, picks int64) {
	m, err := larking.NewMux()
	if err != nil {
		panic(err)
	}
	var e [2]*env.Backend
	for i := range e {
		name := fmt.Sprintf("e%d", i+1)
		b := env.NewBackend(name, []protoreflect.FileDescriptor{c11Edition(i == 1)}, []string{"vbe.S5"})
		b.Unary = func(ctx context.Context, method string, req, reply proto.Message) error {
			in := req.ProtoReflect()
			get := func(f string) string { return in.Get(in.Descriptor().Fields().ByName(protoreflect.Name(f))).String() }
			r := reply.ProtoReflect()
			r.Set(r.Descriptor().Fields().ByName("s"), protoreflect.ValueOfString(fmt.Sprintf("%s %s s=%s t=%s u=%s", name, method, get("s"), get("t"), get("u"))))
			return nil
		}
		e[i] = b
		defer b.Conn().Close()
	}
	reg := [2]bool{}
	mk := func(oracle, note string) {
		var ops []string
		for _, o := range history {
			ops = append(ops, opNamesE[o])
		}
		viol = append(viol, report.Violation{Oracle: oracle, Key: fmt.Sprintf("%s editions history=%v", oracle, history), Case: c11CaseE{World: "editions", History: append([]int(nil), history...), Ops: ops}, Note: note})
	}
	for step, op := range history {
		var got, want string
		p, txt := guard(func() {
			switch op {
			case opRegE1, opRegE2:
				if err := m.RegisterConn(context.Background(), e[op-opRegE1].Conn()); err != nil {
					got = "error: " + err.Error()
				}
				reg[op-opRegE1] = true
			case opDropE1, opDropE2:
				got = fmt.Sprint(m.DropConn(context.Background(), e[op-opDropE1].Conn()))
				want = fmt.Sprint(reg[op-opDropE1])
				reg[op-opDropE1] = false
			}
		})
		if step != len(history)-1 {
			continue
		}
		if p {
			mk("operation-panic", opNamesE[op]+": "+txt)
			return viol, "panicked", picks
		}
		if got != want {
			mk("operation-result", fmt.Sprintf("%s returned %q, reference says %q", opNamesE[op], got, want))
		}
	}
	type probe struct {
		name, verb, path, query, body string
		method, s, t, u               string
	}
	probes := []probe{
		{"GET /s5/pv?t=qt&u=qu", "GET", "/s5/pv", "t=qt&u=qu", "", "/vbe.S5/M1", "pv", "qt", "qu"},
		{"GET /s5/pv", "GET", "/s5/pv", "", "", "/vbe.S5/M1", "pv", "", ""},
		{"POST /s5/pt {s:bs,u:bu}", "POST", "/s5/pt", "", `{"s":"bs","u":"bu"}`, "/vbe.S5/M2", "bs", "pt", "bu"},
		{"POST /vbe.S5/M1 {s:bs,t:bt,u:bu} (implicit)", "POST", "/vbe.S5/M1", "", `{"s":"bs","t":"bt","u":"bu"}`, "/vbe.S5/M1", "bs", "bt", "bu"},
	}
	live := reg[0] || reg[1]
	for _, pr := range probes {
		maxN := 1
		for pick := 0; pick < maxN; pick++ {
			vrand.Override = func(n int) int {
				if n > maxN {
					maxN = n
				}
				if pick < n {
					return pick
				}
				return 0
			}
			var hdr http.Header
			if pr.body != "" {
				hdr = http.Header{"Content-Type": {"application/json"}}
			}
			r := doHTTP(m, pr.verb, pr.path, pr.query, hdr, reqBody{Data: []byte(pr.body), CL: -2})
			vrand.Override = nil
			picks++
			if r.Panicked {
				mk("probe-panic", pr.name+": "+r.Panic)
				break
			}
			if !live {
				if r.HTTPCode == 200 {
					mk("served-by-dropped-or-unregistered", fmt.Sprintf("%s answered 200 although vbe.S5 has no live back-end", pr.name))
				}
				continue
			}
			if r.HTTPCode != 200 {
				mk("live-method-unserved", fmt.Sprintf("%s (handler pick %d): status %d although vbe.S5 is live (e1=%v e2=%v): %s", pr.name, pick, r.HTTPCode, reg[0], reg[1], truncS(string(r.Body), 120)))
				continue
			}
			msg := dynamicpb.NewMessage(c11Edition(false).Messages().ByName("ERsp"))
			if err := protojson.Unmarshal(r.Body, msg); err != nil {
				mk("reply-undecodable", pr.name+": "+err.Error())
				continue
			}
			got := msg.Get(msg.Descriptor().Fields().ByName("s")).String()
			owner, rest, _ := strings.Cut(got, " ")
			if (owner == "e1" && !reg[0]) || (owner == "e2" && !reg[1]) {
				mk("served-by-dropped-or-unregistered", fmt.Sprintf("%s answered by %s, which is not registered", pr.name, owner))
			}
			want := fmt.Sprintf("%s s=%s t=%s u=%s", pr.method, pr.s, pr.t, pr.u)
			if rest != want {
				mk("back-end-received-another-message", fmt.Sprintf("%s (handler pick %d, answered by %s): the back-end received [%s], the request says [%s]", pr.name, pick, owner, rest, want))
			}
		}
	}
	fp := larking.VerifFingerprint(m.VerifSnapshot())
	names := map[string]string{fmt.Sprintf("%p", e[0].Conn()): "e1", fmt.Sprintf("%p", e[1].Conn()): "e2"}
	idx := map[string]string{}
	fp = ptrRe.ReplaceAllStringFunc(fp, func(p string) string {
		if n, ok := names[p]; ok {
			return n
		}
		if v, ok := idx[p]; ok {
			return v
		}
		idx[p] = fmt.Sprintf("h%d", len(idx))
		return idx[p]
	})
	return viol, fmt.Sprintf("%v||%s", reg, fp), picks
}

func c11Editions(c *Ctx, maxDepth int) {
	r := c.Run
	seen := map[string]bool{}
	_, k0, _ := c11CheckE(nil)
	seen[k0] = true
	frontier := [][]int{nil}
	var states, transitions int64 = 1, 0
	for depth := 1; depth <= maxDepth && len(frontier) > 0; depth++ {
		var next [][]int
		for _, h0 := range frontier {
			for op := 0; op < nOpsE; op++ {
				h := append(append([]int{}, h0...), op)
				viol, k, picks := c11CheckE(h)
				transitions++
				r.Eval(picks)
				for _, v := range viol {
					r.Violation(v)
					r.Outcome("FAIL:" + v.Oracle)
				}
				if len(viol) > 0 || seen[k] {
					continue
				}
				r.Outcome("editions transition-ok:" + opNamesE[op])
				seen[k] = true
				states++
				r.Distinct("editions|" + k)
				next = append(next, h)
			}
		}
		frontier = next
	}
	r.AddStates(states)
	r.AddTransitions(transitions)
	r.Set("editions_world", map[string]any{"states": states, "transitions": transitions, "closed": len(frontier) == 0, "what": "two back-ends serving vbe.S5 from two wire-compatible editions of its schema (fields declared in another order, one extra field); histories over RegisterConn/DropConn of both; 4 probes (path + query, path only, path + JSON body, implicit route) x every handler pick; the answering back-end must have received every value in the field it was sent for"})
}

func replayC11(c *Ctx, v report.Violation) {
	var te c11CaseE
	if remarshal(v.Case, &te) && te.World == "editions" {
		viol, _, _ := c11CheckE(te.History)
		fmt.Printf("replay: editions history=%v -> %d violations\n", te.Ops, len(viol))
		for _, x := range viol {
			fmt.Printf("replay: %s: %s\n", x.Oracle, truncS(x.Note, 300))
			c.Run.Violation(x)
		}
		return
	}
	var tx c11CaseX
	if remarshal(v.Case, &tx) && tx.World == "shared-file" {
		w := newBWorld()
		viol, _, _ := c11CheckX(w, w.sharedFile(), tx.History, w.probesFor("S3", "S4"))
		fmt.Printf("replay: shared-file history=%v -> %d violations\n", tx.Ops, len(viol))
		for _, x := range viol {
			fmt.Printf("replay: %s: %s\n", x.Oracle, truncS(x.Note, 300))
			c.Run.Violation(x)
		}
		return
	}
	var tc c11Case
	if !remarshal(v.Case, &tc) {
		fmt.Println("replay: cannot decode case")
		return
	}
	w := newBWorld()
	viol, mk, _, _ := c11Check(w, tc.History, false, w.probes())
	fmt.Printf("replay: history=%v model=%s -> %d violations\n", tc.Ops, mk, len(viol))
	for _, x := range viol {
		fmt.Printf("replay: %s: %s\n", x.Oracle, truncS(x.Note, 300))
		c.Run.Violation(x)
	}
}

// c11Conformance is filled in by conformance.go (real grpc-go back-ends).
var c11Conformance func(c *Ctx, w *bWorld)
