package props

import (
	"context"
	"fmt"
	"net/http"
	"net/url"
	"sort"
	"strings"

	"google.golang.org/grpc/codes"
	"google.golang.org/grpc/status"
	"google.golang.org/protobuf/encoding/protojson"
	"google.golang.org/protobuf/proto"
	"google.golang.org/protobuf/reflect/protoreflect"

	"larking.io/larking"

	"verif/dyn"
	"verif/env"
	"verif/explore"
	"verif/ref/wire"
	"verif/report"
)

// C20 — server mount prefixes are transparent.

func init() {
	register(&Check{ID: "C20", Level: "exploration", Run: runC20, Replay: replayC20})
}

type c20Case struct {
	Patterns []string `json:"mux_patterns"` // nil = default
	Extra    []string `json:"extra_handler_patterns"`
	Proto    string   `json:"proto"` // get post twirp grpc web
	Path     string   `json:"path"`  // full request path on the server
	Fail     bool     `json:"handler_fails"`
}

var c20AllPatterns = []string{"/", "/api", "/api/", "/pfx/", "/twirp", "/api/v2", "/t", "/vs.T/"}

type c20Env struct {
	t    *tSchema
	mux  *larking.Mux
	impl *tImpl
	srv  map[string]http.Handler
}

func newC20Env() *c20Env {
	t, err := newTSchema()
	if err != nil {
		panic(err)
	}
	m, impl, err := t.newMux()
	if err != nil {
		panic(err)
	}
	return &c20Env{t: t, mux: m, impl: impl, srv: map[string]http.Handler{}}
}

type extraHandler struct {
	pattern string
	hits    *[]string
}

func (h extraHandler) ServeHTTP(w http.ResponseWriter, r *http.Request) {
	*h.hits = append(*h.hits, h.pattern+" <- "+r.URL.Path)
	w.Header().Set("X-Extra", h.pattern)
	w.WriteHeader(299)
	fmt.Fprintf(w, "extra %s %s", h.pattern, r.URL.Path)
}

func (e *c20Env) server(tc *c20Case, hits *[]string) (http.Handler, error) {
	var opts []larking.ServerOption
	if tc.Patterns != nil {
		opts = append(opts, larking.MuxHandleOption(tc.Patterns...))
	}
	for _, p := range tc.Extra {
		opts = append(opts, larking.HTTPHandlerOption(p, extraHandler{p, hits}))
	}
	var s *http.Server
	var err error
	if p, txt := guard(func() { s, err = larking.NewServer(e.mux, opts...) }); p {
		return nil, fmt.Errorf("panic: %s", txt)
	}
	if err != nil {
		return nil, err
	}
	return s.Handler, nil
}

// mountFor returns the prefix of the most specific mux mount covering path ("" for "/"),
// ok=false if none; extra = the extra handler pattern that wins instead, if any.
func c20Route(tc *c20Case, path string) (prefix string, ok bool, extra string) {
	pats := tc.Patterns
	if pats == nil {
		pats = []string{"/"}
	}
	best := -1
	for _, p := range pats {
		pre := strings.TrimSuffix(p, "/")
		sub := pre + "/"
		if strings.HasPrefix(path, sub) && len(sub) > best {
			best, prefix, ok = len(sub), pre, true
		}
	}
	for _, p := range tc.Extra {
		if strings.HasSuffix(p, "/") {
			if strings.HasPrefix(path, p) && len(p) > best {
				best, extra, ok = len(p), p, false
			}
		} else if path == p {
			return "", false, p
		}
	}
	return
}

func (e *c20Env) request(tc *c20Case, path string) *http.Request {
	reqMsg := e.t.newReq("q", []byte{1}, 2)
	pb, _ := proto.Marshal(reqMsg)
	js, _ := protojson.Marshal(reqMsg)
	hdr := http.Header{}
	var body []byte
	verb := "POST"
	major := 1
	switch tc.Proto {
	case "get":
		verb = "GET"
	case "post":
		hdr.Set("Content-Type", "application/json")
		body = js
	case "twirp":
		hdr.Set("Content-Type", "application/json")
		hdr.Set("Twirp-Version", "v8")
		body = js
	case "grpc":
		hdr.Set("Content-Type", "application/grpc")
		body = wire.GRPCFrame(0, pb)
		major = 2
	case "web":
		hdr.Set("Content-Type", "application/grpc-web+proto")
		body = wire.GRPCFrame(0, pb)
	}
	rd := env.NewReader(env.Script{Data: body})
	req := &http.Request{Method: verb, URL: &url.URL{Path: path}, Header: hdr, Proto: "HTTP/1.1", ProtoMajor: major, ProtoMinor: 1, Host: "verif.test",
		Body: rd, ContentLength: int64(len(body)), RemoteAddr: "192.0.2.1:1", RequestURI: path}
	if major == 2 {
		req.Proto, req.ProtoMinor, req.ContentLength = "HTTP/2.0", 0, -1
	}
	return req
}

func c20Obs(sr serveResult) string {
	var hk []string
	for k, vs := range sr.Header {
		if k == "Date" {
			continue
		}
		hk = append(hk, fmt.Sprintf("%s=%q", k, vs))
	}
	sort.Strings(hk)
	var tk []string
	for k, vs := range sr.Rec.Trailers() {
		tk = append(tk, fmt.Sprintf("%s=%q", k, vs))
	}
	sort.Strings(tk)
	return fmt.Sprintf("status=%d headers=[%s] trailers=[%s] body=%x", sr.Code, strings.Join(hk, ";"), strings.Join(tk, ";"), sr.Body)
}

func (e *c20Env) exec(tc *c20Case) (oracle, note string) {
	var hits []string
	h, err := e.server(tc, &hits)
	if err != nil {
		return "", "rejected-by-servemux" // duplicate / conflicting patterns: not an accepted configuration
	}
	hs := hScript{RecvN: -1, Replies: []proto.Message{e.t.newRsp("", []byte{9, 9}, 0)}}
	if tc.Fail {
		hs.Err = status.Error(codes.NotFound, "nope")
	}
	prefix, mounted, extra := c20Route(tc, tc.Path)
	e.impl.reset(hs)
	got := serveReq(h, e.request(tc, tc.Path))
	if got.Panicked {
		return "panic", got.Panic
	}
	gotCalls := e.impl.log.Calls
	switch {
	case extra != "":
		if len(hits) != 1 || !strings.HasPrefix(hits[0], extra+" <- ") || got.Code != 299 {
			return "extra-handler-missed", fmt.Sprintf("%s should be served by the handler on %q: hits=%v status=%d", tc.Path, extra, hits, got.Code)
		}
		if gotCalls != 0 {
			return "extra-handler-missed", "the mux served a path that belongs to an extra handler"
		}
		return "", "extra"
	case !mounted:
		if gotCalls != 0 {
			return "served-outside-prefix", fmt.Sprintf("%s is outside every mount %v but reached %s", tc.Path, tc.Patterns, e.impl.log.Method)
		}
		if len(hits) != 0 {
			return "extra-handler-overreach", fmt.Sprintf("%v", hits)
		}
		if got.Code != 404 {
			return "outside-prefix-status", fmt.Sprintf("%s -> HTTP %d", tc.Path, got.Code)
		}
		return "", "outside"
	}
	if len(hits) != 0 {
		return "extra-handler-overreach", fmt.Sprintf("%s: %v", tc.Path, hits)
	}
	inner := strings.TrimPrefix(tc.Path, prefix)
	e.impl.reset(hs)
	want := serveReq(e.mux, e.request(tc, inner))
	if want.Panicked {
		return "panic-bare", want.Panic
	}
	if gotCalls != e.impl.log.Calls {
		return "mount-differs", fmt.Sprintf("%s on the server invoked the handler %d times, %s on the bare mux %d times", tc.Path, gotCalls, inner, e.impl.log.Calls)
	}
	if a, b := c20Obs(got), c20Obs(want); a != b {
		return "mount-differs", fmt.Sprintf("%s via server: %s ; %s via bare mux: %s", tc.Path, truncS(a, 300), inner, truncS(b, 300))
	}
	if gotCalls == 1 {
		return "", "same-served"
	}
	return "", "same-unserved"
}

// c20AfterNewServer: the server is built first; services are registered on the mux (and a
// connection is dropped) afterwards. The mounts are views of the live mux: what the bare mux
// serves now is what every prefix serves now.
func c20AfterNewServer(c *Ctx) {
	r := c.Run
	t, err := newTSchema()
	if err != nil {
		panic(err)
	}
	bw := newBWorld()
	for _, pats := range [][]string{{"/", "/api"}, {"/api/", "/twirp"}, {"/api/v2", "/"}, {"/pfx/"}} {
		m, err := larking.NewMux(t.opts...)
		if err != nil {
			panic(err)
		}
		srv, err := larking.NewServer(m, larking.MuxHandleOption(pats...))
		if err != nil {
			panic(err)
		}
		h := srv.Handler
		impl := &tImpl{t: t}
		be := bw.newBackend("b1", []protoreflect.FileDescriptor{bw.f1}, []string{"vb.S1"})
		steps := []struct {
			name string
			do   func() error
		}{
			{"nothing registered yet", func() error { return nil }},
			{"RegisterService(vs.T) after NewServer", func() error { return m.VerifRegisterService(t.gsd, dyn.NewServer(impl)) }},
			{"RegisterConn(b1:S1) after NewServer", func() error { return m.RegisterConn(context.Background(), be.Conn()) }},
			{"DropConn(b1) after NewServer", func() error {
				if !m.DropConn(context.Background(), be.Conn()) {
					return fmt.Errorf("DropConn returned false")
				}
				return nil
			}},
		}
		for _, st := range steps {
			if err := st.do(); err != nil {
				r.Violation(report.Violation{Oracle: "harness", Key: "after-newserver " + st.name, Case: map[string]any{"patterns": pats}, Note: err.Error()})
				break
			}
			for _, pat := range pats {
				prefix := strings.TrimSuffix(pat, "/")
				for _, pr := range []struct{ verb, path, ct, body string }{
					{"GET", "/t/unary/x", "", ""},
					{"POST", "/vs.T/Unary", "application/json", "{}"},
					{"GET", "/s1/x", "", ""},
					{"POST", "/vb.S1/M2", "application/json", "{}"},
					{"POST", "/vs.T/Unary", "application/grpc-web+proto", "\x00\x00\x00\x00\x00"},
				} {
					mk := func(path string) *http.Request {
						hdr := http.Header{}
						if pr.ct != "" {
							hdr.Set("Content-Type", pr.ct)
						}
						rd := env.NewReader(env.Script{Data: []byte(pr.body)})
						return &http.Request{Method: pr.verb, URL: &url.URL{Path: path}, Header: hdr, Proto: "HTTP/1.1", ProtoMajor: 1, ProtoMinor: 1, Host: "verif.test",
							Body: rd, ContentLength: int64(len(pr.body)), RemoteAddr: "192.0.2.1:1", RequestURI: path}
					}
					impl.reset(hScript{RecvN: -1, Replies: []proto.Message{t.newRsp("", []byte{7}, 0)}})
					got := serveReq(h, mk(prefix+pr.path))
					gotCalls := impl.log.Calls
					impl.reset(hScript{RecvN: -1, Replies: []proto.Message{t.newRsp("", []byte{7}, 0)}})
					want := serveReq(m, mk(pr.path))
					r.Eval(1)
					key := fmt.Sprintf("after-newserver patterns=%v step=%q %s %s%s", pats, st.name, pr.verb, prefix, pr.path)
					cs := map[string]any{"kind": "after-newserver", "patterns": pats, "step": st.name, "request": pr.verb + " " + prefix + pr.path}
					switch {
					case got.Panicked || want.Panicked:
						r.Violation(report.Violation{Oracle: "panic", Key: "panic " + key, Case: cs, Note: got.Panic + want.Panic})
					case gotCalls != impl.log.Calls || c20Obs(got) != c20Obs(want):
						r.Outcome("FAIL:mount-differs")
						r.Violation(report.Violation{Oracle: "mount-differs", Key: "mount-differs " + key, Case: cs,
							Note: fmt.Sprintf("after %s: via the server %s ; the bare mux answers %s%s with %s", st.name, truncS(c20Obs(got), 200), "", pr.path, truncS(c20Obs(want), 200))})
					default:
						r.Outcome("after-newserver:same")
					}
				}
			}
		}
		be.Conn().Close()
		r.Distinct(fmt.Sprintf("after-newserver|%v", pats))
	}
}

func c20PatternSets(maxLen int) [][]string {
	out := [][]string{nil}
	n := len(c20AllPatterns)
	for mask := 1; mask < 1<<n; mask++ {
		var s []string
		for i := 0; i < n; i++ {
			if mask&(1<<i) != 0 {
				s = append(s, c20AllPatterns[i])
			}
		}
		if len(s) <= maxLen {
			out = append(out, s)
		}
	}
	return out
}

// c20LargeBodies: request bodies that are larger than the mux's per-message receive limit in
// total, while every message in them is within it (a stream of many messages), and bodies of
// several megabytes under the default limit: a mount serves them exactly like the bare mux.
func c20LargeBodies(c *Ctx) {
	r := c.Run
	t, err := newTSchema()
	if err != nil {
		panic(err)
	}
	type world struct {
		name  string
		limit int
		sizes []int
	}
	var many []int
	for i := 0; i < 40; i++ {
		many = append(many, 30+i%20) // JSON form included, every message stays under 100 bytes
	}
	worlds := []world{
		{"limit-100", 100, many}, // 40 messages of 30..49 bytes: 1.6 kB in all
		{"default-limit", 0, []int{1 << 20, 1 << 20, 1 << 20, 1 << 20, 1 << 20, 70000}}, // 5 MiB in all, each message 1 MiB
	}
	for _, w := range worlds {
		var mopts []larking.MuxOption
		if w.limit > 0 {
			mopts = append(mopts, larking.MaxReceiveMessageSizeOption(w.limit))
		}
		m, impl, err := t.newMux(mopts...)
		if err != nil {
			panic(err)
		}
		srv, err := larking.NewServer(m, larking.MuxHandleOption("/", "/api/", "/pfx"))
		if err != nil {
			panic(err)
		}
		var frames, jsons []byte
		for i, sz := range w.sizes {
			msg := t.newReq("", c06Payload(i, sz-8), 0)
			pb, _ := proto.Marshal(msg)
			js, _ := protojson.Marshal(msg)
			frames = append(frames, wire.GRPCFrame(0, pb)...)
			jsons = append(jsons, js...)
		}
		for _, pr := range []string{"grpc", "web", "http-json"} {
			for _, pre := range []string{"", "/api", "/pfx"} {
				mk := func(path string) *http.Request {
					hdr := http.Header{}
					body, major := frames, 1
					switch pr {
					case "grpc":
						hdr.Set("Content-Type", "application/grpc")
						major = 2
					case "web":
						hdr.Set("Content-Type", "application/grpc-web+proto")
					default:
						hdr.Set("Content-Type", "application/json")
						body = jsons
					}
					req := &http.Request{Method: "POST", URL: &url.URL{Path: path}, Header: hdr, Proto: "HTTP/1.1", ProtoMajor: major, ProtoMinor: 1, Host: "verif.test",
						Body: env.NewReader(env.Script{Data: body, MaxRead: 32768}), ContentLength: -1, RemoteAddr: "192.0.2.1:1", RequestURI: path}
					if major == 2 {
						req.Proto, req.ProtoMinor = "HTTP/2.0", 0
					}
					return req
				}
				inner := "/vs.T/CS"
				if pr == "http-json" {
					inner = "/t/cs"
				}
				hs := hScript{RecvN: -1, Replies: []proto.Message{t.newRsp("done", nil, 0)}}
				impl.reset(hs)
				got := serveReq(srv.Handler, mk(pre+inner))
				gotRecv, gotErr := len(impl.log.Recv), impl.log.RecvErr
				impl.reset(hs)
				want := serveReq(m, mk(inner))
				r.Eval(2)
				key := fmt.Sprintf("large-body %s proto=%s prefix=%q", w.name, pr, pre)
				cs := map[string]any{"kind": "large-body", "world": w.name, "proto": pr, "prefix": pre, "messages": len(w.sizes)}
				switch {
				case got.Panicked || want.Panicked:
					r.Violation(report.Violation{Oracle: "panic", Key: key, Case: cs, Note: got.Panic + want.Panic})
				case len(impl.log.Recv) != len(w.sizes):
					// the bare mux itself must deliver the whole stream (C06/C08 own that; here it guards the harness)
					r.Violation(report.Violation{Oracle: "large-body-bare-mux", Key: key, Case: cs, Note: fmt.Sprintf("the bare mux delivered %d of %d messages: %v", len(impl.log.Recv), len(w.sizes), impl.log.RecvErr)})
				case gotRecv != len(impl.log.Recv) || fmt.Sprint(gotErr) != fmt.Sprint(impl.log.RecvErr) || c20Obs(got) != c20Obs(want):
					r.Outcome("FAIL:mount-differs")
					r.Violation(report.Violation{Oracle: "mount-differs", Key: key, Case: cs, Note: fmt.Sprintf("under %q the handler received %d messages (then %v), on the bare mux %d (then %v); via server: %s ; bare: %s", pre, gotRecv, gotErr, len(impl.log.Recv), impl.log.RecvErr, truncS(c20Obs(got), 200), truncS(c20Obs(want), 200))})
				default:
					r.Outcome("large-body-same")
					r.Distinct(key)
				}
			}
		}
	}
}

func c20Cases(thorough bool) []c20Case {
	var out []c20Case
	inner := []string{"/t/unary", "/t/unary/x", "/vs.T/Unary", "/nope", "/t/unary/", "/t/unary/x/", "/vs.T/Nope", "/"}
	prefixes := []string{"", "/api", "/pfx", "/twirp", "/api/v2", "/other", "/apix", "/API", "/t", "/vs.T"}
	extras := [][]string{nil, {"/extra"}, {"/api/extra/"}, {"/extra", "/pfx/sub/"}}
	maxLen := 3
	if thorough {
		maxLen = 5
		extras = append(extras, []string{"/t/"}, []string{"/api"}, []string{"/vs.T/Unary"}, []string{"/api/v2/extra/", "/extra"})
	}
	for _, ps := range c20PatternSets(maxLen) {
		for _, ex := range extras {
			if ex != nil && len(ps) > 2 && !thorough {
				continue
			}
			for _, pre := range prefixes {
				ins := inner
				if pre != "" {
					// inner paths in which the text of the prefix occurs again: the mount must
					// strip the leading occurrence only
					ins = append(append([]string{}, inner...), pre+"/t/unary", pre+"/vs.T/Unary", "/t/unary"+pre, "/t"+pre+"/unary", pre+pre+"/t/unary")
				}
				for _, in := range ins {
					for _, pr := range []string{"get", "post", "twirp", "grpc", "web"} {
						if (pr == "grpc" || pr == "web" || pr == "twirp") && !strings.Contains(in, "/vs.T/") && in != "/nope" {
							continue
						}
						p := pre + in
						if strings.Contains(p, "//") {
							continue
						}
						out = append(out, c20Case{Patterns: ps, Extra: ex, Proto: pr, Path: p})
						if in == "/vs.T/Unary" || in == "/t/unary" {
							out = append(out, c20Case{Patterns: ps, Extra: ex, Proto: pr, Path: p, Fail: true})
						}
					}
				}
			}
			for _, p := range []string{"/extra", "/extra/", "/extra/x", "/api/extra/", "/api/extra/y", "/pfx/sub/z", "/api/extrax"} {
				if ex == nil {
					continue
				}
				out = append(out, c20Case{Patterns: ps, Extra: ex, Proto: "get", Path: p})
			}
		}
	}
	return out
}

func runC20(c *Ctx) {
	r := c.Run
	r.Rule("every set of <= 3 (thorough: <= 5) mount patterns from {/, /api, /api/, /pfx/, /twirp, /api/v2, /t, /vs.T/} (plus the default; the last two coincide with the first segment of the mux's own routes) that http.ServeMux accepts × extra handlers {none, /extra, /api/extra/, /extra + /pfx/sub/} × request prefix {none, each mount, /other, /apix, /API} × inner path {rule route, rule route with variable, implicit route, unmatched, trailing slash variants, unknown method, /, and paths in which the prefix text occurs again: prefix+route, route+prefix, prefix inside the route, doubled prefix} × protocol {GET, POST json, Twirp, gRPC, gRPC-web} × handler {ok, NotFound}; the response through NewServer's handler is compared with the bare mux on the stripped path; plus histories in which services are registered (RegisterService, RegisterConn) and a connection is dropped AFTER NewServer, each step compared under every mount; plus request bodies larger in total than the per-message receive limit (40 messages under a 100-byte limit; 5 × 1 MiB under the default limit) as gRPC / gRPC-web / HTTP JSON client streams under each prefix; distinct = all case parameters")
	r.Assume("unclean paths ('//', '.', '..') and the bare prefix without a trailing slash are redirected by http.ServeMux and not demanded", "pattern sets that http.ServeMux rejects (both /api and /api/) are skipped")
	cases := c20Cases(c.Thorough())
	envs := make([]*c20Env, explore.Workers)
	explore.ParallelFor(len(cases), func() bool { return r.TooManyViolations() }, func(w, i int) {
		if envs[w] == nil {
			envs[w] = newC20Env()
		}
		tc := &cases[i]
		// skip the redirect cases: path equals a mount prefix without slash
		for _, p := range append(append([]string{}, tc.Patterns...), tc.Extra...) {
			if strings.TrimSuffix(p, "/") == tc.Path && tc.Path != "" && p != tc.Path {
				return
			}
			if strings.HasSuffix(p, "/") == false && p != "/" && tc.Path == p && !contains(tc.Extra, p) {
				return
			}
		}
		oracle, note := envs[w].exec(tc)
		if note == "rejected-by-servemux" {
			r.Outcome("skipped-rejected-pattern-set")
			return
		}
		r.Eval(1)
		if oracle != "" {
			r.Outcome("FAIL:" + oracle)
			r.Violation(report.Violation{Oracle: oracle, Key: fmt.Sprintf("%s patterns=%v extra=%v proto=%s path=%s fail=%v", oracle, tc.Patterns, tc.Extra, tc.Proto, tc.Path, tc.Fail), Case: *tc, Note: note})
			return
		}
		r.Outcome(note + ":" + tc.Proto)
		r.Distinct(fmt.Sprintf("%v|%v|%s|%s|%v", tc.Patterns, tc.Extra, tc.Proto, tc.Path, tc.Fail))
		if r.WantSample() && i%4001 == 3 {
			r.Sample(*tc)
		}
	})
	c20AfterNewServer(c)
	c20LargeBodies(c)
}

func contains(ss []string, s string) bool {
	for _, x := range ss {
		if x == s {
			return true
		}
	}
	return false
}

func replayC20(c *Ctx, v report.Violation) {
	if strings.Contains(v.Key, "after-newserver") {
		sub := *c
		sub.Run = report.NewRun("C20", "quick", 0, "exploration")
		c20AfterNewServer(&sub)
		fmt.Printf("replay: after-newserver family re-run -> %d violations\n", sub.Run.NumViolations())
		if sub.Run.NumViolations() > 0 {
			c.Run.Violation(report.Violation{Oracle: v.Oracle, Key: v.Key, Case: v.Case, Note: "still violated"})
		}
		return
	}
	var tc c20Case
	if !remarshal(v.Case, &tc) {
		fmt.Println("replay: cannot decode case")
		return
	}
	oracle, note := newC20Env().exec(&tc)
	fmt.Printf("replay: %+v -> oracle=%q %s\n", tc, oracle, note)
	if oracle != "" {
		c.Run.Violation(report.Violation{Oracle: oracle, Key: v.Key, Case: tc, Note: note})
	}
}
