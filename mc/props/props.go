// Package props holds one checker per property (c01.go … c20.go) plus shared drivers.
package props

import (
	"encoding/hex"
	"encoding/json"
	"fmt"
	"runtime/debug"
	"sort"
	"strings"

	"verif/report"
)

// Ctx is what a property check gets.
type Ctx struct {
	Run      *report.Run
	Tier     string // quick | thorough
	Seed     int64
	Sched    bool   // binary was built with the scheduler overlay
	ReplayOf string // non-empty: replay this file instead of exploring
	Shard    int    // worker mode: this process explores scenario shard Shard of Shards
	Shards   int
}

func (c *Ctx) Thorough() bool { return c.Tier == "thorough" }

// Check is a registered property checker.
type Check struct {
	ID         string
	Level      string
	NeedsSched bool
	Run        func(c *Ctx)
	Replay     func(c *Ctx, v report.Violation) // optional
}

var registry = map[string]*Check{}

func register(c *Check) { registry[c.ID] = c }

func Lookup(id string) *Check { return registry[id] }

func IDs() []string {
	var ids []string
	for k := range registry {
		ids = append(ids, k)
	}
	sort.Strings(ids)
	return ids
}

// guard runs fn and converts a panic into (panicked=true, text).
func guard(fn func()) (panicked bool, text string) {
	defer func() {
		if r := recover(); r != nil {
			panicked = true
			text = fmt.Sprintf("%v\n%s", r, trimStack(string(debug.Stack())))
		}
	}()
	fn()
	return false, ""
}

func trimStack(s string) string {
	lines := strings.Split(s, "\n")
	var keep []string
	for _, l := range lines {
		if strings.Contains(l, "larking") || strings.Contains(l, "panic") {
			keep = append(keep, strings.TrimSpace(l))
		}
		if len(keep) > 14 {
			break
		}
	}
	return strings.Join(keep, "\n")
}

func hexs(b []byte) string { return fmt.Sprintf("%x", b) }

func remarshal(in any, out any) bool {
	b, err := json.Marshal(in)
	if err != nil {
		return false
	}
	return json.Unmarshal(b, out) == nil
}

func unhex(s string) []byte {
	b, err := hex.DecodeString(s)
	if err != nil {
		panic(err)
	}
	return b
}
