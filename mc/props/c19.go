package props

import (
	"context"
	"fmt"
	"net/http"
	"net/url"
	"strings"

	"google.golang.org/genproto/googleapis/api/annotations"
	"google.golang.org/genproto/googleapis/api/serviceconfig"
	"google.golang.org/grpc"
	"google.golang.org/grpc/codes"
	healthgrpc "google.golang.org/grpc/health"
	healthpb "google.golang.org/grpc/health/grpc_health_v1"
	"google.golang.org/grpc/status"
	"google.golang.org/protobuf/encoding/protojson"
	"google.golang.org/protobuf/proto"
	"google.golang.org/protobuf/reflect/protoreflect"
	"google.golang.org/protobuf/reflect/protoregistry"

	"larking.io/health"
	"larking.io/larking"

	"verif/dyn"
	"verif/env"
	"verif/explore"
	tmpl "verif/ref/template"
	"verif/report"
)

// C19 — service-config rules bind exactly the selected methods; healthz.

func init() {
	register(&Check{ID: "C19", Level: "exploration", Run: runC19, Replay: replayC19})
}

type c19Case struct {
	Kind      string   `json:"kind"` // selectors | equivalence | healthz
	Service   string   `json:"service,omitempty"`
	Selectors []string `json:"selectors,omitempty"`
	Rule      *c01Rule `json:"rule,omitempty"`
	Body      string   `json:"body,omitempty"`
	HealthSvc string   `json:"health_service,omitempty"`
	Status    int32    `json:"serving_status,omitempty"`
	WS        bool     `json:"websocket,omitempty"`
	Pre       int      `json:"own_health_rules,omitempty"` // 0 none, 1 the owner's alias rules before AddHealthz, 2 after it, 3 a Check rule with an additional binding before it
}

type c19Svc struct {
	full    string // pkg.Service
	methods []string
	gsd     *grpc.ServiceDesc
	reg     *protoregistry.Files
}

// c19Services: packages a, a.b, ab with services S{M}, Sx{M}; plus a.D{M,Mx}.
func c19Services() []c19Svc {
	var out []c19Svc
	for _, pkg := range []string{"a", "a.b", "ab"} {
		svcs := []dyn.Service{{Name: "S", Methods: []dyn.Method{{Name: "M", In: "Req", Out: "Rsp"}}}, {Name: "Sx", Methods: []dyn.Method{{Name: "M", In: "Req", Out: "Rsp"}}}}
		if pkg == "a" {
			svcs = append(svcs, dyn.Service{Name: "D", Methods: []dyn.Method{{Name: "M", In: "Req", Out: "Rsp"}, {Name: "Mx", In: "Req", Out: "Rsp"}}})
		}
		f := dyn.File{Name: strings.ReplaceAll(pkg, ".", "_") + "/c19.proto", Pkg: pkg, Messages: routeMessages(pkg), Services: svcs}
		fd, reg, err := f.Build()
		if err != nil {
			panic(err)
		}
		for i := 0; i < fd.Services().Len(); i++ {
			sd := fd.Services().Get(i)
			s := c19Svc{full: string(sd.FullName()), gsd: dyn.ServiceDesc(sd), reg: reg}
			for j := 0; j < sd.Methods().Len(); j++ {
				s.methods = append(s.methods, string(sd.Methods().Get(j).Name()))
			}
			out = append(out, s)
		}
	}
	return out
}

// refSelects: the documented selector semantics.
func refSelects(selector, fullMethod string) bool {
	if selector == fullMethod || selector == "*" {
		return true
	}
	if strings.HasSuffix(selector, ".*") {
		return strings.HasPrefix(fullMethod, strings.TrimSuffix(selector, "*")) // "pkg." prefix: one or more components follow
	}
	return false
}

func c19Selectors() []string {
	names := []string{"a", "a.S", "a.S.M", "a.Sx", "a.Sx.M", "a.b", "a.b.S", "a.b.S.M", "a.b.Sx", "ab", "ab.S", "ab.S.M", "a.D", "a.D.M", "a.D.Mx", "b", "b.S.M", "S", "S.M", "M"}
	var out []string
	for _, n := range names {
		out = append(out, n, n+".*")
	}
	out = append(out, "*", "zz", "zz.*", "a.S.m", "A.S.M", "a.S.Mx", "a.S.M.x", "a.b.S.Mx.*")
	// malformed: a wildcard that is not the last component. Never bound; NewMux may refuse the
	// configuration with an error, it must not panic.
	return append(out, "a.*.M", "*.M", "a.S.*.x", "*.*", "a.b.*.M")
}

// c19Malformed: a selector with a '*' that is not its whole last component.
func c19Malformed(sel string) bool {
	if !strings.Contains(sel, "*") || sel == "*" {
		return false
	}
	return !(strings.HasSuffix(sel, ".*") && strings.Count(sel, "*") == 1)
}

type c19Env struct {
	svcs []c19Svc
}

func (e *c19Env) execSelectors(tc *c19Case) (oracle, note string) {
	var svc *c19Svc
	for i := range e.svcs {
		if e.svcs[i].full == tc.Service {
			svc = &e.svcs[i]
		}
	}
	sc := &serviceconfig.Service{Http: &annotations.Http{}}
	for i, sel := range tc.Selectors {
		sc.Http.Rules = append(sc.Http.Rules, &annotations.HttpRule{Selector: sel, Pattern: &annotations.HttpRule_Get{Get: fmt.Sprintf("/p%d/{s}", i)}})
	}
	// reference: which (selector, method) pairs are bound
	bound := map[[2]int]bool{}
	for i, sel := range tc.Selectors {
		n := 0
		for j, m := range svc.methods {
			if refSelects(sel, svc.full+"."+m) {
				bound[[2]int{i, j}] = true
				n++
			}
		}
		if n > 1 {
			return "", "skip-conflict" // one path on two methods: a conflict by construction
		}
	}
	var m *larking.Mux
	var err error
	if p, txt := guard(func() { m, err = larking.NewMux(larking.FilesOption(svc.reg), larking.ServiceConfigOption(sc)) }); p {
		return "panic", txt
	}
	if err != nil {
		for _, sel := range tc.Selectors {
			if c19Malformed(sel) {
				return "", "malformed-selector-refused"
			}
		}
		return "newmux-error", err.Error()
	}
	impl := &recImpl{}
	var rerr error
	if p, txt := guard(func() { rerr = m.VerifRegisterService(svc.gsd, dyn.NewServer(impl)) }); p {
		return "panic", txt
	}
	if rerr != nil {
		return "registration-refused", fmt.Sprintf("selectors %v on %s: %v", tc.Selectors, svc.full, rerr)
	}
	for i := range tc.Selectors {
		impl.reset()
		sr := serveSimple(m, "GET", fmt.Sprintf("/p%d/x", i), "")
		if sr.Panicked {
			return "panic", sr.Panic
		}
		gotJ := -1
		if impl.n == 1 {
			for j, mm := range svc.methods {
				if impl.method == "/"+svc.full+"/"+mm {
					gotJ = j
				}
			}
		}
		wantJ := -1
		for j := range svc.methods {
			if bound[[2]int{i, j}] {
				wantJ = j
			}
		}
		if gotJ != wantJ {
			w, g := "nothing", "nothing"
			if wantJ >= 0 {
				w = svc.full + "." + svc.methods[wantJ]
			}
			if gotJ >= 0 {
				g = svc.full + "." + svc.methods[gotJ]
			}
			o := "selector-overbinds"
			if wantJ >= 0 {
				o = "selector-underbinds"
			}
			return o, fmt.Sprintf("selector %q: documented semantics bind %s, larking bound %s (status %d)", tc.Selectors[i], w, g, sr.Code)
		}
	}
	// implicit routes stay
	for _, mm := range svc.methods {
		impl.reset()
		serveSimple(m, "POST", "/"+svc.full+"/"+mm, "")
		if impl.n != 1 {
			return "implicit-route-lost", mm
		}
	}
	// the configuration belongs to the mux it was given to: another mux of the same process,
	// built afterwards without it, binds none of these rules
	var m2 *larking.Mux
	if p, txt := guard(func() { m2, err = larking.NewMux(larking.FilesOption(svc.reg)) }); p {
		return "panic", txt
	}
	if err != nil {
		return "newmux-error", "second mux without configuration: " + err.Error()
	}
	impl2 := &recImpl{}
	if p, txt := guard(func() { rerr = m2.VerifRegisterService(svc.gsd, dyn.NewServer(impl2)) }); p {
		return "panic", txt
	}
	if rerr != nil {
		return "registration-refused", "second mux without configuration: " + rerr.Error()
	}
	for i := range tc.Selectors {
		impl2.reset()
		sr := serveSimple(m2, "GET", fmt.Sprintf("/p%d/x", i), "")
		if sr.Panicked {
			return "panic", sr.Panic
		}
		if impl2.n != 0 {
			return "config-leaks-into-another-mux", fmt.Sprintf("selector %q was given to one mux; a second mux built without any service config serves /p%d/x (%s)", tc.Selectors[i], i, impl2.method)
		}
	}
	return "", "ok"
}

// execEquivalence: the same rule as service config and as annotation behaves identically.
func (e *c19Env) execEquivalence(tc *c19Case) (oracle, note string) {
	rule := dyn.Rule{Kind: tc.Rule.Kind, Path: tc.Rule.Path, Body: tc.Body}
	t, _, _, err := tmpl.Parse(tc.Rule.Path)
	if err != nil {
		return "harness", err.Error()
	}
	scSchema, err := newRouteSchema("vt", "S", 2, nil)
	if err != nil {
		return "harness", err.Error()
	}
	anSchema, err := newRouteSchema("vt", "S", 2, map[int]*dyn.Rule{0: &rule})
	if err != nil {
		return "harness", err.Error()
	}
	m1, i1, err1 := scSchema.newMux([]boundRule{{M: 0, Rule: rule, T: t}}, nil)
	m2, i2, err2 := anSchema.newMux(nil, nil)
	if (err1 == nil) != (err2 == nil) {
		return "registration-differs", fmt.Sprintf("service config: %v ; annotation: %v", err1, err2)
	}
	if err1 != nil {
		return "", "both-rejected"
	}
	probes := probesFor([]tmpl.T{t, implicitTemplate(scSchema.methods[0])}, []string{"x", "a", "7"}, 2, true)
	verb := strings.ToUpper(tc.Rule.Kind)
	if verb == "*" {
		verb = "PATCH"
	}
	bodies := [][]byte{nil}
	if tc.Body != "" {
		bodies = append(bodies, []byte(`{"u":"from-body","n":{"s":"nb"}}`), []byte(`{"s":"ns","i":"5"}`))
	}
	for _, p := range probes {
		for _, vb := range []string{verb, "GET"} {
			for _, b := range bodies {
				run := func(m *larking.Mux, impl *recImpl) string {
					impl.reset()
					hdr := http.Header{}
					rb := reqBody{CL: 0}
					if b != nil {
						hdr.Set("Content-Type", "application/json")
						rb = reqBody{Data: b, CL: -2}
					}
					res := doHTTP(m, vb, p, "u=q", hdr, rb)
					if res.Panicked {
						return "panic: " + res.Panic
					}
					return fmt.Sprintf("status=%d n=%d method=%s msg={%v} body=%s", res.HTTPCode, impl.n, impl.method, impl.req, res.Body)
				}
				o1, o2 := run(m1, i1), run(m2, i2)
				if o1 != o2 {
					return "annotation-vs-serviceconfig", fmt.Sprintf("%s %s body=%s: service config -> %s ; annotation -> %s", vb, p, b, truncS(o1, 200), truncS(o2, 200))
				}
			}
		}
	}
	return "", "same"
}

func (e *c19Env) execHealthz(tc *c19Case) (oracle, note string) {
	hs := healthgrpc.NewServer()
	if tc.Status >= 0 {
		hs.SetServingStatus(tc.HealthSvc, healthpb.HealthCheckResponse_ServingStatus(tc.Status))
	}
	// AddHealthz was called before on ANOTHER config, whose owner then edited the rules in its own
	// message (and which already carried rules of its own): a fresh config is not affected
	other := &serviceconfig.Service{Http: &annotations.Http{Rules: []*annotations.HttpRule{{Selector: "x.Y.Z", Pattern: &annotations.HttpRule_Get{Get: "/x"}}}}}
	health.AddHealthz(other)
	for _, rl := range other.Http.Rules {
		rl.Pattern = &annotations.HttpRule_Get{Get: "/edited/by/the/other/owner"}
		rl.AdditionalBindings = append(rl.AdditionalBindings, &annotations.HttpRule{Pattern: &annotations.HttpRule_Get{Get: "/livez"}})
	}
	// the owner's own rules for the health methods (a short alias for a load balancer, say) live in
	// the same config next to the ones AddHealthz contributes: both sets are served
	alias := func() []*annotations.HttpRule {
		return []*annotations.HttpRule{
			{Selector: "grpc.health.v1.Health.Check", Pattern: &annotations.HttpRule_Get{Get: "/healthz"}},
			{Selector: "grpc.health.v1.Health.Watch", Pattern: &annotations.HttpRule_Custom{Custom: &annotations.CustomHttpPattern{Kind: "WEBSOCKET", Path: "/watchz"}}},
		}
	}
	sc := &serviceconfig.Service{}
	httpPaths, wsPaths := []string{"/v1/healthz", "/grpc.health.v1.Health/Check"}, []string{"/v1/healthz"}
	switch tc.Pre {
	case 1:
		sc.Http = &annotations.Http{Rules: alias()}
	case 3:
		sc.Http = &annotations.Http{Rules: []*annotations.HttpRule{{Selector: "grpc.health.v1.Health.Check", Pattern: &annotations.HttpRule_Get{Get: "/livez"},
			AdditionalBindings: []*annotations.HttpRule{{Pattern: &annotations.HttpRule_Get{Get: "/readyz"}}}}}}
		httpPaths = append(httpPaths, "/livez", "/readyz")
	}
	health.AddHealthz(sc)
	health.AddHealthz(sc) // twice on the same config: harmless
	if tc.Pre == 2 {
		sc.Http.Rules = append(sc.Http.Rules, alias()...)
	}
	if tc.Pre == 1 || tc.Pre == 2 {
		httpPaths, wsPaths = append(httpPaths, "/healthz"), append(wsPaths, "/watchz")
	}
	m, err := larking.NewMux(larking.ServiceConfigOption(sc))
	if err != nil {
		return "harness", err.Error()
	}
	if err := m.VerifRegisterService(&healthpb.Health_ServiceDesc, hs); err != nil {
		return "healthz-registration", err.Error()
	}
	want, werr := hs.Check(context.Background(), &healthpb.HealthCheckRequest{Service: tc.HealthSvc})
	q := url.Values{}
	if tc.HealthSvc != "" {
		q.Set("service", tc.HealthSvc)
	}
	for _, path := range wsPaths {
		if !tc.WS {
			break
		}
		ctx, cancel := context.WithCancel(context.Background())
		defer cancel()
		res := doWSPrep(m, path, q.Encode(), nil, wsText([]byte(`{}`)), nil, func(c *env.Conn, r *http.Request) *http.Request {
			c.OnWrite = func(n int) {
				if n >= 2 { // the 101 response, then the first status message
					cancel()
				}
			}
			// if the watch fails before sending anything the script simply ends
			return r.WithContext(ctx)
		})
		if res.Panicked {
			return "panic", res.Panic
		}
		if !res.Upgraded {
			return "healthz-ws-no-upgrade", fmt.Sprintf("%s: HTTP %d", path, res.HTTPCode)
		}
		if len(res.Msgs) < 1 {
			return "healthz-ws-no-status", fmt.Sprintf("no status message; close=%+v", res.Status)
		}
		var got healthpb.HealthCheckResponse
		if err := protojson.Unmarshal(res.Msgs[0], &got); err != nil {
			return "healthz-ws-undecodable", err.Error()
		}
		wantWatch := healthpb.HealthCheckResponse_SERVICE_UNKNOWN // Watch reports unknown services this way
		if werr == nil {
			wantWatch = want.Status
		}
		if got.Status != wantWatch {
			return "healthz-ws-status", fmt.Sprintf("service %q: watch over WebSocket at %s says %v, health server says %v", tc.HealthSvc, path, got.Status, wantWatch)
		}
	}
	if tc.WS {
		return "", "ws-ok"
	}
	for _, path := range httpPaths {
		sr := serveSimple(m, "GET", path, q.Encode())
		if sr.Panicked {
			return "panic", sr.Panic
		}
		if werr != nil {
			wantCode := wireHTTPStatus(status.Code(werr))
			if sr.Code != wantCode {
				return "healthz-error-status", fmt.Sprintf("service %q: health server says %v, %s answered HTTP %d", tc.HealthSvc, werr, path, sr.Code)
			}
			continue
		}
		if sr.Code != 200 {
			return "healthz-status", fmt.Sprintf("%s?%s -> HTTP %d %s", path, q.Encode(), sr.Code, sr.Body)
		}
		var got healthpb.HealthCheckResponse
		if err := protojson.Unmarshal(sr.Body, &got); err != nil {
			return "healthz-undecodable", err.Error()
		}
		if !proto.Equal(&got, want) {
			return "healthz-status", fmt.Sprintf("service %q: %s says %v, health server says %v", tc.HealthSvc, path, got.Status, want.Status)
		}
	}
	return "", "http-ok"
}

func wireHTTPStatus(c codes.Code) int {
	switch c {
	case codes.NotFound:
		return 404
	case codes.Unimplemented:
		return 501
	}
	return 500
}

func (e *c19Env) exec(tc *c19Case) (string, string) {
	switch tc.Kind {
	case "selectors":
		return e.execSelectors(tc)
	case "equivalence":
		return e.execEquivalence(tc)
	default:
		return e.execHealthz(tc)
	}
}

func c19Cases(svcs []c19Svc, thorough bool) []c19Case {
	var out []c19Case
	sels := c19Selectors()
	for _, s := range svcs {
		for _, a := range sels {
			out = append(out, c19Case{Kind: "selectors", Service: s.full, Selectors: []string{a}})
			for _, b := range sels {
				if a != b {
					out = append(out, c19Case{Kind: "selectors", Service: s.full, Selectors: []string{a, b}})
				}
				if thorough && a < b {
					for _, c := range sels {
						if c != a && c != b {
							// c before, between and after an (unordered) pair: every ordering class of three
							out = append(out, c19Case{Kind: "selectors", Service: s.full, Selectors: []string{a, b, c}},
								c19Case{Kind: "selectors", Service: s.full, Selectors: []string{c, a, b}})
						}
					}
				}
			}
		}
	}
	// scale: stacked wildcards. Every subset of the wildcard chain above a service (*, a.*, a.b.*,
	// a.b.S.* ...) together with every pair of rules on other branches or on the method itself, in
	// three list orders: lists of up to 6 selectors
	for _, s := range svcs {
		parts := strings.Split(s.full, ".")
		chain := []string{"*"}
		for i := 1; i <= len(parts); i++ {
			chain = append(chain, strings.Join(parts[:i], ".")+".*")
		}
		branches := []string{s.full + ".M", "a.b.S.M", "a.b.Sx.M", "a.S.M", "a.Sx.M", "ab.S.M", "a.D.M", "a.D.*", "a.b.Sx.*", "ab.*", "zz.*"}
		for mask := 1; mask < 1<<len(chain); mask++ {
			var ws []string
			for i, w := range chain {
				if mask&(1<<i) != 0 {
					ws = append(ws, w)
				}
			}
			if len(ws) < 2 {
				continue
			}
			for i := range branches {
				for j := i + 1; j < len(branches); j++ {
					b1, b2 := branches[i], branches[j]
					if i > 0 && b1 == branches[0] || b2 == branches[0] && j > 0 {
						continue // the method's own exact selector is listed once
					}
					out = append(out, c19Case{Kind: "selectors", Service: s.full, Selectors: append(append([]string{}, ws...), b1, b2)},
						c19Case{Kind: "selectors", Service: s.full, Selectors: append([]string{b2, b1}, ws...)},
						c19Case{Kind: "selectors", Service: s.full, Selectors: append(append([]string{b1}, ws...), b2)})
				}
			}
		}
	}
	maxSeg := 2
	if thorough {
		maxSeg = 3
	}
	for _, t := range enumTemplates(smallAlphabet, maxSeg) {
		for _, k := range []string{"get", "post", "*"} {
			r := c01Rule{0, k, t.String()}
			out = append(out, c19Case{Kind: "equivalence", Rule: &r})
			if k != "get" {
				out = append(out, c19Case{Kind: "equivalence", Rule: &r, Body: "*"}, c19Case{Kind: "equivalence", Rule: &r, Body: "n"})
			}
		}
	}
	for _, name := range []string{"", "a", "a.b.C", "with space/é"} {
		for _, st := range []int32{-1, 0, 1, 2, 3} {
			for _, ws := range []bool{false, true} {
				for pre := 0; pre <= 3; pre++ {
					out = append(out, c19Case{Kind: "healthz", HealthSvc: name, Status: st, WS: ws, Pre: pre})
				}
			}
		}
	}
	return out
}

func runC19(c *Ctx) {
	r := c.Run
	r.Rule("selector lists of length <= 2 (thorough: <= 3) over {every component prefix of a.S.M, a.Sx.M, a.b.S.M, ab.S.M, a.D.M, a.D.Mx and unrelated names, each plain and with '.*'; '*'; case variants; a wildcard below a method} × each of 7 services (packages a, a.b, ab; services S, Sx, D) registered alone on a fresh mux, every selector with its own path; stacked wildcards: every subset (>= 2) of the wildcard chain above each service × every pair of rules on other branches or on the method itself × 3 list orders (lists of up to 6 selectors); equivalence of service-config and annotation binding for every template of the reduced alphabet (<= 2 segments, thorough <= 3) × kinds × body selectors over the near-miss probe set; a service-config rule (4 selectors) on a method that also carries an annotation on the same path and verb: the config rule's body mapping and additional bindings and the annotation's additional binding all work; healthz for service names × serving statuses over GET (both routes) and WebSocket watch × {no rules of the owner's own for the health methods, alias rules before AddHealthz, after it, a Check rule with an additional binding before it: every alias and /v1/healthz are served}; distinct = (kind, service, selector set / rule / health case)")
	r.Assume("selector lists under which one path would be bound to two methods of the registered service are skipped (a conflict by construction)", "invalid selectors ('*' not last) are not explored")
	svcs := c19Services()
	cases := c19Cases(svcs, c.Thorough())
	envs := make([]*c19Env, explore.Workers)
	explore.ParallelFor(len(cases), func() bool { return r.TooManyViolations() || r.Expired() }, func(w, i int) {
		if envs[w] == nil {
			envs[w] = &c19Env{svcs: c19Services()}
		}
		tc := &cases[i]
		oracle, note := envs[w].exec(tc)
		if note == "skip-conflict" {
			r.Outcome("skipped-conflict-by-construction")
			return
		}
		r.Eval(1)
		if oracle != "" {
			r.Outcome("FAIL:" + oracle)
			rs := ""
			if tc.Rule != nil {
				rs = tc.Rule.Kind + " " + tc.Rule.Path
			}
			r.Violation(report.Violation{Oracle: oracle, Key: fmt.Sprintf("%s kind=%s service=%s selectors=%v rule=%q body=%q health=%q/%d ws=%v", oracle, tc.Kind, tc.Service, tc.Selectors, rs, tc.Body, tc.HealthSvc, tc.Status, tc.WS), Case: *tc, Note: note})
			return
		}
		r.Outcome(tc.Kind + ":" + note)
		r.Distinct(fmt.Sprintf("%s|%s|%v|%v|%s|%s|%d|%v", tc.Kind, tc.Service, tc.Selectors, tc.Rule, tc.Body, tc.HealthSvc, tc.Status, tc.WS))
		if r.WantSample() && i%1201 == 7 {
			r.Sample(*tc)
		}
	})
	_ = protoreflect.Name("")
	c19ConfigOnAnnotatedMethod(c)
}

// c19ConfigOnAnnotatedMethod: a service-config rule selected for a method that also carries a
// proto annotation on the same path and verb. The config rule is bound like any other: its
// own body mapping and its additional bindings work (it "behaves exactly as the same rule
// written as an annotation"); the annotation's other bindings stay as well.
func c19ConfigOnAnnotatedMethod(c *Ctx) {
	r := c.Run
	f := dyn.File{Name: "vq/c19b.proto", Pkg: "vq", Messages: routeMessages("vq"), Services: []dyn.Service{{Name: "S", Methods: []dyn.Method{
		{Name: "M", In: "Req", Out: "Rsp", Rule: &dyn.Rule{Kind: "post", Path: "/eq/{s}", Add: []dyn.Rule{{Kind: "get", Path: "/eq/ann/{s}"}}}},
	}}}}
	fd, reg, err := f.Build()
	if err != nil {
		panic(err)
	}
	gsd := dyn.ServiceDesc(fd.Services().Get(0))
	for _, sel := range []string{"vq.S.M", "vq.S.*", "vq.*", "*"} {
		cfg := dyn.Rule{Sel: sel, Kind: "post", Path: "/eq/{s}", Body: "*", Add: []dyn.Rule{{Kind: "get", Path: "/eq/cfg/{s}"}, {Kind: "put", Path: "/eq/{s}", Body: "n"}}}
		sc := &serviceconfig.Service{Http: &annotations.Http{Rules: []*annotations.HttpRule{cfg.Proto()}}}
		m, err := larking.NewMux(larking.FilesOption(reg), larking.ServiceConfigOption(sc))
		if err != nil {
			panic(err)
		}
		impl := &recImpl{}
		cs := map[string]any{"kind": "config-on-annotated-method", "annotation": "post /eq/{s} + get /eq/ann/{s}", "config_rule": cfg}
		key := "config-on-annotated-method selector=" + sel
		if err := m.VerifRegisterService(gsd, dyn.NewServer(impl)); err != nil {
			r.Violation(report.Violation{Oracle: "selector-underbinds", Key: "registration-rejected " + key, Case: cs, Note: err.Error()})
			continue
		}
		type probe struct{ verb, path, body, wantField, wantVal, what string }
		for _, p := range []probe{
			{"GET", "/eq/cfg/x", "", "s", "x", "the config rule's additional binding"},
			{"GET", "/eq/ann/x", "", "s", "x", "the annotation's additional binding"},
			{"POST", "/eq/x", `{"t":"from-body"}`, "t", "from-body", "the config rule's body mapping (body: \"*\") on the shared path"},
			{"PUT", "/eq/x", `{"s":"in-n"}`, "n.s", "in-n", "the config rule's additional binding with body: \"n\""},
		} {
			impl.reset()
			var sr serveResult
			if p.body == "" {
				sr = serveSimple(m, p.verb, p.path, "")
			} else {
				res := doHTTP(m, p.verb, p.path, "", http.Header{"Content-Type": {"application/json"}}, reqBody{Data: []byte(p.body), CL: -2})
				sr = serveResult{Code: res.HTTPCode, Body: res.Body, Panicked: res.Panicked, Panic: res.Panic}
			}
			r.Eval(1)
			got := ""
			if impl.req != nil {
				cur := impl.req.ProtoReflect()
				parts := strings.Split(p.wantField, ".")
				for i, part := range parts {
					fdd := cur.Descriptor().Fields().ByName(protoreflect.Name(part))
					if i == len(parts)-1 {
						got = cur.Get(fdd).String()
					} else {
						cur = cur.Get(fdd).Message()
					}
				}
			}
			if sr.Panicked || impl.n != 1 || got != p.wantVal {
				r.Outcome("FAIL:config-rule-not-honoured")
				r.Violation(report.Violation{Oracle: "selector-underbinds", Key: fmt.Sprintf("config-rule-not-honoured %s %s %s", key, p.verb, p.path), Case: cs,
					Note: fmt.Sprintf("%s: %s %s -> status=%d dispatched=%d %s=%q (want %q) %s", p.what, p.verb, p.path, sr.Code, impl.n, p.wantField, got, p.wantVal, truncS(string(sr.Body), 100))})
				continue
			}
			r.Outcome("config-on-annotated-method:honoured")
		}
		r.Distinct("config-on-annotated-method|" + sel)
	}
}

func replayC19(c *Ctx, v report.Violation) {
	if strings.Contains(v.Key, "config-on-annotated-method") {
		sub := *c
		sub.Run = report.NewRun("C19", "quick", 0, "exploration")
		c19ConfigOnAnnotatedMethod(&sub)
		fmt.Printf("replay: config-on-annotated-method family re-run -> %d violations\n", sub.Run.NumViolations())
		if sub.Run.NumViolations() > 0 {
			c.Run.Violation(report.Violation{Oracle: v.Oracle, Key: v.Key, Case: v.Case, Note: "still violated"})
		}
		return
	}
	var tc c19Case
	if !remarshal(v.Case, &tc) {
		fmt.Println("replay: cannot decode case")
		return
	}
	e := &c19Env{svcs: c19Services()}
	oracle, note := e.exec(&tc)
	fmt.Printf("replay: %+v -> oracle=%q %s\n", tc, oracle, note)
	if oracle != "" {
		c.Run.Violation(report.Violation{Oracle: oracle, Key: v.Key, Case: tc, Note: note})
	}
}
