package props

import (
	"bytes"
	"fmt"
	"net/http"
	"strings"
	"sync"
	"time"

	"google.golang.org/protobuf/encoding/protojson"
	"google.golang.org/protobuf/proto"
	"google.golang.org/protobuf/reflect/protoreflect"
	"google.golang.org/protobuf/types/dynamicpb"

	"larking.io/larking"

	"verif/dyn"
	"verif/env"
	"verif/ref/wire"
	"verif/sched"
	"verif/shim/vsync"

	"google.golang.org/grpc"
	"google.golang.org/grpc/metadata"
)

// C13 — concurrent requests are isolated; pooled buffers and compressors never leak or
// corrupt bytes across requests.

func init() {
	register(&Check{ID: "C13", Level: "model_checking", NeedsSched: true, Run: runC13, Replay: replayE3(c13Scenarios)})
	raceScenarios["C13"] = c13Scenarios
}

// echoImpl echoes the request payload and keeps every request message to re-read it later.
type echoImpl struct {
	t    *tSchema
	mu   sync.Mutex // real mutex: the free-running pass calls handlers concurrently
	kept []keptMsg
	seen [][]byte // duplex calls: the payloads received, in order
	// servedBy is a metadata object the handler owns and hands to SetHeader on every call (grpc-go
	// does not take ownership of metadata passed to SetHeader): it must stay what it is
	servedBy metadata.MD
}

// headers: SetHeader(the handler's constant metadata), then SendHeader(this call's own).
func (e *echoImpl) headers(set func(metadata.MD) error, send func(metadata.MD) error, payload []byte) {
	tag, _, ok := bytes.Cut(payload, []byte(":"))
	if !ok {
		tag, _, _ = bytes.Cut(payload, []byte(";"))
	}
	if e.servedBy == nil || len(tag) == 0 || len(tag) > 40 {
		return
	}
	_ = set(e.servedBy)
	_ = send(metadata.Pairs("x-req", string(tag)))
}

type keptMsg struct {
	live  proto.Message
	clone proto.Message
	who   string
	reply bool
}

// keepReply: the handler also keeps the reply messages it returned (a cached asset, a reused
// chunk buffer): their memory stays the handler's, larking must not write to it afterwards.
func (e *echoImpl) keepReply(m proto.Message) {
	e.mu.Lock()
	e.kept = append(e.kept, keptMsg{live: m, clone: proto.Clone(m), who: truncS(fmt.Sprint(m), 40), reply: true})
	e.mu.Unlock()
}

func (e *echoImpl) keep(m proto.Message) {
	e.mu.Lock()
	e.kept = append(e.kept, keptMsg{live: m, clone: proto.Clone(m), who: truncS(fmt.Sprint(m), 40)})
	e.mu.Unlock()
}

func (e *echoImpl) Unary(c *dyn.Call) (proto.Message, error) {
	sched.Point("handler step", nil)
	e.keep(c.Req)
	out := dynamicpb.NewMessage(c.Desc.Output())
	in := c.Req.ProtoReflect()
	switch in.Descriptor().Name() {
	case "Up": // Raw: echo the HttpBody
		file := in.Get(in.Descriptor().Fields().ByName("file")).Message()
		out.Set(out.Descriptor().Fields().ByName("content_type"), protoreflect.ValueOfString("application/x-echo"))
		out.Set(out.Descriptor().Fields().ByName("data"), protoreflect.ValueOfBytes(append([]byte(nil), file.Get(file.Descriptor().Fields().ByName("data")).Bytes()...)))
	default:
		fs := in.Descriptor().Fields()
		setSBN(out, "", append([]byte(nil), in.Get(fs.ByName("b")).Bytes()...), 0)
		e.headers(func(md metadata.MD) error { return grpc.SetHeader(c.Ctx, md) }, func(md metadata.MD) error { return grpc.SendHeader(c.Ctx, md) }, in.Get(fs.ByName("b")).Bytes())
	}
	e.keepReply(out)
	sched.Point("handler step", nil)
	return out, nil
}

// duplex: a full-duplex bidi handler - a second goroutine sends replies of its own while the
// first keeps receiving (what larking's own proxy handler does with its pump): one stream's
// Send and Recv overlap, so whatever they share inside the stream object shows.
func (e *echoImpl) duplex(c *dyn.Call, tag string) error {
	var wg vsync.WaitGroup
	wg.Add(1)
	sched.GoNamed("duplex-sender", func() {
		defer wg.Done()
		for k := 0; k < 2; k++ {
			sched.Point("handler step", nil)
			out := dynamicpb.NewMessage(c.Desc.Output())
			setSBN(out, "", []byte(fmt.Sprintf("%s reply %d zyxwvutsrqponm", tag, k)), 0)
			e.keepReply(out)
			if err := c.Stream.SendMsg(out); err != nil {
				return
			}
		}
	})
	for {
		m := dynamicpb.NewMessage(c.Desc.Input())
		if err := c.Stream.RecvMsg(m); err != nil {
			break
		}
		sched.Point("handler step", nil)
		e.keep(m)
		in := m.ProtoReflect()
		e.mu.Lock()
		e.seen = append(e.seen, append([]byte(nil), in.Get(in.Descriptor().Fields().ByName("b")).Bytes()...))
		e.mu.Unlock()
	}
	wg.Wait()
	return nil
}

func (e *echoImpl) Stream(c *dyn.Call) error {
	if md, ok := metadata.FromIncomingContext(c.Stream.Context()); ok && len(md.Get("x-duplex")) > 0 {
		return e.duplex(c, md.Get("x-duplex")[0])
	}
	// Upload / Bidi: echo every message
	first := true
	for {
		m := dynamicpb.NewMessage(c.Desc.Input())
		if err := c.Stream.RecvMsg(m); err != nil {
			break
		}
		sched.Point("handler step", nil)
		e.keep(m)
		out := dynamicpb.NewMessage(c.Desc.Output())
		in := m.ProtoReflect()
		if in.Descriptor().Name() == "Up" {
			file := in.Get(in.Descriptor().Fields().ByName("file")).Message()
			out.Set(out.Descriptor().Fields().ByName("content_type"), protoreflect.ValueOfString("application/x-echo"))
			out.Set(out.Descriptor().Fields().ByName("data"), protoreflect.ValueOfBytes(append([]byte(nil), file.Get(file.Descriptor().Fields().ByName("data")).Bytes()...)))
		} else {
			fs := in.Descriptor().Fields()
			setSBN(out, "", append([]byte(nil), in.Get(fs.ByName("b")).Bytes()...), 0)
			if first {
				e.headers(c.Stream.SetHeader, c.Stream.SendHeader, in.Get(fs.ByName("b")).Bytes())
			}
		}
		first = false
		e.keepReply(out)
		if err := c.Stream.SendMsg(out); err != nil {
			return err
		}
	}
	return nil
}

type c13Sys struct {
	t    *tSchema
	srv  http.Handler // larking.NewServer(mux, MuxHandleOption("/api", "/")).Handler
	mux  *larking.Mux
	impl *echoImpl
	mu   sync.Mutex
	obs  map[int]string // thread -> observation
}

var c13T *tSchema

func newC13Sys() *c13Sys {
	if c13T == nil {
		t, err := newTSchema()
		if err != nil {
			panic(err)
		}
		c13T = t
	}
	m, err := larking.NewMux(append(append([]larking.MuxOption{}, c13T.opts...), larking.MaxReceiveMessageSizeOption(256))...) // above the pool's buffer sizes, or nothing is ever recycled
	if err != nil {
		panic(err)
	}
	impl := &echoImpl{t: c13T, servedBy: metadata.Pairs("x-served-by", "echo")}
	if err := m.VerifRegisterService(c13T.gsd, dyn.NewServer(impl)); err != nil {
		panic(err)
	}
	srv, err := larking.NewServer(m, larking.MuxHandleOption("/api", "/"))
	if err != nil {
		panic(err)
	}
	return &c13Sys{t: c13T, mux: m, srv: srv.Handler, impl: impl, obs: map[int]string{}}
}

// c13Kinds: request kinds chosen to collide on bytesPool, bufPool and the gzip pools.
var c13Kinds = []string{"grpc-duplex", "http-duplex", "mount-json", "mount-escaped-json", "http-accept-1line", "http-accept-2lines", "http-json", "http-json-gzip", "http-body", "http-upload", "grpc", "grpc-gzip", "web", "http-stream-gzip", "http-stream-2in1", "web-gzip", "grpc-gzip-corrupt", "grpc-gzip-oversize", "http-gzip-corrupt"}

func c13Payload(thread int, size int) []byte {
	b := make([]byte, size)
	for i := range b {
		b[i] = byte('a' + thread*7 + i%13)
	}
	return b
}

// c13Request runs one request of the given kind and returns a canonical observation.
func c13Request(s *c13Sys, thread int, kind string, size int) string {
	tag := fmt.Sprintf("T%d-%s", thread, kind)
	// single-field messages: protobuf-go marshals multi-field dynamic messages in a deliberately
	// unstable field order, which would make sizes (and so pool behaviour) nondeterministic
	msg := s.t.newReq("", append([]byte(tag+":"), c13Payload(thread, size)...), 0)
	pb, _ := proto.Marshal(msg)
	js, _ := protojson.Marshal(msg)
	js = compactJSON(js)
	sc := &env.Script{MaxRead: 24}
	if strings.Contains(kind, "corrupt") || strings.Contains(kind, "oversize") || kind == "web-gzip" {
		sc.MaxRead = 0 // whole body in one read: these kinds are about what the pools are left with, not about read boundaries
	}
	hook := func(r *callResult) {}
	_ = hook
	body := func(data []byte) reqBody { return reqBody{Data: data, Script: sc, CL: -1} }
	var res *callResult
	prep := func() {
		// body reads and response writes are scheduling points
	}
	prep()
	switch kind {
	case "http-json":
		res = doHTTPSched(s.mux, "POST", "/t/unary", http.Header{"Content-Type": {"application/json"}}, body(js))
	case "http-json-gzip":
		res = doHTTPSched(s.mux, "POST", "/t/unary", http.Header{"Content-Type": {"application/json"}, "Content-Encoding": {"gzip"}}, body(gzipBytes(js)))
	case "http-body":
		res = doHTTPSched(s.mux, "POST", "/t/raw/"+tag, http.Header{"Content-Type": {"text/plain"}}, body(c13Payload(thread, size)))
	case "http-upload":
		sc.MaxRead = 150
		res = doHTTPSched(s.mux, "POST", "/t/up/"+tag, http.Header{"Content-Type": {"text/plain"}}, body(c13Payload(thread, 300+size)))
	case "http-stream-2in1":
		// two JSON messages delivered by a single Read: the second one waits in the stream's look-ahead
		sc.MaxRead = 0
		two := append(append([]byte{}, js...), js...)
		res = doHTTPSched(s.mux, "POST", "/t/bidi", http.Header{"Content-Type": {"application/json"}}, body(two))
	case "http-stream-gzip":
		two := append(append([]byte{}, js...), js...)
		res = doHTTPSched(s.mux, "POST", "/t/bidi", http.Header{"Content-Type": {"application/json"}, "Content-Encoding": {"gzip"}}, body(gzipBytes(two)))
	case "grpc-duplex", "http-duplex":
		// one bidi call served by a full-duplex handler; the request messages arrive in 7-byte
		// pieces, so a receive is in the middle of a frame when the other goroutine sends
		msg2 := s.t.newReq("", append([]byte(tag+";"), c13Payload(thread+3, size)...), 0)
		sc.MaxRead = 7
		if kind == "grpc-duplex" {
			pb2, _ := proto.Marshal(msg2)
			res = doGRPCSched(s.mux, "/vs.T/Bidi", "application/grpc+proto", http.Header{"X-Duplex": {tag}}, body(append(wire.GRPCFrame(0, pb), wire.GRPCFrame(0, pb2)...)))
		} else {
			js2, _ := protojson.Marshal(msg2)
			res = doHTTPSched(s.mux, "POST", "/t/bidi", http.Header{"Content-Type": {"application/json"}, "X-Duplex": {tag}}, body(append(append([]byte{}, js...), compactJSON(js2)...)))
		}
	case "http-accept-1line", "http-accept-2lines":
		// the same first Accept line; one request goes on with a second line that changes the
		// outcome. What a request is answered with is a matter of its own header lines.
		h := http.Header{"Content-Type": {"application/json"}, "Accept": {"application/json;q=0.5"}}
		want := "application/json"
		if kind == "http-accept-2lines" {
			h["Accept"] = append(h["Accept"], "application/protobuf")
			want = "application/protobuf"
		}
		res = doHTTPSched(s.mux, "POST", "/t/unary", h, body(js))
		if ct := res.Header.Get("Content-Type"); res.HTTPCode == 200 && ct != want {
			return fmt.Sprintf("WRONG-CONTENT-TYPE %s answered as %q, its own Accept lines %q ask for %q", tag, ct, h["Accept"], want)
		}
	case "mount-json":
		// through NewServer's mount: whatever the server layer adds per request is shared state too
		res = doHTTPSched(s.srv, "POST", "/api/t/unary", http.Header{"Content-Type": {"application/json"}}, body(js))
	case "mount-escaped-json":
		// history inside one client: first a request the mount itself turns away (the prefix
		// spelled with a percent escape), then a good one
		rd, cl := schedReader(body(js))
		req := newPostRequest("/api/t/unary", http.Header{"Content-Type": {"application/json"}}, rd, cl)
		req.URL.RawPath = "/ap%69/t/unary"
		req.RequestURI = req.URL.RawPath
		rec := env.NewRecorder()
		p, txt := guard(func() { s.srv.ServeHTTP(rec, req) })
		rec.Finish()
		if p {
			return "PANIC " + txt
		}
		res = doHTTPSched(s.srv, "POST", "/api/t/unary", http.Header{"Content-Type": {"application/json"}}, body(js))
		defer func(first int) { _ = first }(rec.Code)
	case "grpc":
		res = doGRPCSched(s.mux, "/vs.T/Unary", "application/grpc", nil, body(wire.GRPCFrame(0, pb)))
	case "grpc-gzip":
		res = doGRPCSched(s.mux, "/vs.T/Bidi", "application/grpc+proto", http.Header{"Grpc-Encoding": {"gzip"}}, body(append(wire.GRPCFrame(1, gzipBytes(pb)), wire.GRPCFrame(1, gzipBytes(pb))...)))
	case "web":
		res = doWebSched(s.mux, "/vs.T/Unary", "application/grpc-web+proto", body(wire.GRPCFrame(0, pb)))
	case "web-gzip":
		// server-streaming over gRPC-web with gzip negotiated: compressed reply frames, then the trailer frame
		res = doWebSchedHdr(s.mux, "/vs.T/Bidi", "application/grpc-web+proto", http.Header{"Grpc-Encoding": {"gzip"}}, body(append(wire.GRPCFrame(1, gzipBytes(pb)), wire.GRPCFrame(1, gzipBytes(pb))...)))
	case "grpc-gzip-corrupt":
		// failing requests: a good gzip message, then one whose gzip trailer (CRC, length) is cut
		// off - the decompressor produces output and then fails
		z := gzipBytes(pb)
		res = doGRPCSched(s.mux, "/vs.T/Bidi", "application/grpc+proto", http.Header{"Grpc-Encoding": {"gzip"}}, body(append(wire.GRPCFrame(1, gzipBytes(pb)), wire.GRPCFrame(1, z[:len(z)-8])...)))
	case "grpc-gzip-oversize":
		// … and one that decompresses beyond the receive limit
		bigMsg := s.t.newReq("", append([]byte(tag+":"), make([]byte, 400)...), 0)
		bigPB, _ := proto.Marshal(bigMsg)
		res = doGRPCSched(s.mux, "/vs.T/Bidi", "application/grpc+proto", http.Header{"Grpc-Encoding": {"gzip"}}, body(append(wire.GRPCFrame(1, gzipBytes(pb)), wire.GRPCFrame(1, gzipBytes(bigPB))...)))
	case "http-gzip-corrupt":
		z := gzipBytes(js)
		res = doHTTPSched(s.mux, "POST", "/t/unary", http.Header{"Content-Type": {"application/json"}, "Content-Encoding": {"gzip"}}, body(z[:len(z)-8]))
	default:
		panic(kind)
	}
	if res.Panicked {
		return "PANIC " + res.Panic
	}
	// canonical observation: status + decoded reply payloads
	var parts []string
	parts = append(parts, fmt.Sprintf("http=%d", res.HTTPCode))
	if res.Status != nil {
		parts = append(parts, fmt.Sprintf("grpc=%d", res.Status.Code))
	}
	if res.ParseErr != "" {
		parts = append(parts, "parse-error:"+res.ParseErr)
	}
	switch {
	case strings.HasPrefix(kind, "grpc") || strings.HasPrefix(kind, "web"):
		for _, p := range res.Msgs {
			m := dynamicpb.NewMessage(s.t.rsp)
			if err := proto.Unmarshal(p, m); err != nil {
				parts = append(parts, "undecodable-reply")
				continue
			}
			parts = append(parts, c13Describe(m))
		}
	default:
		parts = append(parts, fmt.Sprintf("ct=%s body=%s", res.Header.Get("Content-Type"), c13Canon(res.Body)))
	}
	if v := res.Header.Values("X-Req"); len(v) > 0 || len(res.Header.Values("X-Served-By")) > 0 {
		parts = append(parts, fmt.Sprintf("x-req=%q x-served-by=%q", v, res.Header.Values("X-Served-By")))
	}
	if strings.HasSuffix(kind, "-duplex") {
		s.impl.mu.Lock()
		for _, b := range s.impl.seen {
			if bytes.HasPrefix(b, []byte(tag)) {
				parts = append(parts, fmt.Sprintf("handler-saw=%x", b))
			}
		}
		s.impl.mu.Unlock()
	}
	return strings.Join(parts, " ")
}

func c13Describe(m protoreflect.Message) string {
	fs := m.Descriptor().Fields()
	return fmt.Sprintf("{s=%s b=%x}", m.Get(fs.ByName("s")).String(), m.Get(fs.ByName("b")).Bytes())
}

// c13Canon canonicalises a JSON body (dynamicpb marshals fields in map order).
func c13Canon(b []byte) string {
	if len(b) > 0 && b[0] == '{' {
		objs, err := splitJSONStream(b)
		if err == nil {
			var out []string
			for _, o := range objs {
				m := dynamicpb.NewMessage(c13T.rsp)
				if protojson.Unmarshal(o, m) == nil {
					out = append(out, c13Describe(m))
				} else {
					out = append(out, string(o))
				}
			}
			return strings.Join(out, "")
		}
	}
	return fmt.Sprintf("%x", b)
}

// scheduler-aware drivers: every body Read and response Write is a scheduling point
func schedReader(b reqBody) (*env.Reader, int64) {
	rd, cl := b.reader()
	rd.OnRead = func() { sched.Point("body read", nil) }
	return rd, cl
}

func doHTTPSched(m http.Handler, verb, path string, hdr http.Header, body reqBody) *callResult {
	rd, cl := schedReader(body)
	req := newPostRequest(path, hdr, rd, cl)
	req.Method = verb
	rec := env.NewRecorder()
	rec.OnWrite = func([]byte) { sched.Point("response write", nil) }
	p, txt := guard(func() { m.ServeHTTP(rec, req) })
	rec.Finish()
	return &callResult{Proto: "http", Panicked: p, Panic: txt, HTTPCode: rec.Code, Header: rec.Snap, Body: rec.Body.Bytes(), Rec: rec, Reader: rd}
}

func doGRPCSched(m http.Handler, full, ct string, hdr http.Header, body reqBody) *callResult {
	rd, _ := schedReader(body)
	if hdr == nil {
		hdr = http.Header{}
	}
	hdr.Set("Content-Type", ct)
	req := newPostRequest(full, hdr, rd, -1)
	req.Proto, req.ProtoMajor, req.ProtoMinor = "HTTP/2.0", 2, 0
	rec := env.NewRecorder()
	rec.OnWrite = func([]byte) { sched.Point("response write", nil) }
	p, txt := guard(func() { m.ServeHTTP(rec, req) })
	rec.Finish()
	r := &callResult{Proto: "grpc", Panicked: p, Panic: txt, HTTPCode: rec.Code, Header: rec.Snap, Body: rec.Body.Bytes(), Rec: rec, Reader: rd, Trailer: rec.Trailers()}
	if !p {
		r.parseGRPCBody(r.Body, false)
		r.statusFromTrailers(r.Trailer, r.Header)
	}
	return r
}

func doWebSched(m http.Handler, full, ct string, body reqBody) *callResult {
	return doWebSchedHdr(m, full, ct, nil, body)
}

func doWebSchedHdr(m http.Handler, full, ct string, hdr http.Header, body reqBody) *callResult {
	rd, _ := schedReader(body)
	if hdr == nil {
		hdr = http.Header{}
	}
	hdr.Set("Content-Type", ct)
	req := newPostRequest(full, hdr, rd, int64(len(body.Data)))
	rec := env.NewRecorder()
	rec.OnWrite = func([]byte) { sched.Point("response write", nil) }
	p, txt := guard(func() { m.ServeHTTP(rec, req) })
	rec.Finish()
	r := &callResult{Proto: "web", Panicked: p, Panic: txt, HTTPCode: rec.Code, Header: rec.Snap, Body: rec.Body.Bytes(), Rec: rec, Reader: rd}
	if !p {
		r.parseGRPCBody(r.Body, true)
		tr := r.Trailer
		if tr == nil {
			tr = http.Header{}
		}
		r.statusFromTrailers(tr, r.Header)
	}
	return r
}

// solo observations (the request alone on a fresh mux): computed once per (kind, thread, size)
var (
	c13SoloMu sync.Mutex
	c13Solo   = map[string]string{}
)

func c13SoloObs(thread int, kind string, size int) string {
	key := fmt.Sprintf("%d|%s|%d", thread, kind, size)
	c13SoloMu.Lock()
	defer c13SoloMu.Unlock()
	if v, ok := c13Solo[key]; ok {
		return v
	}
	s := newC13Sys()
	v := c13Request(s, thread, kind, size)
	c13Solo[key] = v
	return v
}

func c13Scenario(kinds []string, sizes []int) *e3Scenario {
	name := strings.Join(kinds, "+")
	if sizes[0] > 100 {
		name += fmt.Sprintf("@%v", sizes)
	}
	// solo runs must happen outside any scheduler
	want := make([]string, len(kinds))
	for i, k := range kinds {
		want[i] = c13SoloObs(i, k, sizes[i])
	}
	var threads []e3Thread
	for i, k := range kinds {
		i, k := i, k
		threads = append(threads, e3Thread{Name: fmt.Sprintf("req%d-%s", i, k), Body: func(sys any) {
			s := sys.(*c13Sys)
			o := c13Request(s, i, k, sizes[i])
			s.mu.Lock()
			s.obs[i] = o
			s.mu.Unlock()
			sched.Logf("obs:%d %s", i, truncS(o, 60))
		}})
	}
	check := func(sys any) []e3Fail {
		s := sys.(*c13Sys)
		var fails []e3Fail
		for i := range kinds {
			if strings.HasPrefix(s.obs[i], "WRONG-CONTENT-TYPE") {
				fails = append(fails, e3Fail{"response-depends-on-another-request", s.obs[i]})
				continue
			}
			if strings.HasPrefix(want[i], "WRONG-CONTENT-TYPE") {
				continue // the solo run itself was answered from what an earlier request left behind: reported where it happens
			}
			if s.obs[i] != want[i] {
				fails = append(fails, e3Fail{"response-differs-from-solo-run", fmt.Sprintf("request %d (%s): alone it yields\n  %s\nconcurrently with %v it yields\n  %s", i, kinds[i], truncS(want[i], 400), kinds, truncS(s.obs[i], 400))})
			}
		}
		if sb := s.impl.servedBy; len(sb) != 1 || len(sb["x-served-by"]) != 1 || sb["x-served-by"][0] != "echo" {
			fails = append(fails, e3Fail{"handler-owned-metadata-changed", fmt.Sprintf("the metadata object the handler passes to SetHeader on every call is now %v", sb)})
		}
		for _, k := range s.impl.kept {
			if !proto.Equal(k.live, k.clone) && k.reply {
				fails = append(fails, e3Fail{"retained-reply-message-changed", fmt.Sprintf("a reply message the handler returned and kept (%s) changed afterwards:\n was %v\n now %v", k.who, k.clone, k.live)})
			} else if !proto.Equal(k.live, k.clone) {
				fails = append(fails, e3Fail{"retained-request-message-changed", fmt.Sprintf("a request message kept by the handler (%s) changed after it was delivered:\n was %v\n now %v", k.who, k.clone, k.live)})
			}
		}
		return fails
	}
	return &e3Scenario{Name: name, Desc: "concurrent requests " + name + " on one mux; each response and each handler-seen message must equal the request's solo run", PoolPoints: true,
		Setup: func() any { return newC13Sys() }, Threads: threads,
		Check:     func(sys any, x *sched.S) []e3Fail { return check(sys) },
		FreeCheck: check, MaxSteps: 50000}
}

func c13Scenarios(thorough bool) []*e3Scenario {
	var scs []*e3Scenario
	pairs := [][2]string{
		{"http-json", "http-json"}, {"http-json-gzip", "http-json-gzip"}, {"http-body", "http-upload"}, {"grpc", "grpc-gzip"},
		{"grpc-gzip", "grpc-gzip"}, {"http-stream-gzip", "http-json-gzip"}, {"web", "http-json"}, {"http-upload", "http-upload"},
		{"grpc-gzip", "http-json-gzip"}, {"http-body", "grpc"}, {"http-stream-2in1", "http-json"}, {"http-stream-2in1", "grpc"},
		// a failing request next to a good one that uses the same pools
		{"grpc-gzip-corrupt", "grpc-gzip"}, {"grpc-gzip-oversize", "web-gzip"}, {"http-gzip-corrupt", "http-json-gzip"}, {"grpc-gzip-oversize", "grpc-gzip"},
	}
	if thorough {
		pairs = nil
		for i, a := range c13Kinds {
			for _, b := range c13Kinds[i:] {
				pairs = append(pairs, [2]string{a, b})
			}
		}
	}
	for _, p := range pairs {
		sc := c13Scenario([]string{p[0], p[1]}, []int{20, 34})
		if !thorough && (strings.Contains(p[0], "grpc-gzip-") || strings.Contains(p[1], "grpc-gzip-")) {
			// two-message gzip streams have ~80 choice points per execution: in the quick tier
			// these pairs are explored to 1 deviation (what a failed request leaves in the pools
			// shows already when the two requests run one after the other)
			sc.BoundCap = 1
		}
		scs = append(scs, sc)
	}
	// one stream, two goroutines: a full-duplex handler (alone, and next to another request)
	scs = append(scs, c13Scenario([]string{"grpc-duplex"}, []int{20}), c13Scenario([]string{"http-duplex"}, []int{20}))
	if !thorough {
		scs = append(scs, c13Scenario([]string{"grpc-duplex", "grpc"}, []int{20, 34}))
	}
	// two requests that share their first Accept line, both orders
	scs = append(scs, c13Scenario([]string{"http-accept-2lines", "http-accept-1line"}, []int{20, 34}), c13Scenario([]string{"http-accept-1line", "http-accept-2lines"}, []int{20, 34}))
	// through the server's mounts, after a request the mount turned away
	scs = append(scs, c13Scenario([]string{"mount-escaped-json", "mount-json"}, []int{20, 34}))
	// scale: messages that compress well and decompress to more than the pooled frame buffer holds
	// (the small payloads above gzip to more than their own size, so they never leave that buffer)
	for _, p := range [][2]string{{"grpc-gzip", "grpc-gzip"}, {"grpc-gzip", "web-gzip"}, {"web-gzip", "http-json-gzip"}, {"grpc-gzip", "grpc"}} {
		sc := c13Scenario([]string{p[0], p[1]}, []int{200, 170})
		if !thorough {
			sc.BoundCap = 1
		}
		scs = append(scs, sc)
	}
	if thorough {
		scs = append(scs, c13Scenario([]string{"grpc-gzip", "http-json-gzip", "http-upload"}, []int{20, 34, 27}),
			c13Scenario([]string{"http-body", "grpc", "web"}, []int{34, 20, 27}))
	}
	return scs
}

func runC13(c *Ctx) {
	r := c.Run
	bound, per := 2, 40*time.Second
	if c.Thorough() {
		bound, per = 3, 8*time.Minute
	}
	r.Rule(fmt.Sprintf("pairs (thorough: all 91 pairs and two triples) of concurrent requests over kinds {gRPC-web with gzip, failing requests (gzip message with its trailer cut off, gzip message that decompresses beyond the limit, HTTP body with a cut gzip stream), HTTP JSON, HTTP JSON with gzip body, HttpBody unary echo, HttpBody chunked upload, gRPC identity, gRPC gzip bidi, gRPC-web, HTTP JSON stream with gzip body, HTTP JSON stream with two messages in one read} with distinct self-describing payloads (20..34 bytes; and 170..200 compressible bytes, larger decompressed than the pooled frame buffer, on four gzip pairs) on one Mux with a small receive limit; scheduling points: pool Get/Put (plus the environment answer 'pool emptied by GC'), WaitGroup ops, every body Read (24-byte chunks) and response Write, handler steps; every interleaving with at most %d deviations (preemptions + pool-emptied answers), bounds iterated from 0; oracle per schedule: every response and every handler-seen message equals the request's solo run, request messages and returned reply messages retained by handlers are unchanged at the end, no panic, no deadlock; plus the free-running -race pass over the same bodies", bound))
	r.Assume("proxied streams are covered by C10's scenarios and its -race pass", "races inside grpc-go / net/http are outside the scheduler")
	runScenarios(c, c13Scenarios(c.Thorough()), bound, per, 0)
	if c.Shards == 0 {
		racePass(c, "C13")
	}
	_ = bytes.Equal
}
