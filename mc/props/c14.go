package props

import (
	"bytes"
	"context"
	"encoding/base64"
	"fmt"
	"net/http"
	"sort"
	"strings"

	"google.golang.org/grpc"
	"google.golang.org/grpc/codes"
	"google.golang.org/grpc/metadata"
	"google.golang.org/grpc/status"
	"google.golang.org/protobuf/encoding/protojson"
	"google.golang.org/protobuf/proto"

	"larking.io/larking"

	"verif/explore"
	"verif/ref/wire"
	"verif/report"
)

// C14 — metadata fidelity between HTTP headers and gRPC metadata.

func init() {
	register(&Check{ID: "C14", Level: "exploration", Run: runC14, Replay: replayC14})
}

type c14Case struct {
	Kind  string `json:"kind"`  // in | out
	Proto string `json:"proto"` // grpc web webtext http
	Shape string `json:"shape"` // unary ss
	Fail  bool   `json:"fail"`
	// in
	Headers [][2]string `json:"headers,omitempty"` // name, wire value (in order)
	// out
	Items   []string `json:"items,omitempty"`
	ViaSend bool     `json:"via_send_header,omitempty"`
	Bin     []byte   `json:"bin_value,omitempty"` // value of the -bin items (default c14BinVal)
	Opts    bool     `json:"mux_with_interceptors_and_stats,omitempty"`
}

type c14Env struct {
	t    *tSchema
	mux  http.Handler
	impl *tImpl
	// the same service on a mux with pass-through interceptors and a stats handler installed
	muxOpts  http.Handler
	implOpts *tImpl
	plainMux http.Handler
	plainImp *tImpl
}

// use selects the mux a case runs on.
func (e *c14Env) use(withOpts bool) {
	if withOpts {
		e.mux, e.impl = e.muxOpts, e.implOpts
	} else {
		e.mux, e.impl = e.plainMux, e.plainImp
	}
}

func newC14Env() *c14Env {
	t, err := newTSchema()
	if err != nil {
		panic(err)
	}
	m, impl, err := t.newMux()
	if err != nil {
		panic(err)
	}
	mo, implo, err := t.newMux(
		larking.UnaryServerInterceptorOption(func(ctx context.Context, req interface{}, info *grpc.UnaryServerInfo, handler grpc.UnaryHandler) (interface{}, error) {
			return handler(ctx, req)
		}),
		larking.StreamServerInterceptorOption(func(srv interface{}, ss grpc.ServerStream, info *grpc.StreamServerInfo, handler grpc.StreamHandler) error {
			return handler(srv, ss)
		}),
		larking.StatsOption(&statsProbe{}))
	if err != nil {
		panic(err)
	}
	return &c14Env{t: t, mux: m, impl: impl, plainMux: m, plainImp: impl, muxOpts: mo, implOpts: implo}
}

func (e *c14Env) call(tc *c14Case, hdr http.Header) *callResult {
	reqMsg := e.t.newReq("q", nil, 1)
	pb, _ := proto.Marshal(reqMsg)
	js, _ := protojson.Marshal(reqMsg)
	method := "Unary"
	route := "/t/unary"
	if tc.Shape == "ss" {
		method, route = "SS", "/t/ss"
	}
	full := "/vs.T/" + method
	switch tc.Proto {
	case "grpc":
		return doGRPC(e.mux, full, "application/grpc+proto", hdr, reqBody{Data: wire.GRPCFrame(0, pb)})
	case "web":
		return doWeb(e.mux, full, "application/grpc-web+proto", hdr, reqBody{Data: wire.GRPCFrame(0, pb)})
	case "webtext":
		return doWeb(e.mux, full, "application/grpc-web-text+proto", hdr, reqBody{Data: wire.GRPCFrame(0, pb)})
	case "grpc-gzip", "web-gzip":
		hdr.Set("Grpc-Encoding", "gzip")
		hdr.Set("Grpc-Accept-Encoding", "gzip")
		frame := wire.GRPCFrame(1, gzipBytes(pb))
		if tc.Proto == "grpc-gzip" {
			return doGRPC(e.mux, full, "application/grpc+proto", hdr, reqBody{Data: frame})
		}
		return doWeb(e.mux, full, "application/grpc-web+proto", hdr, reqBody{Data: frame})
	case "http":
		hdr.Set("Content-Type", "application/json")
		return doHTTP(e.mux, "POST", route, "", hdr, reqBody{Data: js, CL: -2})
	}
	panic(tc.Proto)
}

func decodeBin(v string) ([]byte, error) {
	return base64.RawStdEncoding.DecodeString(strings.TrimRight(v, "="))
}

func (e *c14Env) execIn(tc *c14Case) (oracle, note string) {
	hdr := http.Header{}
	want := metadata.MD{}
	for _, kv := range tc.Headers {
		hdr.Add(kv[0], kv[1])
		k := strings.ToLower(kv[0])
		v := kv[1]
		if strings.HasSuffix(k, "-bin") {
			b, err := decodeBin(v)
			if err != nil {
				return "harness", err.Error()
			}
			v = string(b)
		}
		want[k] = append(want[k], v)
	}
	e.impl.reset(hScript{RecvN: 1, Replies: []proto.Message{e.t.newRsp("r", nil, 0)}})
	res := e.call(tc, hdr)
	if res.Panicked {
		return "panic", res.Panic
	}
	if e.impl.log.Calls != 1 {
		return "handler-not-invoked", fmt.Sprintf("http=%d", res.HTTPCode)
	}
	got := e.impl.log.MD
	for k, vs := range want {
		gv := got[k]
		if len(gv) != len(vs) {
			return "incoming-md-values", fmt.Sprintf("%s: sent %q, handler metadata has %q (all: %v)", k, vs, gv, got)
		}
		for i := range vs {
			if gv[i] != vs[i] {
				return "incoming-md-values", fmt.Sprintf("%s[%d]: sent %q, handler metadata has %q", k, i, vs[i], gv[i])
			}
		}
	}
	for k := range got {
		if k != strings.ToLower(k) {
			return "incoming-md-key-case", k
		}
	}
	return "", ""
}

// outgoing items
var c14BinVal = []byte{0xfb, 0xff, 0x00, 0x41}

func (e *c14Env) execOut(tc *c14Case) (oracle, note string) {
	has := func(it string) bool {
		for _, x := range tc.Items {
			if x == it {
				return true
			}
		}
		return false
	}
	hmd, tmd, tmid := metadata.MD{}, metadata.MD{}, metadata.MD{}
	c14BinVal := c14BinVal
	if tc.Bin != nil {
		c14BinVal = tc.Bin
	}
	if has("h-two") {
		hmd.Append("x-h", "v1", "v2")
	}
	if has("h-bin") {
		hmd.Append("x-h-bin", string(c14BinVal))
	}
	if has("both") {
		hmd.Append("x-both", "from-header")
		tmd.Append("x-both", "from-trailer")
	}
	if has("t-two") {
		tmd.Append("x-t", "t1", "t2")
	}
	if has("t-bin") {
		tmd.Append("x-t-bin", string(c14BinVal))
	}
	if has("t-mid") {
		tmid.Append("x-t-mid", "mid")
	}
	if has("many") {
		// scale: 60 keys with two values each, in the headers and in the trailers
		for i := 0; i < 60; i++ {
			hmd.Append(fmt.Sprintf("x-m-%02d", i), fmt.Sprintf("a%d", i), fmt.Sprintf("b %d", i))
			tmd.Append(fmt.Sprintf("x-n-%02d", i), fmt.Sprintf("c%d", i), fmt.Sprintf("d %d", i))
		}
	}
	if has("look") {
		// custom keys that merely look like protocol keys
		hmd.Append("grpc-custom", "lc")
		hmd.Append("content-type-x", "lx")
		tmd.Append("grpc-statusx", "ls")
		tmd.Append("trailers", "lt")
	}
	reserved := map[string]string{"content-type": "text/evil", "grpc-status": "9", "grpc-message": "forged", "grpc-encoding": "gzip", "grpc-status-details-bin": "AAAA", "trailer": "X-Evil"}
	for k, v := range reserved {
		if has("rh:" + k) {
			hmd.Append(k, v)
		}
		if has("rt:" + k) {
			tmd.Append(k, v)
		}
		// the same keys as a metadata.MD literal spells them when nobody lower-cases them
		// (metadata.MD{"Content-Type": …}): whatever larking does with such a key, it is still
		// the protocol's key
		if has("RH:" + k) {
			hmd[http.CanonicalHeaderKey(k)] = []string{v}
		}
		if has("RT:" + k) {
			tmd[http.CanonicalHeaderKey(k)] = []string{v}
		}
	}
	hs := hScript{RecvN: 1, Replies: []proto.Message{e.t.newRsp("r1", nil, 1), e.t.newRsp("r2", nil, 2)}}
	if len(hmd) > 0 {
		if tc.ViaSend {
			hs.SendHdr = hmd
		} else {
			hs.Header = hmd
		}
	}
	if len(tmd) > 0 {
		hs.Trailer = tmd
	}
	if len(tmid) > 0 {
		hs.TrailerMid = tmid
	}
	wantCode := 0
	if tc.Fail {
		hs.Err = status.Error(codes.PermissionDenied, "denied")
		hs.ErrAfter = 1
		if tc.Shape == "unary" {
			hs.ErrAfter = 0
		}
		wantCode = int(codes.PermissionDenied)
	}
	e.impl.reset(hs)
	res := e.call(tc, http.Header{})
	if res.Panicked {
		return "panic", res.Panic
	}
	if e.impl.log.Calls != 1 {
		return "handler-not-invoked", fmt.Sprintf("http=%d", res.HTTPCode)
	}
	if res.ParseErr != "" {
		return "response-malformed", res.ParseErr
	}
	getAll := func(h http.Header, k string) []string {
		for hk, vs := range h {
			if strings.EqualFold(hk, k) {
				return vs
			}
		}
		return nil
	}
	checkVals := func(where string, h http.Header, k string, want []string) (string, string) {
		got := getAll(h, k)
		if strings.HasSuffix(k, "-bin") {
			var dec []string
			for _, g := range got {
				b, err := decodeBin(g)
				if err != nil {
					return "outgoing-bin-undecodable", fmt.Sprintf("%s %s=%q: %v", where, k, g, err)
				}
				dec = append(dec, string(b))
			}
			got = dec
		}
		if fmt.Sprint(got) != fmt.Sprint(want) || len(got) != len(want) {
			return "outgoing-" + where + "-lost", fmt.Sprintf("%s %s: handler set %q, client sees %q (all %s: %v)", where, k, want, got, where, h)
		}
		return "", ""
	}
	isReserved := func(k string) bool { _, ok := reserved[strings.ToLower(k)]; return ok }
	grpcLike := tc.Proto != "http"
	// gRPC-web answers a call that produced no message with a trailers-only response: headers
	// and trailers share the HTTP header block, so a key used in both cannot be kept apart.
	trailersOnly := strings.HasPrefix(tc.Proto, "web") && len(res.Msgs) == 0 && res.Trailer == nil
	// headers: on every protocol. A failing unary call over HTTP transcoding produces an error
	// response; headers are demanded there too.
	for k, vs := range hmd {
		if isReserved(k) || (trailersOnly && k == "x-both") {
			continue
		}
		if o, n := checkVals("header", res.Header, k, vs); o != "" {
			return o, n
		}
	}
	if grpcLike {
		for _, md := range []metadata.MD{tmd, tmid} {
			for k, vs := range md {
				if isReserved(k) {
					continue
				}
				if tc.Shape == "unary" && len(tmid) > 0 && k == "x-t-mid" {
					continue // unary handlers have no "after the first reply"
				}
				where := res.Trailer
				if trailersOnly {
					where = res.Header
				}
				if o, n := checkVals("trailer", where, k, vs); o != "" {
					return o, n
				}
			}
		}
		// the same key in header and trailer keeps both values apart
		if has("both") && !trailersOnly {
			if got := getAll(res.Header, "x-both"); len(got) != 1 || got[0] != "from-header" {
				return "outgoing-header-lost", fmt.Sprintf("x-both in headers: %q", got)
			}
		}
		// protocol keys keep the protocol's values
		if res.Status == nil {
			return "status-missing", fmt.Sprintf("headers=%v trailers=%v", res.Header, res.Trailer)
		}
		if res.Status.Code != wantCode {
			return "reserved-key-forged", fmt.Sprintf("grpc-status %d, handler returned %d (items %v)", res.Status.Code, wantCode, tc.Items)
		}
		wantMsg := ""
		if tc.Fail {
			wantMsg = "denied"
		}
		if res.Status.Message != wantMsg {
			return "reserved-key-forged", fmt.Sprintf("grpc-message %q, handler returned %q", res.Status.Message, wantMsg)
		}
		if res.Status.HasDetails {
			return "reserved-key-forged", "grpc-status-details-bin present although the status has no details"
		}
		if vs := getAll(res.Header, "grpc-status"); len(vs) > 0 && tc.Shape == "ss" {
			return "reserved-key-forged", fmt.Sprintf("grpc-status %q in the response headers", vs)
		}
		gz := strings.HasSuffix(tc.Proto, "-gzip")
		if enc := res.Header.Get("Grpc-Encoding"); !gz && enc != "" && enc != "identity" {
			return "reserved-key-forged", fmt.Sprintf("grpc-encoding %q although nothing is compressed", enc)
		} else if gz && enc != "gzip" && len(res.Msgs) > 0 {
			return "reserved-key-forged", fmt.Sprintf("grpc-encoding %q although gzip was negotiated and replies were sent", enc)
		}
		ct := res.Header.Get("Content-Type")
		wantCT := map[string]string{"grpc": "application/grpc+proto", "web": "application/grpc-web+proto", "webtext": "application/grpc-web-text+proto", "grpc-gzip": "application/grpc+proto", "web-gzip": "application/grpc-web+proto"}[tc.Proto]
		if ct != wantCT && !(trailersOnly && strings.HasPrefix(ct, "application/grpc")) {
			return "reserved-key-forged", fmt.Sprintf("content-type %q want %q", ct, wantCT)
		}
		wantReplies := 1
		if tc.Shape == "ss" {
			wantReplies = 2
			if tc.Fail {
				wantReplies = 1
			}
		} else if tc.Fail {
			wantReplies = 0
		}
		if len(res.Msgs) != wantReplies {
			return "response-malformed", fmt.Sprintf("%d replies, want %d", len(res.Msgs), wantReplies)
		}
	} else {
		ct := res.Header.Get("Content-Type")
		if ct != "application/json" {
			return "reserved-key-forged", fmt.Sprintf("content-type %q", ct)
		}
	}
	return "", ""
}

func c14InCases(thorough bool) []c14Case {
	var out []c14Case
	alpha := []byte{0x00, 0x41, 0xfb, 0xff}
	depth := 3
	if thorough {
		alpha = append(alpha, 0x3e, 0x3f) // with fb/ff these reach the '+' '/' '-' '_' sextets in every position
		depth = 4
	}
	var bins [][]byte
	var rec func(cur []byte)
	rec = func(cur []byte) {
		bins = append(bins, append([]byte(nil), cur...))
		if len(cur) == depth {
			return
		}
		for _, a := range alpha {
			rec(append(cur, a))
		}
	}
	rec(nil)
	protos := []string{"grpc", "web", "webtext", "http"}
	for _, p := range protos {
		// plus names that merely look like protocol keys (prefix / suffix of a reserved name): custom all the same
		names := []string{"x-a", "X-A", "X-Mixed-Case", "Grpc-Custom", "Content-Type-X", "Trailers", "X-Te", "Grpc-Status-Detail", "Tea"}
		if thorough {
			names = append(names, "x_under.dot-1", "X9", "a", "x-a-binx", "bin", "x-bin-a")
		}
		for _, name := range names {
			out = append(out, c14Case{Kind: "in", Proto: p, Shape: "unary", Headers: [][2]string{{name, "v1"}}})
			out = append(out, c14Case{Kind: "in", Proto: p, Shape: "unary", Headers: [][2]string{{name, "v1"}, {name, "v 2, with comma"}}})
			out = append(out, c14Case{Kind: "in", Proto: p, Shape: "ss", Headers: [][2]string{{name, "b"}, {name, "a"}, {"x-other", "o"}}})
		}
		// scale: a 5 kB value, 50 values under one name, 60 names, -bin values of 3 kB and 70 kB
		out = append(out, c14Case{Kind: "in", Proto: p, Shape: "unary", Headers: [][2]string{{"x-a", strings.Repeat("v, ", 1700)}}})
		var fifty, sixty [][2]string
		for i := 0; i < 50; i++ {
			fifty = append(fifty, [2]string{"x-a", fmt.Sprintf("value %d", i)})
		}
		for i := 0; i < 60; i++ {
			sixty = append(sixty, [2]string{fmt.Sprintf("x-k-%02d", i), fmt.Sprintf("v%d", i)})
		}
		out = append(out, c14Case{Kind: "in", Proto: p, Shape: "unary", Headers: fifty}, c14Case{Kind: "in", Proto: p, Shape: "ss", Headers: sixty})
		for _, n := range []int{3000, 70000} {
			out = append(out, c14Case{Kind: "in", Proto: p, Shape: "unary", Headers: [][2]string{{"x-b-bin", base64.StdEncoding.EncodeToString(c14Big(n))}}},
				c14Case{Kind: "in", Proto: p, Shape: "unary", Headers: [][2]string{{"x-b-bin", base64.RawStdEncoding.EncodeToString(c14Big(n + 1))}}})
		}
		for _, name := range []string{"x-b-bin", "X-B-Bin"} {
			for i, b := range bins {
				if !thorough && p != "grpc" && i%3 != 0 {
					continue
				}
				pad := base64.StdEncoding.EncodeToString(b)
				raw := base64.RawStdEncoding.EncodeToString(b)
				out = append(out, c14Case{Kind: "in", Proto: p, Shape: "unary", Headers: [][2]string{{name, pad}}})
				if raw != pad {
					out = append(out, c14Case{Kind: "in", Proto: p, Shape: "unary", Headers: [][2]string{{name, raw}}})
					out = append(out, c14Case{Kind: "in", Proto: p, Shape: "unary", Headers: [][2]string{{name, raw}, {name, pad}}})
				}
			}
		}
	}
	return out
}

// c14Big is a deterministic byte string of n bytes covering every byte value.
func c14Big(n int) []byte {
	b := make([]byte, n)
	for i := range b {
		b[i] = byte(i*7 + 3)
	}
	return b
}

func c14OutCases(thorough bool) []c14Case {
	var out []c14Case
	custom := []string{"h-two", "h-bin", "both", "t-two", "t-bin", "t-mid", "look"}
	var reservedItems []string
	for _, k := range []string{"content-type", "grpc-status", "grpc-message", "grpc-encoding", "grpc-status-details-bin", "trailer"} {
		reservedItems = append(reservedItems, "rh:"+k, "rt:"+k, "RH:"+k, "RT:"+k)
	}
	sort.Strings(reservedItems)
	var sets [][]string
	// every subset of the custom items
	for mask := 0; mask < 1<<len(custom); mask++ {
		var s []string
		for i, c := range custom {
			if mask&(1<<i) != 0 {
				s = append(s, c)
			}
		}
		sets = append(sets, s)
	}
	// every reserved item alone, with all custom items, and all reserved at once
	for _, ri := range reservedItems {
		sets = append(sets, []string{ri}, append([]string{ri}, custom...))
	}
	sets = append(sets, append(append([]string{}, reservedItems...), custom...))
	for _, p := range []string{"grpc", "web", "webtext", "http", "grpc-gzip", "web-gzip"} {
		for _, sh := range []string{"unary", "ss"} {
			for _, fail := range []bool{false, true} {
				for _, via := range []bool{false, true} {
					for _, s := range sets {
						out = append(out, c14Case{Kind: "out", Proto: p, Shape: sh, Fail: fail, Items: s, ViaSend: via})
					}
				}
			}
		}
	}
	// scale: -bin values of 1.5 kB .. 70 kB (beyond fixed scratch buffers, one HTTP/2 frame, 64 KiB)
	// and many keys, alone and together
	for _, p := range []string{"grpc", "web", "webtext", "http", "grpc-gzip", "web-gzip"} {
		for _, sh := range []string{"unary", "ss"} {
			for _, fail := range []bool{false, true} {
				for _, n := range []int{1500, 1800, 2100, 4096, 16384, 70000} {
					out = append(out, c14Case{Kind: "out", Proto: p, Shape: sh, Fail: fail, Items: []string{"h-bin", "t-bin"}, Bin: c14Big(n), ViaSend: n%200 == 0})
				}
				out = append(out, c14Case{Kind: "out", Proto: p, Shape: sh, Fail: fail, Items: []string{"many"}},
					c14Case{Kind: "out", Proto: p, Shape: sh, Fail: fail, Items: append([]string{"many"}, custom...), Bin: c14Big(3000), ViaSend: true})
			}
		}
	}
	if thorough {
		// every byte string of length <= 3 over {00,41,fb,ff} as outgoing -bin header and trailer
		alpha := []byte{0x00, 0x41, 0xfb, 0xff}
		var bins [][]byte
		var rec func(cur []byte)
		rec = func(cur []byte) {
			bins = append(bins, append([]byte{}, cur...))
			if len(cur) == 3 {
				return
			}
			for _, a := range alpha {
				rec(append(cur, a))
			}
		}
		rec(nil)
		for _, p := range []string{"grpc", "web", "webtext", "http"} {
			for _, sh := range []string{"unary", "ss"} {
				for _, fail := range []bool{false, true} {
					for _, b := range bins {
						out = append(out, c14Case{Kind: "out", Proto: p, Shape: sh, Fail: fail, Items: []string{"h-bin", "t-bin"}, Bin: b, ViaSend: len(b)%2 == 1})
					}
				}
			}
		}
	}
	return out
}

func (e *c14Env) exec(tc *c14Case) (string, string) {
	e.use(tc.Opts)
	if tc.Kind == "in" {
		return e.execIn(tc)
	}
	return e.execOut(tc)
}

func runC14(c *Ctx) {
	r := c.Run
	r.Rule("incoming: protocol{gRPC, gRPC-web, gRPC-web-text, HTTP} × header name{x-a, X-A, X-Mixed-Case, six names that are prefixes/suffixes/extensions of reserved keys} × 1..3 values; '-bin' names × every byte string of length <= 3 over {00,41,fb,ff} in padded and unpadded base64, alone and mixed; outgoing: protocol (plus gRPC and gRPC-web with gzip negotiated) × shape{unary, server-streaming} × outcome{ok, PermissionDenied} × SetHeader vs SendHeader × every subset of {two-valued header, -bin header, same key in header and trailer, two-valued trailer, -bin trailer, trailer set after the first reply, custom keys that look like protocol keys} plus each reserved key (content-type, grpc-status, grpc-message, grpc-encoding, grpc-status-details-bin, trailer) as header and as trailer, alone, with all custom items, and all at once; every case on a plain mux and on a mux with pass-through interceptors and a stats handler; distinct = (kind, protocol, shape, outcome, item set, mux options); scale: outgoing -bin values of 1.5 kB..70 kB, 60 keys × 2 values in headers and trailers, incoming 5 kB value, 50 values under one name, 60 names, -bin values of 3 kB / 70 kB; thorough: incoming -bin values of length <= 4 over {00,41,fb,ff,3e,3f}, more header names, and every byte string of length <= 3 as outgoing -bin header and trailer value")
	r.Assume("http.Header canonicalises names as net/http does when parsing the wire", "trailers are demanded on gRPC and gRPC-web only")
	cases := append(c14InCases(c.Thorough()), c14OutCases(c.Thorough())...)
	// everything again on a mux with pass-through interceptors and a stats handler: options
	// must not add, drop or duplicate metadata
	for i, n := 0, len(cases); i < n; i++ {
		tc := cases[i]
		tc.Opts = true
		cases = append(cases, tc)
	}
	envs := make([]*c14Env, explore.Workers)
	explore.ParallelFor(len(cases), func() bool { return r.TooManyViolations() }, func(w, i int) {
		if envs[w] == nil {
			envs[w] = newC14Env()
		}
		tc := &cases[i]
		oracle, note := envs[w].exec(tc)
		r.Eval(1)
		if oracle != "" {
			r.Outcome("FAIL:" + oracle)
			r.Violation(report.Violation{Oracle: oracle, Key: fmt.Sprintf("%s kind=%s proto=%s shape=%s fail=%v via_send=%v headers=%v items=%v opts=%v", oracle, tc.Kind, tc.Proto, tc.Shape, tc.Fail, tc.ViaSend, tc.Headers, tc.Items, tc.Opts), Case: *tc, Note: note})
			return
		}
		r.Outcome(tc.Kind + "-ok:" + tc.Proto)
		r.Distinct(fmt.Sprintf("%s|%s|%s|%v|%v|%v|%v", tc.Kind, tc.Proto, tc.Shape, tc.Fail, tc.Items, len(tc.Headers), tc.Opts))
		if r.WantSample() && i%701 == 5 {
			r.Sample(*tc)
		}
	})
	c14RefusedSend(c)
}

// c14RefusedSend: the handler stages header metadata and its first reply is then refused (it is
// larger than the send limit), on a plain mux and on one with options. Whatever error response
// the protocol produces, a custom key is either not carried at all or carries exactly the
// values the handler set, in order, once; binary values byte-exact.
func c14RefusedSend(c *Ctx) {
	r := c.Run
	t, err := newTSchema()
	if err != nil {
		panic(err)
	}
	bin := []byte{0x00, 0xff, 0x10, 0x80, 0x7f}
	md := metadata.MD{"x-seed": {"first", "second"}, "x-seed-bin": {string(bin)}}
	for _, withOpts := range []bool{false, true} {
		opts := []larking.MuxOption{larking.MaxSendMessageSizeOption(64)}
		if withOpts {
			opts = append(opts, c15PassThroughOpts()...)
		}
		m, impl, err := t.newMux(opts...)
		if err != nil {
			panic(err)
		}
		big := t.newRsp("", bytes.Repeat([]byte("r"), 300), 0)
		pb, _ := proto.Marshal(t.newReq("", []byte("q"), 0))
		for _, shape := range []string{"unary", "ss"} {
			for _, via := range []string{"SetHeader", "SendHeader"} {
				for _, pn := range []string{"http-json", "http-proto", "grpc", "web"} {
					sc := hScript{Replies: []proto.Message{big}}
					if via == "SetHeader" {
						sc.Header = md.Copy()
					} else {
						sc.SendHdr, sc.SendHdrNow = md.Copy(), true
					}
					impl.reset(sc)
					method, route := "Unary", "/t/unary"
					if shape == "ss" {
						method, route = "SS", "/t/ss"
					}
					var res *callResult
					switch pn {
					case "http-json":
						res = doHTTP(m, "POST", route, "", http.Header{"Content-Type": {"application/json"}}, reqBody{Data: []byte(`{"b":"cQ=="}`), CL: -2})
					case "http-proto":
						res = doHTTP(m, "POST", route, "", http.Header{"Content-Type": {"application/protobuf"}}, reqBody{Data: pb, CL: -2})
					case "grpc":
						res = doGRPC(m, "/vs.T/"+method, "application/grpc", nil, reqBody{Data: wire.GRPCFrame(0, pb)})
					default:
						res = doWeb(m, "/vs.T/"+method, "application/grpc-web+proto", nil, reqBody{Data: wire.GRPCFrame(0, pb)})
					}
					r.Eval(1)
					key := fmt.Sprintf("refused-first-send proto=%s shape=%s via=%s opts=%v", pn, shape, via, withOpts)
					r.Distinct(key)
					cs := map[string]any{"family": "refused-send", "proto": pn, "shape": shape, "via": via, "opts": withOpts}
					if res.Panicked {
						r.Outcome("FAIL:panic")
						r.Violation(report.Violation{Oracle: "panic", Key: "panic " + key, Case: cs, Note: res.Panic})
						continue
					}
					bad := ""
					if v := res.Header.Values("X-Seed"); len(v) != 0 && fmt.Sprint(v) != "[first second]" {
						bad = fmt.Sprintf("X-Seed: %q, the handler set [first second]", v)
					}
					if v := res.Header.Values("X-Seed-Bin"); len(v) != 0 {
						dec, derr := base64.RawStdEncoding.DecodeString(strings.TrimRight(v[0], "="))
						if len(v) != 1 || derr != nil || !bytes.Equal(dec, bin) {
							bad = fmt.Sprintf("X-Seed-Bin: %q, the handler set one value %x", v, bin)
						}
					}
					if bad != "" {
						r.Outcome("FAIL:outgoing-header-values-after-refused-send")
						r.Violation(report.Violation{Oracle: "outgoing-header-values-after-refused-send", Key: "outgoing-header-values-after-refused-send " + key, Case: cs, Note: bad})
					} else {
						r.Outcome("refused-send-ok:" + pn)
					}
				}
			}
		}
	}
}

func replayC14(c *Ctx, v report.Violation) {
	if m, ok := v.Case.(map[string]any); ok && m["family"] == "refused-send" {
		sub := *c
		sub.Run = report.NewRun("C14", "quick", 0, "exploration")
		c14RefusedSend(&sub)
		fmt.Printf("replay: refused-send family re-run -> %d violations\n", sub.Run.NumViolations())
		if sub.Run.NumViolations() > 0 {
			c.Run.Violation(v)
		}
		return
	}
	var tc c14Case
	if !remarshal(v.Case, &tc) {
		fmt.Println("replay: cannot decode case")
		return
	}
	oracle, note := newC14Env().exec(&tc)
	fmt.Printf("replay: %+v -> oracle=%q %s\n", tc, oracle, note)
	if oracle != "" {
		c.Run.Violation(report.Violation{Oracle: oracle, Key: v.Key, Case: tc, Note: note})
	}
}
