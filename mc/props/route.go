package props

import (
	"fmt"
	"net/http"
	"net/url"
	"sort"
	"strconv"
	"strings"

	"google.golang.org/genproto/googleapis/api/annotations"
	"google.golang.org/genproto/googleapis/api/serviceconfig"
	"google.golang.org/grpc"
	"google.golang.org/protobuf/proto"
	"google.golang.org/protobuf/reflect/protoreflect"
	"google.golang.org/protobuf/reflect/protoregistry"
	"google.golang.org/protobuf/types/descriptorpb"
	"google.golang.org/protobuf/types/dynamicpb"

	"larking.io/larking"

	"verif/dyn"
	"verif/env"
	tmpl "verif/ref/template"
)

// Shared routing harness for C01, C02, C16, C19: a dynamic service vt.S with unannotated
// unary methods M1..Mn over
//
//	message N   { string s = 1; int64 i = 2; }
//	message Req { string s = 1; string t = 2; int64 i = 3; N n = 4; string u = 5;
//	              repeated string rs = 6; map<string,string> mp = 7; int32 small = 8; }
//	message Rsp { string s = 1; N n = 2; }
//
// Rules are attached through ServiceConfigOption (selector = method full name) or, for the
// annotation-sourced variants, by building a separate descriptor per rule set.

type routeSchema struct {
	pkg     string
	fd      protoreflect.FileDescriptor
	reg     *protoregistry.Files
	sd      protoreflect.ServiceDescriptor
	gsd     *grpc.ServiceDesc
	reqDesc protoreflect.MessageDescriptor
	rspDesc protoreflect.MessageDescriptor
	methods []string // full method names "/vt.S/M1"
	multi   bool     // shape B: one service per method
	gsds    []*grpc.ServiceDesc
}

func routeMessages(pkg string) []*descriptorpb.DescriptorProto {
	n := dyn.Msg("N", dyn.Str("s", 1), dyn.Int64("i", 2))
	req := dyn.Msg("Req", dyn.Str("s", 1), dyn.Str("t", 2), dyn.Int64("i", 3), dyn.MsgField("n", 4, "."+pkg+".N"), dyn.Str("u", 5),
		dyn.Repeated(dyn.Str("rs", 6)))
	dyn.MapField(req, "."+pkg+".Req", "mp", 7)
	req.Field = append(req.Field, dyn.Int32("small", 8))
	rsp := dyn.Msg("Rsp", dyn.Str("s", 1), dyn.MsgField("n", 2, "."+pkg+".N"))
	return []*descriptorpb.DescriptorProto{n, req, rsp}
}

// newRouteSchema builds service <pkg>.<svc> with nMethods methods; ann[i] (optional) is the
// annotation of method i.
func newRouteSchema(pkg, svc string, nMethods int, ann map[int]*dyn.Rule) (*routeSchema, error) {
	var ms []dyn.Method
	for i := 0; i < nMethods; i++ {
		ms = append(ms, dyn.Method{Name: fmt.Sprintf("M%d", i+1), In: "Req", Out: "Rsp", Rule: ann[i]})
	}
	f := dyn.File{Name: pkg + "/" + svc + ".proto", Pkg: pkg, Messages: routeMessages(pkg), Services: []dyn.Service{{Name: svc, Methods: ms}}}
	fd, reg, err := f.Build()
	if err != nil {
		return nil, err
	}
	rs := &routeSchema{pkg: pkg, fd: fd, reg: reg, sd: fd.Services().Get(0)}
	rs.gsd = dyn.ServiceDesc(rs.sd)
	rs.reqDesc = fd.Messages().ByName("Req")
	rs.rspDesc = fd.Messages().ByName("Rsp")
	for i := 0; i < nMethods; i++ {
		rs.methods = append(rs.methods, fmt.Sprintf("/%s.%s/M%d", pkg, svc, i+1))
	}
	return rs, nil
}

// newRouteSchemaMulti builds n services <pkg>.S1..Sn with one method M1 each (shape B: the
// registration order of *services* can be permuted). Flattened method i is /<pkg>.S<i+1>/M1.
func newRouteSchemaMulti(pkg string, n int) (*routeSchema, error) {
	var svcs []dyn.Service
	for i := 0; i < n; i++ {
		svcs = append(svcs, dyn.Service{Name: fmt.Sprintf("S%d", i+1), Methods: []dyn.Method{{Name: "M1", In: "Req", Out: "Rsp"}}})
	}
	f := dyn.File{Name: pkg + "/multi.proto", Pkg: pkg, Messages: routeMessages(pkg), Services: svcs}
	fd, reg, err := f.Build()
	if err != nil {
		return nil, err
	}
	rs := &routeSchema{pkg: pkg, fd: fd, reg: reg, multi: true}
	rs.reqDesc = fd.Messages().ByName("Req")
	rs.rspDesc = fd.Messages().ByName("Rsp")
	for i := 0; i < n; i++ {
		rs.gsds = append(rs.gsds, dyn.ServiceDesc(fd.Services().Get(i)))
		rs.methods = append(rs.methods, fmt.Sprintf("/%s.S%d/M1", pkg, i+1))
	}
	return rs, nil
}

// boundRule is a rule attached to method index M.
type boundRule struct {
	M    int
	Rule dyn.Rule
	T    tmpl.T // parsed by the reference parser (zero if not parsed)
}

func (b boundRule) String() string { return fmt.Sprintf("M%d:%s", b.M+1, b.Rule.String()) }

func ruleSetString(rs []boundRule) string {
	var s []string
	for _, r := range rs {
		s = append(s, r.String())
	}
	return strings.Join(s, " ; ")
}

// recorder Impl: remembers the last call.
type recImpl struct {
	schema *routeSchema
	n      int
	method string
	req    proto.Message
	reply  func(c *dyn.Call) (proto.Message, error)
}

func (r *recImpl) reset() { r.n, r.method, r.req = 0, "", nil }

func (r *recImpl) Unary(c *dyn.Call) (proto.Message, error) {
	r.n++
	r.method = c.Method
	r.req = proto.Clone(c.Req)
	if r.reply != nil {
		return r.reply(c)
	}
	return dynamicpb.NewMessage(c.Desc.Output()), nil
}

func (r *recImpl) Stream(c *dyn.Call) error { r.n++; r.method = c.Method; return nil }

// newRouteMux registers the schema's service with the given service-config rules (in the
// given order) and the gsd method order given by methodOrder (nil = natural).
func (s *routeSchema) newMux(rules []boundRule, methodOrder []int, extra ...larking.MuxOption) (*larking.Mux, *recImpl, error) {
	m, impl, err := s.newMuxNoRegister(rules, extra...)
	if err != nil {
		return nil, nil, err
	}
	return s.registerAll(m, impl, methodOrder)
}

// newMuxNoRegister creates the mux with the rules as service config, nothing registered yet.
func (s *routeSchema) newMuxNoRegister(rules []boundRule, extra ...larking.MuxOption) (*larking.Mux, *recImpl, error) {
	sc := &serviceconfig.Service{Http: &annotations.Http{}}
	for _, br := range rules {
		r := br.Rule
		r.Sel = strings.ReplaceAll(strings.TrimPrefix(s.methods[br.M], "/"), "/", ".")
		sc.Http.Rules = append(sc.Http.Rules, r.Proto())
	}
	opts := []larking.MuxOption{larking.FilesOption(s.reg)}
	if len(rules) > 0 {
		opts = append(opts, larking.ServiceConfigOption(sc))
	}
	opts = append(opts, extra...)
	m, err := larking.NewMux(opts...)
	if err != nil {
		return nil, nil, err
	}
	return m, &recImpl{schema: s}, nil
}

func (s *routeSchema) registerAll(m *larking.Mux, impl *recImpl, methodOrder []int) (*larking.Mux, *recImpl, error) {
	if s.multi {
		order := methodOrder
		if order == nil {
			for i := range s.gsds {
				order = append(order, i)
			}
		}
		for _, i := range order {
			var rerr error
			if p, txt := guard(func() { rerr = m.VerifRegisterService(s.gsds[i], dyn.NewServer(impl)) }); p {
				return nil, nil, &panicError{txt}
			}
			if rerr != nil {
				return nil, nil, rerr
			}
		}
		return m, impl, nil
	}
	gsd := s.gsd
	if methodOrder != nil {
		cp := *s.gsd
		cp.Methods = nil
		for _, i := range methodOrder {
			cp.Methods = append(cp.Methods, s.gsd.Methods[i])
		}
		gsd = &cp
	}
	var rerr error
	if p, txt := guard(func() { rerr = m.VerifRegisterService(gsd, dyn.NewServer(impl)) }); p {
		return nil, nil, &panicError{txt}
	}
	if rerr != nil {
		return nil, nil, rerr
	}
	return m, impl, nil
}

type panicError struct{ text string }

func (p *panicError) Error() string { return "panic: " + p.text }

// serveResult is one in-process HTTP exchange.
type serveResult struct {
	Code     int
	Body     []byte
	Header   http.Header
	Panicked bool
	Panic    string
	Rec      *env.Recorder
}

// serveSimple runs a body-less request through Mux.ServeHTTP.
func serveSimple(m http.Handler, verb, path, rawQuery string) serveResult {
	req := &http.Request{
		Method: verb, URL: &url.URL{Path: path, RawQuery: rawQuery}, Header: http.Header{},
		Body: http.NoBody, Proto: "HTTP/1.1", ProtoMajor: 1, ProtoMinor: 1, Host: "verif.test",
	}
	return serveReq(m, req)
}

func serveReq(m http.Handler, req *http.Request) serveResult {
	rec := env.NewRecorder()
	p, txt := guard(func() { m.ServeHTTP(rec, req) })
	rec.Finish()
	return serveResult{Code: rec.Code, Body: rec.Body.Bytes(), Header: rec.Snap, Panicked: p, Panic: txt, Rec: rec}
}

// expectedFromCapture builds the request message that binding caps (field path -> text)
// must produce: exactly those fields set. ok=false if a typed capture is not convertible.
func (s *routeSchema) expectedFromCapture(caps tmpl.Capture) (proto.Message, bool) {
	msg := dynamicpb.NewMessage(s.reqDesc)
	for fp, text := range caps {
		cur := protoreflect.Message(msg)
		parts := strings.Split(fp, ".")
		for i, p := range parts {
			fd := cur.Descriptor().Fields().ByName(protoreflect.Name(p))
			if fd == nil {
				return nil, false
			}
			if i < len(parts)-1 {
				cur = cur.Mutable(fd).Message()
				continue
			}
			switch fd.Kind() {
			case protoreflect.StringKind:
				cur.Set(fd, protoreflect.ValueOfString(text))
			case protoreflect.Int64Kind:
				v, err := strconv.ParseInt(text, 10, 64)
				if err != nil {
					return nil, false
				}
				cur.Set(fd, protoreflect.ValueOfInt64(v))
			case protoreflect.Int32Kind:
				v, err := strconv.ParseInt(text, 10, 32)
				if err != nil {
					return nil, false
				}
				cur.Set(fd, protoreflect.ValueOfInt32(int32(v)))
			default:
				return nil, false
			}
		}
	}
	return msg, true
}

// implicitTemplate is the reference form of the implicit /Service/Method binding.
func implicitTemplate(fullMethod string) tmpl.T {
	parts := strings.Split(strings.TrimPrefix(fullMethod, "/"), "/")
	return tmpl.T{Segs: []tmpl.Seg{{Kind: tmpl.Lit, Text: parts[0]}, {Kind: tmpl.Lit, Text: parts[1]}}}
}

// verbServes reports whether a rule of kind k serves HTTP method verb.
func verbServes(ruleVerb, verb string) bool { return ruleVerb == "*" || ruleVerb == verb }

// ---- template enumeration -------------------------------------------------------------

type tmplAlphabet struct {
	Mid   []string // forms usable in any position ($ = next free string field)
	Last  []string // forms usable only in the last position
	Verbs []string // "" or "vb"
}

var fullAlphabet = tmplAlphabet{
	Mid:   []string{"a", "bb", "v1", "*", "{$}", "{$=*}", "{$=a/*}", "{n.s}", "{i}", "{small}"},
	Last:  []string{"**", "{$=**}", "{$=a/**}"},
	Verbs: []string{"", "vb", "a"},
}

var smallAlphabet = tmplAlphabet{
	Mid:   []string{"a", "bb", "*", "{$}", "{$=a/*}", "{i}"},
	Last:  []string{"**", "{$=a/**}"},
	Verbs: []string{"", "vb"},
}

// longAlphabet is the reduced alphabet of the long-template family (4+ segments): what is
// enumerated exhaustively here is depth - long shared prefixes, three variables, a deep variable
// followed by further segments, ** after a long prefix - rather than breadth of forms.
var longAlphabet = tmplAlphabet{
	Mid:   []string{"a", "{$}", "{$=a/*}"},
	Last:  []string{"{$=**}", "**"},
	Verbs: []string{"", "vb"},
}

// longTemplates lists every template over longAlphabet with 4..maxSeg segments.
func longTemplates(maxSeg int) []tmpl.T {
	var out []tmpl.T
	for _, t := range enumTemplates(longAlphabet, maxSeg) {
		if len(t.Segs) >= 4 {
			out = append(out, t)
		}
	}
	return out
}

// enumTemplates lists every template with 1..maxSeg segments over the alphabet; every field
// is bound at most once.
func enumTemplates(a tmplAlphabet, maxSeg int) []tmpl.T {
	var out []tmpl.T
	free := []string{"s", "t", "u"}
	var rec func(parts []string, nfree int, used string)
	emit := func(parts []string) {
		for _, v := range a.Verbs {
			s := "/" + strings.Join(parts, "/")
			if v != "" {
				s += ":" + v
			}
			t, class, notes, err := tmpl.Parse(s)
			if err != nil || class != tmpl.WellFormed {
				panic(fmt.Sprintf("harness: generated template %q is not well-formed: %v %v", s, err, notes))
			}
			out = append(out, t)
		}
	}
	rec = func(parts []string, nfree int, used string) {
		if len(parts) > 0 {
			emit(parts)
		}
		if len(parts) == maxSeg {
			return
		}
		add := func(form string, lastOnly bool) {
			nf, us := nfree, used
			if strings.Contains(form, "$") {
				if nf >= len(free) {
					return
				}
				form = strings.Replace(form, "$", free[nf], 1)
				nf++
			} else if strings.HasPrefix(form, "{") {
				name := strings.TrimPrefix(form, "{")
				if k := strings.IndexAny(name, "=}"); k >= 0 {
					name = name[:k]
				}
				if strings.Contains(us, "|"+name+"|") {
					return
				}
				us += "|" + name + "|"
			}
			np := append(append([]string{}, parts...), form)
			if lastOnly {
				emit(np)
				return
			}
			rec(np, nf, us)
		}
		for _, f := range a.Mid {
			add(f, false)
		}
		for _, f := range a.Last {
			add(f, true)
		}
	}
	rec(nil, 0, "")
	return out
}

// ---- probe generation -----------------------------------------------------------------

// probesFor returns the deduplicated probe paths for a rule set: every instantiation of every
// template with near-miss variants, plus a small universal set.
func probesFor(ts []tmpl.T, fills []string, deep int, nearMiss bool) []string {
	seen := map[string]struct{}{}
	var out []string
	add := func(p string) {
		if _, ok := seen[p]; ok {
			return
		}
		seen[p] = struct{}{}
		out = append(out, p)
	}
	for _, t := range ts {
		t.Instantiate(fills, deep, func(p string, _ tmpl.Capture) {
			add(p)
			if !nearMiss {
				return
			}
			add(p + "/")
			base, verb := p, ""
			if t.Verb != "" {
				base = strings.TrimSuffix(p, ":"+t.Verb)
				verb = ":" + t.Verb
				add(base) // verb dropped
			}
			segs := strings.Split(base[1:], "/")
			// one segment shorter / longer
			if len(segs) > 1 {
				add("/" + strings.Join(segs[:len(segs)-1], "/") + verb)
				add("/" + strings.Join(segs[1:], "/") + verb)
			}
			for _, x := range []string{"x", "a"} {
				add(base + "/" + x + verb)
				add("/" + x + base + verb)
			}
			// other verb suffixes
			for _, v := range []string{":vb", ":zz", ":a"} {
				if v != verb {
					add(base + v)
				}
				if verb != "" {
					add(base + verb + v)
				}
			}
			// ':' in every position
			for k := 1; k < len(segs); k++ {
				add("/" + strings.Join(segs[:k], "/") + ":" + strings.Join(segs[k:], "/") + verb)
			}
			for k := 0; k < len(segs); k++ {
				if up := strings.ToUpper(segs[k]); up != segs[k] {
					cp := append([]string{}, segs...)
					cp[k] = up
					add("/" + strings.Join(cp, "/") + verb)
				}
			}
			for k := 0; k < len(segs); k++ {
				cp := append([]string{}, segs...)
				cp[k] = cp[k] + ":x"
				add("/" + strings.Join(cp, "/") + verb)
				cp[k] = ":" + segs[k]
				add("/" + strings.Join(cp, "/") + verb)
			}
		})
	}
	// typed variables: integers outside the field's range but inside 64 bits, and beyond 64 bits
	for _, t := range ts {
		typed := false
		for _, v := range t.Vars() {
			if v == "i" || v == "small" {
				typed = true
			}
		}
		if typed && nearMiss {
			t.Instantiate([]string{"4294967338", "-2147483649", "9223372036854775808"}, 1, func(p string, _ tmpl.Capture) { add(p) })
		}
	}
	if nearMiss {
		uni := []string{"a", "bb", "v1", "x", "7", "é"}
		for _, a := range uni {
			add("/" + a)
			add("/" + a + ":vb")
			for _, b := range uni {
				add("/" + a + "/" + b)
				add("/" + a + "/" + b + ":vb")
			}
		}
		add("/")
		add("//")
		add("/a//bb")
	}
	sort.Strings(out)
	return out
}
