package props

import (
	"bytes"
	"context"
	"fmt"
	"io"
	"net"
	"net/http"
	"os"
	"strings"
	"sync"
	"time"

	"google.golang.org/grpc"
	"google.golang.org/grpc/codes"
	"google.golang.org/grpc/credentials/insecure"
	_ "google.golang.org/grpc/encoding/gzip" // client-side gzip for the real-transport passes
	"google.golang.org/grpc/metadata"
	"google.golang.org/grpc/reflection"
	rpb "google.golang.org/grpc/reflection/grpc_reflection_v1alpha"
	"google.golang.org/grpc/status"
	"google.golang.org/protobuf/encoding/protojson"
	"google.golang.org/protobuf/proto"
	"google.golang.org/protobuf/reflect/protoreflect"
	"google.golang.org/protobuf/reflect/protoregistry"
	"google.golang.org/protobuf/types/dynamicpb"

	"larking.io/larking"

	"verif/dyn"
	"verif/ref/wire"
	"verif/report"
)

// Conformance passes: the in-process environment (recorder, scripted body, scripted
// back-end) is itself a model of net/http and grpc-go. Here the same scripts run end to end:
// larking.NewServer on a loopback listener (h2c), a real grpc-go client / net/http client in
// front, real grpc-go servers with the reflection service behind. The property oracle is
// evaluated on the real run, and its observation vector is compared with the in-process one.

func init() {
	c10Conformance = runC10Conformance
	c11Conformance = runC11Conformance
	// the free-running -race pass of C10: every script end to end over real transports, so
	// that larking's pump goroutine really runs concurrently with the handler
	raceExtra["C10"] = func(iters int, thorough bool) int {
		real, err := newC10Real()
		if err != nil {
			fmt.Fprintf(os.Stderr, "FREE-RUN FAIL conformance setup: %v\n", err)
			return 0
		}
		defer real.close()
		n := 0
		rounds := iters / 25
		if rounds < 2 {
			rounds = 2
		}
		for k := 0; k < rounds; k++ {
			for _, sc := range c10Scripts(thorough) {
				if !sc.HalfClose && sc.Front == "http" {
					continue
				}
				if sc.Front == "grpc" {
					vcc := real.via
					if sc.Opts {
						vcc = real.viaOpts
					}
					real.grpcCall(vcc, sc)
				} else {
					real.httpCall(sc) //nolint
				}
				n++
			}
			// the client fails first
			for _, shape := range []string{"cs", "ss", "bidi"} {
				real.cancelCall(real.via, shape)
				real.cancelCall(real.viaOpts, shape)
				n += 2
			}
		}
		return n
	}
}

type realServer struct {
	addr string
	stop func()
}

// startBackend serves the given dynamic services with grpc-go, plus grpc-go's own reflection
// service implementation over the given descriptors.
func startBackend(files *protoregistry.Files, sds []protoreflect.ServiceDescriptor, impl dyn.Impl) (*realServer, error) {
	lis, err := net.Listen("tcp", "127.0.0.1:0")
	if err != nil {
		return nil, err
	}
	s := grpc.NewServer()
	for _, sd := range sds {
		s.RegisterService(dyn.ServiceDesc(sd), dyn.NewServer(impl))
	}
	rpb.RegisterServerReflectionServer(s, reflection.NewServer(reflection.ServerOptions{Services: s, DescriptorResolver: files, ExtensionResolver: protoregistry.GlobalTypes}))
	go s.Serve(lis) //nolint
	return &realServer{addr: lis.Addr().String(), stop: s.Stop}, nil
}

func startFront(m *larking.Mux) (*realServer, error) {
	lis, err := net.Listen("tcp", "127.0.0.1:0")
	if err != nil {
		return nil, err
	}
	srv, err := larking.NewServer(m)
	if err != nil {
		return nil, err
	}
	go srv.Serve(lis) //nolint
	return &realServer{addr: lis.Addr().String(), stop: func() { srv.Close() }}, nil
}

func dial(addr string) *grpc.ClientConn {
	cc, err := grpc.NewClient(addr, grpc.WithTransportCredentials(insecure.NewCredentials()))
	if err != nil {
		panic(err)
	}
	return cc
}

// ---- C10: scripts with real grpc-go on both sides ----------------------------------------

type scriptedBackend struct {
	t  *tSchema
	mu sync.Mutex
	sc c10Script

	got   [][]byte
	eof   bool
	md    metadata.MD
	calls int
}

func (b *scriptedBackend) set(sc c10Script) {
	b.mu.Lock()
	b.sc, b.got, b.eof, b.md, b.calls = sc, nil, false, nil, 0
	b.mu.Unlock()
}

func (b *scriptedBackend) replies(desc protoreflect.MessageDescriptor, k int) []proto.Message {
	var out []proto.Message
	for i := 0; i < k; i++ {
		m := dynamicpb.NewMessage(desc)
		m.Set(desc.Fields().ByName("b"), protoreflect.ValueOfBytes([]byte(fmt.Sprintf("reply-%d", i))))
		out = append(out, m)
	}
	return out
}

func (b *scriptedBackend) Unary(c *dyn.Call) (proto.Message, error) {
	b.mu.Lock()
	defer b.mu.Unlock()
	b.calls++
	b.md, _ = metadata.FromIncomingContext(c.Ctx)
	b.got = append(b.got, detMarshal(c.Req))
	if b.sc.Code != codes.OK {
		return nil, c10Status(b.sc).Err()
	}
	rs := b.replies(c.Desc.Output(), b.sc.K)
	if len(rs) > 0 {
		return rs[0], nil
	}
	return dynamicpb.NewMessage(c.Desc.Output()), nil
}

func (b *scriptedBackend) Stream(c *dyn.Call) error {
	b.mu.Lock()
	sc := b.sc
	b.calls++
	b.md, _ = metadata.FromIncomingContext(c.Stream.Context())
	b.mu.Unlock()
	rs := b.replies(c.Desc.Output(), sc.K) // the script as it was when the call arrived (a call the client abandoned may outlive it)
	reads, sent := 0, 0
	for {
		if !sc.ReadAll && reads >= sc.R {
			break
		}
		m := dynamicpb.NewMessage(c.Desc.Input())
		err := c.Stream.RecvMsg(m)
		if err == io.EOF {
			b.mu.Lock()
			b.eof = true
			b.mu.Unlock()
			break
		}
		if err != nil {
			return err
		}
		wireb := detMarshal(m)
		b.mu.Lock()
		b.got = append(b.got, wireb)
		b.mu.Unlock()
		reads++
		if sc.PingPong && sent < len(rs) {
			if err := c.Stream.SendMsg(rs[sent]); err != nil {
				return err
			}
			sent++
		}
	}
	if c.Desc.IsStreamingServer() {
		for ; sent < len(rs); sent++ {
			if err := c.Stream.SendMsg(rs[sent]); err != nil {
				return err
			}
		}
	}
	if sc.Code != codes.OK {
		return c10Status(sc).Err()
	}
	if !c.Desc.IsStreamingServer() {
		if len(rs) > 0 {
			return c.Stream.SendMsg(rs[0])
		}
		return c.Stream.SendMsg(dynamicpb.NewMessage(c.Desc.Output()))
	}
	return nil
}

type c10Real struct {
	t       *tSchema
	be      *scriptedBackend
	backend *realServer
	front   *realServer
	direct  *grpc.ClientConn // client -> back-end directly
	via     *grpc.ClientConn // client -> larking
	becc    *grpc.ClientConn
	// the same back-end behind a mux with pass-through interceptors and a stats handler
	frontOpts *realServer
	viaOpts   *grpc.ClientConn
	becc2     *grpc.ClientConn
}

func newC10Real() (*c10Real, error) {
	t, err := newTSchema()
	if err != nil {
		return nil, err
	}
	reg := &protoregistry.Files{}
	if err := registerFileWithDeps(reg, t.fd); err != nil {
		return nil, err
	}
	be := &scriptedBackend{t: t}
	bsrv, err := startBackend(reg, []protoreflect.ServiceDescriptor{t.sd}, be)
	if err != nil {
		return nil, err
	}
	m, err := larking.NewMux()
	if err != nil {
		return nil, err
	}
	becc := dial(bsrv.addr)
	ctx, cancel := context.WithTimeout(context.Background(), 120*time.Second)
	defer cancel()
	if err := m.RegisterConn(ctx, becc); err != nil {
		return nil, fmt.Errorf("RegisterConn against a real grpc-go reflection server: %w", err)
	}
	fsrv, err := startFront(m)
	if err != nil {
		return nil, err
	}
	// a second front: the same back-end behind a mux with pass-through interceptors and a stats handler
	mo, err := larking.NewMux(c15PassThroughOpts()...)
	if err != nil {
		return nil, err
	}
	becc2 := dial(bsrv.addr)
	if err := mo.RegisterConn(ctx, becc2); err != nil {
		return nil, fmt.Errorf("RegisterConn (mux with options): %w", err)
	}
	fsrvo, err := startFront(mo)
	if err != nil {
		return nil, err
	}
	return &c10Real{t: t, be: be, backend: bsrv, front: fsrv, direct: dial(bsrv.addr), via: dial(fsrv.addr), becc: becc,
		frontOpts: fsrvo, viaOpts: dial(fsrvo.addr), becc2: becc2}, nil
}

func (r *c10Real) close() {
	r.viaOpts.Close()
	r.becc2.Close()
	r.frontOpts.stop()
	r.direct.Close()
	r.via.Close()
	r.becc.Close()
	r.front.stop()
	r.backend.stop()
}

func registerFileWithDeps(reg *protoregistry.Files, fd protoreflect.FileDescriptor) error {
	if _, err := reg.FindFileByPath(fd.Path()); err == nil {
		return nil
	}
	imps := fd.Imports()
	for i := 0; i < imps.Len(); i++ {
		if err := registerFileWithDeps(reg, imps.Get(i).FileDescriptor); err != nil {
			return err
		}
	}
	return reg.RegisterFile(fd)
}

// transcript of one call as seen from both ends
type c10Transcript struct {
	BackendGot  int
	BackendMsgs string // the messages the back-end received, hex, in order
	BackendEOF  bool
	BackendMD   string
	Replies     []string
	Code        codes.Code
	Msg         string
	Details     int
	Err         string
}

func (t c10Transcript) String() string {
	return fmt.Sprintf("backend-got=%d [%s] eof=%v md=%s replies=%v status=%v %q details=%d %s", t.BackendGot, t.BackendMsgs, t.BackendEOF, t.BackendMD, t.Replies, t.Code, t.Msg, t.Details, t.Err)
}

func c10MD(sc c10Script) metadata.MD {
	switch sc.MD {
	case "ascii":
		return metadata.Pairs("x-custom", "v1")
	case "two":
		return metadata.Pairs("x-custom", "v1", "x-custom", "v2")
	case "bin":
		return metadata.Pairs("x-custom-bin", "\xfb\xff\x00")
	}
	return nil
}

// grpcCall runs script sc through cc with a real grpc-go client.
func (r *c10Real) grpcCall(cc *grpc.ClientConn, sc c10Script) c10Transcript {
	r.be.set(sc)
	var tr c10Transcript
	ctx, cancel := context.WithTimeout(context.Background(), 120*time.Second)
	defer cancel()
	if md := c10MD(sc); md != nil {
		ctx = metadata.NewOutgoingContext(ctx, md)
	}
	method := "/vs.T/" + shapeMethod[sc.Shape]
	var copts []grpc.CallOption
	if sc.Gzip {
		copts = append(copts, grpc.UseCompressor("gzip"))
	}
	finish := func(err error) {
		st, _ := status.FromError(err)
		if err == io.EOF {
			st = status.New(codes.OK, "")
		}
		tr.Code, tr.Msg, tr.Details = st.Code(), st.Message(), len(st.Details())
	}
	if sc.Shape == "unary" {
		reply := dynamicpb.NewMessage(r.t.rsp)
		err := cc.Invoke(ctx, method, c10Msg(r.t, 0), reply, copts...)
		if err == nil {
			tr.Replies = append(tr.Replies, string(reply.Get(r.t.rsp.Fields().ByName("b")).Bytes()))
		}
		finish(err)
	} else {
		desc := &grpc.StreamDesc{ClientStreams: sc.Shape != "ss", ServerStreams: sc.Shape != "cs"}
		st, err := cc.NewStream(ctx, desc, method, copts...)
		if err != nil {
			finish(err)
			tr.Err = "NewStream: " + err.Error()
		} else {
			for i := 0; i < sc.N; i++ {
				if err := st.SendMsg(c10Msg(r.t, i)); err != nil {
					break
				}
				if sc.PingPong && sc.Shape == "bidi" && i < sc.K && (sc.ReadAll || i < sc.R) {
					reply := dynamicpb.NewMessage(r.t.rsp)
					if err := st.RecvMsg(reply); err != nil {
						break
					}
					tr.Replies = append(tr.Replies, string(reply.Get(r.t.rsp.Fields().ByName("b")).Bytes()))
				}
			}
			if sc.HalfClose {
				st.CloseSend() //nolint
			}
			for {
				reply := dynamicpb.NewMessage(r.t.rsp)
				err := st.RecvMsg(reply)
				if err != nil {
					finish(err)
					break
				}
				tr.Replies = append(tr.Replies, string(reply.Get(r.t.rsp.Fields().ByName("b")).Bytes()))
				if sc.Shape == "cs" {
					// unary reply: grpc-go's RecvMsg has already consumed the status
					finish(nil)
					break
				}
			}
			if !sc.HalfClose {
				st.CloseSend() //nolint
			}
		}
	}
	// give the back-end handler a moment to finish recording (it may still be returning)
	deadline := time.Now().Add(2 * time.Second)
	for time.Now().Before(deadline) {
		r.be.mu.Lock()
		done := r.be.calls > 0 || sc.Code != codes.OK
		r.be.mu.Unlock()
		if done {
			break
		}
		time.Sleep(time.Millisecond)
	}
	r.be.mu.Lock()
	tr.BackendGot, tr.BackendEOF = len(r.be.got), r.be.eof
	tr.BackendMsgs = fmt.Sprintf("%x", r.be.got)
	tr.BackendMD = fmt.Sprintf("%q/%q", r.be.md.Get("x-custom"), r.be.md.Get("x-custom-bin"))
	r.be.mu.Unlock()
	return tr
}

// poison sends, through cc, a gzip message that inflates to 5 MiB (above the 4 MiB default
// receive limit of larking and of grpc-go): the call is refused - what it leaves behind in
// larking's pools must not be visible to the calls that follow.
func (r *c10Real) poison(cc *grpc.ClientConn) {
	r.be.set(c10Script{Shape: "unary", K: 1})
	ctx, cancel := context.WithTimeout(context.Background(), 120*time.Second)
	defer cancel()
	reply := dynamicpb.NewMessage(r.t.rsp)
	_ = cc.Invoke(ctx, "/vs.T/Unary", r.t.newReq("", make([]byte, 5<<20), 0), reply, grpc.UseCompressor("gzip"))
}

// cancelCall: the client fails first - it opens a stream through cc, sends one message
// (bidi: takes one reply), then cancels its context and drains. Only exercised in the
// free-running -race pass (the pump goroutine and the forwarder both unwind).
func (r *c10Real) cancelCall(cc *grpc.ClientConn, shape string) {
	r.be.set(c10Script{Shape: shape, ReadAll: true, R: 1, K: 3, PingPong: shape == "bidi"})
	ctx, cancel := context.WithCancel(context.Background())
	defer cancel()
	desc := &grpc.StreamDesc{ClientStreams: shape != "ss", ServerStreams: shape != "cs"}
	st, err := cc.NewStream(ctx, desc, "/vs.T/"+shapeMethod[shape])
	if err != nil {
		return
	}
	reply := dynamicpb.NewMessage(r.t.rsp)
	_ = st.SendMsg(r.t.newReq("", []byte("msg-0"), 0))
	if shape == "ss" {
		_ = st.CloseSend()
	}
	if shape != "cs" {
		_ = st.RecvMsg(reply)
	}
	cancel()
	for i := 0; i < 100; i++ {
		if err := st.RecvMsg(reply); err != nil {
			break
		}
	}
}

// httpCall runs script sc through larking's HTTP/JSON front with a real net/http client.
func (r *c10Real) httpCall(sc c10Script) (c10Transcript, error) {
	r.be.set(sc)
	var tr c10Transcript
	var body bytes.Buffer
	for i := 0; i < sc.N; i++ {
		js, _ := protojson.Marshal(c10Msg(r.t, i))
		body.Write(js)
	}
	// io.MultiReader hides the length: the body is sent chunked, as a streaming client does
	// (with Content-Length: 0 larking builds one message from the URL alone - see DESIGN.md)
	faddr := r.front.addr
	if sc.Opts {
		faddr = r.frontOpts.addr
	}
	req, err := http.NewRequest("POST", "http://"+faddr+shapeRoute[sc.Shape], io.MultiReader(&body))
	if err != nil {
		return tr, err
	}
	req.Header.Set("Content-Type", "application/json")
	// what many HTTP/1.1 clients and intermediaries send on every request; it describes this
	// connection and is nobody else's business
	req.Header.Set("Connection", "keep-alive")
	req.Header.Set("Keep-Alive", "timeout=5")
	for k, vs := range c10MD(sc) {
		for _, v := range vs {
			if strings.HasSuffix(k, "-bin") {
				req.Header.Add(k, "+/8A")
			} else {
				req.Header.Add(k, v)
			}
		}
	}
	cl := &http.Client{Timeout: 120 * time.Second}
	rsp, err := cl.Do(req)
	if err != nil {
		return tr, err
	}
	defer rsp.Body.Close()
	b, _ := io.ReadAll(rsp.Body)
	if rsp.StatusCode == 200 {
		objs, _ := splitJSONStream(b)
		for _, o := range objs {
			m := dynamicpb.NewMessage(r.t.rsp)
			if protojson.Unmarshal(o, m) == nil {
				tr.Replies = append(tr.Replies, string(m.Get(r.t.rsp.Fields().ByName("b")).Bytes()))
			}
		}
		tr.Code = codes.OK
	} else {
		cr := &callResult{HTTPCode: rsp.StatusCode, Header: rsp.Header, Body: b}
		cr.parseHTTPStatus()
		if cr.Status != nil {
			tr.Code, tr.Msg, tr.Details = codes.Code(cr.Status.Code), cr.Status.Message, len(cr.Status.Details)
		} else {
			tr.Err = fmt.Sprintf("HTTP %d %s", rsp.StatusCode, truncS(string(b), 80))
		}
	}
	time.Sleep(2 * time.Millisecond)
	r.be.mu.Lock()
	tr.BackendGot, tr.BackendEOF = len(r.be.got), r.be.eof
	tr.BackendMsgs = fmt.Sprintf("%x", r.be.got)
	tr.BackendMD = fmt.Sprintf("%q/%q", r.be.md.Get("x-custom"), r.be.md.Get("x-custom-bin"))
	r.be.mu.Unlock()
	return tr, nil
}

func runC10Conformance(c *Ctx) {
	r := c.Run
	real, err := newC10Real()
	if err != nil {
		r.Violation(report.Violation{Oracle: "conformance-setup", Key: "conformance-setup C10", Case: map[string]any{"what": "real grpc-go back-end + larking.NewServer + RegisterConn"}, Note: err.Error()})
		return
	}
	defer real.close()
	var validated int64
	for _, sc := range append(c10Scripts(c.Thorough()), c10CodeSweep()...) {
		if !sc.HalfClose && sc.Front == "http" {
			continue // a net/http client cannot keep the request open after reading the response
		}
		var via c10Transcript
		direct := real.grpcCall(real.direct, sc)
		if sc.Front == "grpc" {
			vcc := real.via
			if sc.Opts {
				vcc = real.viaOpts
			}
			if sc.Gzip {
				real.poison(vcc) // a refused oversized gzip message first: it must leave nothing behind
			}
			via = real.grpcCall(vcc, sc)
		} else {
			via, err = real.httpCall(sc)
			if err != nil {
				r.Violation(report.Violation{Oracle: "conformance-front-call-failed", Key: "conformance-front-call-failed " + sc.name(), Case: sc, Note: err.Error()})
				continue
			}
			// an HTTP client has no half-close/metadata/detail channel identical to gRPC's: compare what it has
			direct.Details, via.Details = 0, 0
			if sc.Code != codes.OK && len(direct.Replies) > 0 {
				// an error after HTTP stream messages: the 200 is already on the wire, framing not demanded
				direct.Replies, via.Replies = nil, nil
				direct.Code, direct.Msg, via.Code, via.Msg = 0, "", 0, ""
			}
			if sc.Shape == "unary" || sc.Shape == "ss" {
				direct.BackendEOF, via.BackendEOF = false, false
			}
		}
		validated++
		r.Eval(1)
		if direct.String() != via.String() {
			r.Outcome("FAIL:conformance-not-transparent")
			r.Violation(report.Violation{Oracle: "real-transport-not-transparent", Key: "real-transport-not-transparent " + sc.name(), Case: sc,
				Note: fmt.Sprintf("script %s with real grpc-go on both sides:\n directly:        %s\n through larking: %s", sc.name(), direct, via)})
			continue
		}
		r.Outcome("conformance:transparent-" + sc.Front)
	}
	r.AddValidated(validated)
	r.Set("conformance", map[string]any{"what": "every call script re-run end to end: real grpc-go client (or net/http client) -> larking.NewServer on loopback h2c -> RegisterConn -> real grpc-go server with grpc-go's reflection service; transcript through larking compared with the transcript of the same script run directly against the back-end", "scripts": validated})
}

// ---- C11: histories with real grpc-go back-ends ------------------------------------------

func runC11Conformance(c *Ctx, w *bWorld) {
	r := c.Run
	depth := 2
	if c.Thorough() {
		depth = 3
	}
	// three real back-ends: b1 S1, b2 S1+S2, b3 S2 (b2's descriptor change is not re-run here)
	type rb struct {
		srv *realServer
		cc  *grpc.ClientConn
	}
	mk := func(name string, fds []protoreflect.FileDescriptor) (rb, error) {
		reg := &protoregistry.Files{}
		var sds []protoreflect.ServiceDescriptor
		for _, fd := range fds {
			if err := registerFileWithDeps(reg, fd); err != nil {
				return rb{}, err
			}
			sds = append(sds, fd.Services().Get(0))
		}
		srv, err := startBackend(reg, sds, &tagImpl{tag: name, w: w})
		if err != nil {
			return rb{}, err
		}
		return rb{srv, dial(srv.addr)}, nil
	}
	var bs [3]rb
	var err error
	if bs[0], err = mk("b1", []protoreflect.FileDescriptor{w.f1}); err == nil {
		if bs[1], err = mk("b2", []protoreflect.FileDescriptor{w.f1, w.f2}); err == nil {
			bs[2], err = mk("b3", []protoreflect.FileDescriptor{w.f2})
		}
	}
	if err != nil {
		r.Violation(report.Violation{Oracle: "conformance-setup", Key: "conformance-setup C11", Case: map[string]any{}, Note: err.Error()})
		return
	}
	defer func() {
		for _, b := range bs {
			if b.cc != nil {
				b.cc.Close()
				b.srv.stop()
			}
		}
	}()
	ops := []int{opRegLocal, opRegB1, opRegB2, opRegB3, opDropB1, opDropB2, opDropB3}
	probes := w.probes()
	var histories [][]int
	var rec func(h []int)
	rec = func(h []int) {
		if len(h) > 0 {
			histories = append(histories, append([]int(nil), h...))
		}
		if len(h) == depth {
			return
		}
		for _, o := range ops {
			rec(append(h, o))
		}
	}
	rec(nil)
	var validated int64
	for _, h := range histories {
		m, err := larking.NewMux(larking.FilesOption(w.reg), c11Config())
		if err != nil {
			panic(err)
		}
		ref := newRefRegistry()
		local := &tagImpl{tag: "local", w: w}
		localReg := false
		bad := ""
		for _, op := range h {
			if op == opRegLocal && localReg {
				continue
			}
			want := ref.apply(op)
			got := ""
			ctx, cancel := context.WithTimeout(context.Background(), 10*time.Second)
			switch op {
			case opRegLocal:
				localReg = true
				if err := m.VerifRegisterService(w.gsd1, dyn.NewServer(local)); err != nil {
					got = "error: " + err.Error()
				}
			case opRegB1, opRegB2, opRegB3:
				if err := m.RegisterConn(ctx, bs[op-opRegB1].cc); err != nil {
					got = "error: " + err.Error()
				}
			case opDropB1, opDropB2, opDropB3:
				got = fmt.Sprint(m.DropConn(ctx, bs[op-opDropB1].cc))
			}
			cancel()
			if got != want {
				bad = fmt.Sprintf("%s returned %q, reference says %q", opNames[op], got, want)
			}
		}
		// probes (the handler pick is left to math/rand here: every answer must be a live owner)
		for _, pr := range probes {
			if bad != "" {
				break
			}
			owners := ref.owners(pr.svc)
			for k := 0; k < 4; k++ {
				served, code, pan := pr.run(m)
				switch {
				case pan != "":
					bad = pr.name + " panicked: " + pan
				case len(owners) == 0 && served != "":
					bad = fmt.Sprintf("%s answered by %q although vb.%s has no live back-end", pr.name, served, pr.svc)
				case len(owners) > 0 && served == "":
					bad = fmt.Sprintf("%s: status %d although vb.%s is served by %v", pr.name, code, pr.svc, owners)
				case len(owners) > 0:
					ok := false
					for _, o := range owners {
						if o == served {
							ok = true
						}
					}
					if !ok {
						bad = fmt.Sprintf("%s answered by %q, live owners are %v", pr.name, served, owners)
					}
				}
			}
		}
		validated++
		r.Eval(1)
		if bad != "" {
			var on []string
			for _, o := range h {
				on = append(on, opNames[o])
			}
			r.Outcome("FAIL:conformance-real-backends")
			r.Violation(report.Violation{Oracle: "real-backends-disagree", Key: fmt.Sprintf("real-backends-disagree history=%v", h), Case: c11Case{History: h, Ops: on}, Note: "with real grpc-go back-ends: " + bad})
			continue
		}
		r.Outcome("conformance:history-ok")
	}
	r.AddValidated(validated)
	r.Set("conformance", map[string]any{"what": fmt.Sprintf("every history of depth <= %d over {RegisterService, RegisterConn x3, DropConn x3} re-run with three real grpc-go servers (grpc-go's own reflection service, real data-plane calls) behind the Mux", depth), "histories": validated})
}

// ---- C05 / C06: real grpc-go and net/http clients against larking.NewServer ---------------

// runC05Conformance: every code × message class (× details) through a real grpc-go client; the
// client-side status (status.FromError) must equal what the handler returned, and must equal
// what the in-process decoders of ref/wire recovered for the same case.
func runC05Conformance(c *Ctx) {
	r := c.Run
	t, err := newTSchema()
	if err != nil {
		panic(err)
	}
	m, impl, err := t.newMux()
	if err != nil {
		panic(err)
	}
	var mu sync.Mutex
	_ = mu
	front, err := startFront(m)
	if err != nil {
		r.Violation(report.Violation{Oracle: "conformance-setup", Key: "conformance-setup C05", Case: map[string]any{}, Note: err.Error()})
		return
	}
	defer front.stop()
	cc := dial(front.addr)
	defer cc.Close()
	inproc := newC05Env()
	msgs := []string{"", "plain", "a%b é\n", "100%", "\x7f", "tab\there", strings.Repeat("y", 122) + "é", " lead and trail ", strings.Repeat("x", 4060), strings.Repeat("日", 700)}
	var validated int64
	for _, code := range c05Codes {
		if code > 1<<31-1 {
			// grpc-go's client parses grpc-status with ParseInt(…, 32) and turns larger values
			// into its own Internal error; that is the client's limit, not larking's output
			// (the in-process decoder checks the decimal value itself).
			continue
		}
		for _, msg := range msgs {
			for d := 0; d <= 2; d += 2 {
				for _, shape := range []string{"unary", "ss"} {
					tc := c05Case{Proto: "grpc", Shape: shape, Code: code, Message: msg, Details: d}
					after := 0
					if shape == "ss" {
						after = 1
						tc.After = 1
					}
					herr := c05Err(&tc)
					var replies []proto.Message
					for i := 0; i < after; i++ {
						replies = append(replies, t.newRsp("", []byte("r"), 0))
					}
					impl.reset(hScript{RecvN: -1, Replies: replies, Err: herr, ErrAfter: after})
					ctx, cancel := context.WithTimeout(context.Background(), 120*time.Second)
					var gerr error
					nReplies := 0
					if shape == "unary" {
						gerr = cc.Invoke(ctx, "/vs.T/Unary", t.newReq("", []byte("q"), 0), dynamicpb.NewMessage(t.rsp))
					} else {
						st, err := cc.NewStream(ctx, &grpc.StreamDesc{ServerStreams: true}, "/vs.T/SS")
						if err == nil {
							err = st.SendMsg(t.newReq("", []byte("q"), 0))
						}
						if err == nil {
							err = st.CloseSend()
						}
						for err == nil {
							err = st.RecvMsg(dynamicpb.NewMessage(t.rsp))
							if err == nil {
								nReplies++
							}
						}
						gerr = err
					}
					timedOut := ctx.Err() != nil
					cancel()
					if timedOut {
						r.CapHit("a real-transport call did not finish within 120 s (machine load); not counted")
						continue
					}
					validated++
					r.Eval(1)
					st, _ := status.FromError(gerr)
					realObs := fmt.Sprintf("code=%d msg=%q details=%d replies=%d", uint32(st.Code()), st.Message(), len(st.Details()), nReplies)
					wantObs := fmt.Sprintf("code=%d msg=%q details=%d replies=%d", code, msg, d, after)
					// the in-process model of the same case
					oracle, note := inproc.exec(&tc)
					key := fmt.Sprintf("shape=%s code=%d details=%d msg=%q", shape, code, d, truncS(msg, 30))
					switch {
					case realObs != wantObs:
						r.Outcome("FAIL:real-grpc-client-status")
						r.Violation(report.Violation{Oracle: "real-grpc-client-status", Key: "real-grpc-client-status " + key, Case: tc, Note: fmt.Sprintf("handler returned %s; a real grpc-go client over h2c observed %s", wantObs, realObs)})
					case oracle != "":
						r.Outcome("FAIL:model-disagrees-with-real-transport")
						r.Violation(report.Violation{Oracle: "model-disagrees-with-real-transport", Key: "model-disagrees-with-real-transport " + key, Case: tc, Note: "real grpc-go client sees the right status but the in-process decoders report: " + oracle + " " + note})
					default:
						r.Outcome("conformance:grpc-go-client-agrees")
					}
				}
			}
		}
	}
	r.AddValidated(validated)
	r.Set("conformance", map[string]any{"what": "every status code × 8 message classes × {0,2} details × {unary, after one reply} through a real grpc-go client over loopback h2c (larking.NewServer); status.FromError must equal the handler's status and the in-process decoders must agree", "cases": validated})
}

// runC06Conformance: client-streaming and bidi sequences through real clients (grpc-go over
// h2c; net/http with a chunked JSON body): the handler log must equal the sent sequence followed
// by io.EOF, exactly as the scripted-reader model prescribes for the complete (untruncated) case.
func runC06Conformance(c *Ctx) {
	r := c.Run
	t, err := newTSchema()
	if err != nil {
		panic(err)
	}
	m, impl, err := t.newMux()
	if err != nil {
		panic(err)
	}
	front, err := startFront(m)
	if err != nil {
		r.Violation(report.Violation{Oracle: "conformance-setup", Key: "conformance-setup C06", Case: map[string]any{}, Note: err.Error()})
		return
	}
	defer front.stop()
	cc := dial(front.addr)
	defer cc.Close()
	var validated int64
	seqs := [][]int{{}, {0}, {5}, {0, 0}, {1, 5}, {5, 0, 1}, {300}, {70, 70, 0}}
	for _, in := range seqs {
		for _, transport := range []string{"grpc", "grpc-gzip", "http-json", "http-proto"} {
			for _, shape := range []string{"cs", "bidi"} {
				var sent []proto.Message
				for i, sz := range in {
					sent = append(sent, t.newReq("", append([]byte(fmt.Sprintf("m%d:", i)), c06Payload(i, sz)...), 0))
				}
				replies := []proto.Message{t.newRsp("", []byte("r0"), 0), t.newRsp("", nil, 0)}
				impl.reset(hScript{RecvN: -1, Replies: replies})
				method := map[string]string{"cs": "CS", "bidi": "Bidi"}[shape]
				gotReplies := 0
				ctx, cancel := context.WithTimeout(context.Background(), 120*time.Second)
				var callErr error
				switch transport {
				case "grpc", "grpc-gzip":
					var opts []grpc.CallOption
					if transport == "grpc-gzip" {
						opts = append(opts, grpc.UseCompressor("gzip"))
					}
					st, err := cc.NewStream(ctx, &grpc.StreamDesc{ClientStreams: true, ServerStreams: shape == "bidi"}, "/vs.T/"+method, opts...)
					if err != nil {
						callErr = err
						break
					}
					for _, mm := range sent {
						if err := st.SendMsg(mm); err != nil {
							callErr = err
						}
					}
					st.CloseSend() //nolint
					for {
						err := st.RecvMsg(dynamicpb.NewMessage(t.rsp))
						if err != nil {
							if err != io.EOF {
								callErr = err
							}
							break
						}
						gotReplies++
						if shape == "cs" {
							break
						}
					}
				default:
					var body bytes.Buffer
					for _, mm := range sent {
						if transport == "http-json" {
							js, _ := protojson.Marshal(mm)
							body.Write(js)
						} else {
							pb, _ := proto.Marshal(mm)
							body.Write(refVarint(uint64(len(pb))))
							body.Write(pb)
						}
					}
					req, _ := http.NewRequestWithContext(ctx, "POST", "http://"+front.addr+shapeRoute[shape], io.MultiReader(&body))
					if transport == "http-json" {
						req.Header.Set("Content-Type", "application/json")
					} else {
						req.Header.Set("Content-Type", "application/protobuf")
					}
					rsp, err := http.DefaultClient.Do(req)
					if err != nil {
						callErr = err
						break
					}
					b, _ := io.ReadAll(rsp.Body)
					rsp.Body.Close()
					if rsp.StatusCode != 200 {
						callErr = fmt.Errorf("HTTP %d %s", rsp.StatusCode, truncS(string(b), 80))
					}
					if transport == "http-json" {
						objs, _ := splitJSONStream(b)
						gotReplies = len(objs)
						if shape == "cs" {
							gotReplies = 1
						}
					} else {
						ms, _ := splitVarintStream(b)
						gotReplies = len(ms)
						if shape == "cs" {
							gotReplies = 1
						}
					}
				}
				timedOut := ctx.Err() != nil
				cancel()
				if timedOut {
					r.CapHit("a real-transport call did not finish within 120 s (machine load); not counted")
					continue
				}
				validated++
				r.Eval(1)
				lg := impl.log
				bad := ""
				wantReplies := 2
				if shape == "cs" {
					wantReplies = 1
				}
				switch {
				case callErr != nil:
					bad = "the call failed: " + callErr.Error()
				case len(lg.Recv) != len(sent):
					bad = fmt.Sprintf("client sent %d messages, handler received %d (then err=%v)", len(sent), len(lg.Recv), lg.RecvErr)
				case lg.RecvErr != io.EOF:
					bad = fmt.Sprintf("after %d messages the handler got err=%v, want io.EOF", len(lg.Recv), lg.RecvErr)
				case gotReplies != wantReplies:
					bad = fmt.Sprintf("handler sent %d replies, client got %d", wantReplies, gotReplies)
				}
				for i := range lg.Recv {
					if bad == "" && !sameWire(lg.Recv[i], sent[i]) {
						bad = fmt.Sprintf("message %d differs", i)
					}
				}
				if bad != "" {
					r.Outcome("FAIL:real-transport-stream")
					r.Violation(report.Violation{Oracle: "real-transport-stream", Key: fmt.Sprintf("real-transport-stream transport=%s shape=%s in=%v", transport, shape, in), Case: c06Case{Transport: transport, Shape: shape, In: in, Out: []int{2, 0}, Truncate: -1}, Note: "with a real client over loopback: " + bad})
					continue
				}
				r.Outcome("conformance:real-client-stream-ok")
			}
		}
	}
	r.AddValidated(validated)
	r.Set("conformance", map[string]any{"what": "client-streaming and bidi sequences through real clients (grpc-go identity/gzip over h2c, net/http chunked JSON and varint-delimited protobuf) against larking.NewServer: handler log = sent sequence + io.EOF, replies complete", "cases": validated})
}

// ---- C15: client disconnect over real transports -------------------------------------------

// discImpl: a handler that sends one reply and then waits for its context to be cancelled.
type discImpl struct {
	t      *tSchema
	result chan string
}

func (d *discImpl) Unary(c *dyn.Call) (proto.Message, error) {
	return dynamicpb.NewMessage(c.Desc.Output()), nil
}

func (d *discImpl) Stream(c *dyn.Call) error {
	if c.Desc.IsStreamingClient() {
		m := dynamicpb.NewMessage(c.Desc.Input())
		if err := c.Stream.RecvMsg(m); err != nil {
			d.result <- "recv failed: " + err.Error()
			return err
		}
	} else {
		m := dynamicpb.NewMessage(c.Desc.Input())
		_ = c.Stream.RecvMsg(m)
	}
	if err := c.Stream.SendMsg(d.t.newRsp("", []byte("first"), 0)); err != nil {
		d.result <- "send failed: " + err.Error()
		return err
	}
	select {
	case <-c.Stream.Context().Done():
		d.result <- "cancelled"
	case <-time.After(90 * time.Second):
		d.result <- "still running 90 s after the client went away"
	}
	return nil
}

// runC15Disconnect: "when the client ... disconnects (gRPC, gRPC-web or plain HTTP), the
// handler's context is cancelled": real clients against larking.NewServer on loopback - a raw
// TCP client for gRPC-web and HTTP transcoding over HTTP/1.1 (request with Content-Length and
// chunked, the terminating chunk arriving after the message), grpc-go over h2c. The client
// reads the first reply and goes away; the handler must see its context cancelled (the bound
// of 90 s only decides what "never" means; cancellation normally takes milliseconds).
func runC15Disconnect(c *Ctx) {
	r := c.Run
	t, err := newTSchema()
	if err != nil {
		panic(err)
	}
	m, err := larking.NewMux(t.opts...)
	if err != nil {
		panic(err)
	}
	impl := &discImpl{t: t, result: make(chan string, 4)}
	if err := m.VerifRegisterService(t.gsd, dyn.NewServer(impl)); err != nil {
		panic(err)
	}
	front, err := startFront(m)
	if err != nil {
		r.Violation(report.Violation{Oracle: "conformance-setup", Key: "conformance-setup C15", Case: map[string]any{}, Note: err.Error()})
		return
	}
	defer front.stop()
	pb, _ := proto.Marshal(t.newReq("", []byte("q"), 0))
	frame := wire.GRPCFrame(0, pb)
	type rawCase struct {
		name    string
		head    string
		body    []byte
		chunked bool
	}
	cases := []rawCase{
		{"grpc-web server-streaming, HTTP/1.1, Content-Length", "POST /vs.T/SS HTTP/1.1\r\nHost: x\r\nContent-Type: application/grpc-web+proto\r\n", frame, false},
		{"grpc-web server-streaming, HTTP/1.1, chunked (terminating chunk after the message)", "POST /vs.T/SS HTTP/1.1\r\nHost: x\r\nContent-Type: application/grpc-web+proto\r\n", frame, true},
		{"grpc-web-text server-streaming, HTTP/1.1, chunked", "POST /vs.T/SS HTTP/1.1\r\nHost: x\r\nContent-Type: application/grpc-web-text\r\n", wire.EncodeWebText(frame), true},
		{"grpc-web bidi, HTTP/1.1, chunked", "POST /vs.T/Bidi HTTP/1.1\r\nHost: x\r\nContent-Type: application/grpc-web+proto\r\n", frame, true},
		{"HTTP transcoding server-streaming GET, HTTP/1.1", "GET /t/ss/x HTTP/1.1\r\nHost: x\r\n", nil, false},
		{"HTTP transcoding server-streaming POST, HTTP/1.1, chunked", "POST /t/ss HTTP/1.1\r\nHost: x\r\nContent-Type: application/json\r\n", []byte(`{"b":"cQ=="}`), true},
	}
	var validated int64
	report1 := func(name, res string) {
		validated++
		r.Eval(1)
		if res != "cancelled" {
			r.Outcome("FAIL:handler-context-not-cancelled")
			r.Violation(report.Violation{Oracle: "handler-context-not-cancelled", Key: "handler-context-not-cancelled real transport: " + name, Case: map[string]any{"kind": "real-transport-disconnect", "case": name}, Note: "the client read the first reply and closed the connection; handler: " + res})
			return
		}
		r.Outcome("disconnect:handler-cancelled")
	}
	for _, rc := range cases {
		conn, err := net.Dial("tcp", front.addr)
		if err != nil {
			r.CapHit("dial failed: " + err.Error())
			continue
		}
		var req bytes.Buffer
		req.WriteString(rc.head)
		switch {
		case rc.body == nil:
			req.WriteString("\r\n")
		case rc.chunked:
			req.WriteString("Transfer-Encoding: chunked\r\n\r\n")
			fmt.Fprintf(&req, "%x\r\n", len(rc.body))
			req.Write(rc.body)
			req.WriteString("\r\n")
		default:
			fmt.Fprintf(&req, "Content-Length: %d\r\n\r\n", len(rc.body))
			req.Write(rc.body)
		}
		conn.Write(req.Bytes()) //nolint
		if rc.chunked {
			time.Sleep(50 * time.Millisecond) // the terminating chunk arrives after larking consumed the message
			conn.Write([]byte("0\r\n\r\n"))   //nolint
		}
		// read until the first reply's bytes have arrived ("first" / its base64 / JSON form)
		conn.SetReadDeadline(time.Now().Add(60 * time.Second)) //nolint
		var got []byte
		tmp := make([]byte, 4096)
		for !bytes.Contains(got, []byte("first")) && !bytes.Contains(got, []byte("Zmlyc3Q")) && !bytes.Contains(got, []byte("ZpcnN0")) && !bytes.Contains(got, []byte("maXJzd")) {
			n, err := conn.Read(tmp)
			got = append(got, tmp[:n]...)
			if err != nil {
				break
			}
		}
		conn.Close()
		select {
		case res := <-impl.result:
			report1(rc.name, res)
		case <-time.After(120 * time.Second):
			report1(rc.name, "no report from the handler within 120 s (response so far: "+truncS(string(got), 120)+")")
		}
	}
	// gRPC proper over h2c: a grpc-go client cancels after the first reply
	cc := dial(front.addr)
	defer cc.Close()
	for _, shape := range []string{"ss", "bidi"} {
		ctx, cancel := context.WithCancel(context.Background())
		st, err := cc.NewStream(ctx, &grpc.StreamDesc{ClientStreams: shape == "bidi", ServerStreams: true}, "/vs.T/"+shapeMethod[shape])
		if err == nil {
			err = st.SendMsg(t.newReq("", []byte("q"), 0))
		}
		if err == nil && shape == "ss" {
			err = st.CloseSend()
		}
		if err == nil {
			err = st.RecvMsg(dynamicpb.NewMessage(t.rsp))
		}
		cancel()
		if err != nil {
			r.CapHit("grpc-go client could not get the first reply: " + err.Error())
			continue
		}
		select {
		case res := <-impl.result:
			report1("gRPC "+shape+" over h2c, grpc-go client cancels", res)
		case <-time.After(120 * time.Second):
			report1("gRPC "+shape+" over h2c, grpc-go client cancels", "no report from the handler within 120 s")
		}
	}
	r.AddValidated(validated)
	r.Set("real_transport_disconnect", map[string]any{"what": "clients that read the first reply and go away (raw TCP for gRPC-web / gRPC-web-text / HTTP transcoding over HTTP/1.1 with Content-Length and chunked bodies; grpc-go over h2c): the handler's context must be cancelled", "cases": validated})
}
