package props

import (
	"bytes"
	"context"
	"encoding/binary"
	"fmt"
	"net/http"
	"os"
	"strings"
	"sync"
	"sync/atomic"
	"time"

	"google.golang.org/grpc"
	"google.golang.org/grpc/codes"
	"google.golang.org/grpc/metadata"
	"google.golang.org/grpc/stats"
	"google.golang.org/grpc/status"
	"google.golang.org/protobuf/encoding/protojson"
	"google.golang.org/protobuf/proto"
	"google.golang.org/protobuf/reflect/protoreflect"
	"google.golang.org/protobuf/types/dynamicpb"

	"larking.io/larking"

	"verif/dyn"
	"verif/env"
	"verif/explore"
	"verif/ref/wire"
	"verif/report"
)

// C09 — no request can crash or wedge the server.

func init() {
	register(&Check{ID: "C09", Level: "exploration", Run: runC09, Replay: replayC09})
}

type c09Case struct {
	Entry   string      `json:"entry"` // http grpc web ws
	Mux     string      `json:"mux"`   // route | complex | t
	Opts    int         `json:"opts"`  // bit0 interceptors, bit1 stats
	Verb    string      `json:"verb"`
	Path    string      `json:"path"` // may contain arbitrary bytes
	Query   string      `json:"raw_query"`
	Headers [][2]string `json:"headers"`
	BodyHex string      `json:"body_hex"`
	CL      int64       `json:"content_length"` // -2 = len(body)
	ErrCode uint32      `json:"handler_code,omitempty"`
	MaxRead int         `json:"max_read,omitempty"`
}

// statsProbe is a stats.Handler that looks at everything it is given.
// (grpc's stats.Handler contract: HandleRPC is called from several goroutines of one stream,
// so the counter is atomic)
type statsProbe struct{ n atomic.Int64 }

func (s *statsProbe) TagRPC(ctx context.Context, i *stats.RPCTagInfo) context.Context {
	_ = i.FullMethodName
	return ctx
}
func (s *statsProbe) HandleRPC(ctx context.Context, st stats.RPCStats) {
	s.n.Add(1)
	switch v := st.(type) {
	case *stats.InPayload:
		_ = v.Length + v.WireLength
		_ = fmt.Sprint(v.Payload)
	case *stats.OutPayload:
		_ = v.Length + v.WireLength
	case *stats.End:
		_ = v.Error
	case *stats.InHeader:
		// The event belongs to the stats handler (grpc-go hands out copies): one that redacts or
		// annotates what it was given must not change what the RPC handler sees.
		scribble(v.Header)
	case *stats.OutHeader:
		scribble(v.Header)
	case *stats.OutTrailer:
		scribble(v.Trailer)
	case *stats.InTrailer:
		scribble(v.Trailer)
	}
}

func scribble(md metadata.MD) {
	for k := range md {
		delete(md, k)
	}
	if md != nil {
		md["x-audited-by-stats-handler"] = []string{"1"}
		md["authorization"] = []string{"REDACTED"}
	}
}
func (s *statsProbe) TagConn(ctx context.Context, i *stats.ConnTagInfo) context.Context { return ctx }
func (s *statsProbe) HandleConn(context.Context, stats.ConnStats)                       {}

func c09Opts(bits int) []larking.MuxOption {
	var o []larking.MuxOption
	if bits&1 != 0 {
		o = append(o, larking.UnaryServerInterceptorOption(func(ctx context.Context, req interface{}, info *grpc.UnaryServerInfo, handler grpc.UnaryHandler) (interface{}, error) {
			_ = info.FullMethod
			return handler(ctx, req)
		}), larking.StreamServerInterceptorOption(func(srv interface{}, ss grpc.ServerStream, info *grpc.StreamServerInfo, handler grpc.StreamHandler) error {
			_ = ss.Context()
			return handler(srv, ss)
		}))
	}
	if bits&2 != 0 {
		o = append(o, larking.StatsOption(&statsProbe{}))
	}
	// a custom (non-stream) codec and a custom compressor are registered on every mux
	o = append(o, customOpts()...)
	return o
}

type c09Env struct {
	route [4]*larking.Mux
	rimpl [4]*recImpl
	cmplx [4]*larking.Mux
	cimpl [4]*recImpl
	t     [4]*larking.Mux
	timpl [4]*tImpl
	ts    *tSchema
}

var c09RouteRules = []c01Rule{
	{0, "get", "/a/{s}"}, {0, "get", "/a/{s=a/**}:a"}, {1, "get", "/{i}/a"}, {1, "get", "/a/*/{n.s}"},
	{2, "post", "/a"}, {2, "*", "/a/a/{t=**}"}, {0, "get", "/*/a/{rs}"}, {1, "put", "/a.a/{small}:a.a"},
}

func newC09Env() *c09Env {
	e := &c09Env{}
	rs, err := newRouteSchema("vt", "S", 3, nil)
	if err != nil {
		panic(err)
	}
	cs, err := newComplexSchema()
	if err != nil {
		panic(err)
	}
	ts, err := newTSchema()
	if err != nil {
		panic(err)
	}
	e.ts = ts
	for b := 0; b < 4; b++ {
		rules := c01Bound(c09RouteRules)
		rules[4].Rule.Body = "*"
		e.route[b], e.rimpl[b], err = rs.newMux(rules, nil, c09Opts(b)...)
		if err != nil {
			panic(err)
		}
		e.cmplx[b], e.cimpl[b], err = cs.newMux([]boundRule{
			{M: 0, Rule: dyn.Rule{Kind: "get", Path: "/c/q"}},
			{M: 0, Rule: dyn.Rule{Kind: "post", Path: "/c/b", Body: "*"}},
			{M: 0, Rule: dyn.Rule{Kind: "post", Path: "/c/n", Body: "nested"}},
			{M: 0, Rule: dyn.Rule{Kind: "post", Path: "/c/s", Body: "string_value"}},
			{M: 0, Rule: dyn.Rule{Kind: "post", Path: "/c/l", Body: "nested_list"}},
			{M: 0, Rule: dyn.Rule{Kind: "post", Path: "/c/m", Body: "string_map"}},
		}, nil, c09Opts(b)...)
		if err != nil {
			// selectors on non-message fields may legitimately be refused at registration
			e.cmplx[b], e.cimpl[b], err = cs.newMux([]boundRule{
				{M: 0, Rule: dyn.Rule{Kind: "get", Path: "/c/q"}},
				{M: 0, Rule: dyn.Rule{Kind: "post", Path: "/c/b", Body: "*"}},
				{M: 0, Rule: dyn.Rule{Kind: "post", Path: "/c/n", Body: "nested"}},
			}, nil, c09Opts(b)...)
			if err != nil {
				panic(err)
			}
		}
		e.t[b], e.timpl[b], err = ts.newMux(append(c09Opts(b), larking.MaxReceiveMessageSizeOption(64))...)
		if err != nil {
			panic(err)
		}
	}
	return e
}

func (e *c09Env) exec(tc *c09Case) (oracle, note string) {
	var m http.Handler
	switch tc.Mux {
	case "route":
		m = e.route[tc.Opts]
		e.rimpl[tc.Opts].reset()
	case "complex":
		m = e.cmplx[tc.Opts]
		e.cimpl[tc.Opts].reset()
	default:
		m = e.t[tc.Opts]
		hs := hScript{RecvN: 4, Replies: []proto.Message{e.ts.newRsp("r", []byte{1}, 1), e.ts.newRsp("", nil, 0)}}
		if strings.HasPrefix(tc.Path, "/ws/nobody/") {
			hs.RecvN = 64 // a handler that keeps receiving: the stream has to end
		}
		if tc.ErrCode != 0 {
			hs.Err = status.Error(codes.Code(tc.ErrCode), "e")
			hs.ErrAfter = 1
		}
		e.timpl[tc.Opts].reset(hs)
	}
	hdr := http.Header{}
	for _, kv := range tc.Headers {
		hdr[http.CanonicalHeaderKey(kv[0])] = append(hdr[http.CanonicalHeaderKey(kv[0])], kv[1])
	}
	body := unhex(tc.BodyHex)
	sc := &env.Script{MaxRead: tc.MaxRead}
	rb := reqBody{Data: body, CL: tc.CL, Script: sc}
	var res *callResult
	switch tc.Entry {
	case "grpc":
		ct := hdr.Get("Content-Type")
		if ct == "" {
			ct = "application/grpc"
		}
		res = doGRPCRaw(m, tc.Verb, tc.Path, tc.Query, ct, hdr, rb)
	case "ws":
		res = doWS(m, tc.Path, tc.Query, hdr, body, sc)
	case "ws-bad-handshake":
		// a hijack-capable connection and an upgrade request that the WebSocket handshake refuses:
		// the headers of the case replace (value) or remove ("-") the good ones
		res = doWSPrep(m, tc.Path, tc.Query, nil, body, sc, func(_ *env.Conn, req *http.Request) *http.Request {
			for _, kv := range tc.Headers {
				if kv[1] == "-" {
					req.Header.Del(kv[0])
				} else {
					req.Header.Set(kv[0], kv[1])
				}
			}
			return req
		})
	default: // http and web go through the HTTP/1.1 entry
		res = doHTTP(m, tc.Verb, tc.Path, tc.Query, hdr, rb)
	}
	if res.Panicked {
		return "panic", res.Panic
	}
	if res.Reader != nil && res.Reader.PostEnd > 64 {
		return "reads-after-end", fmt.Sprintf("%d reads after the input ended", res.Reader.PostEnd)
	}
	if strings.HasPrefix(tc.Path, "/ws/nobody/") && tc.Mux == "t" {
		// nothing of the input is consumed by a body-less rule: at most one message (built from
		// the URL) may be delivered, then the stream must end
		if n := len(e.timpl[tc.Opts].log.Recv); n > 1 {
			return "messages-without-input", fmt.Sprintf("the handler received %d messages from a body-less WebSocket rule (it stopped asking after %d): receiving never ends, no input is consumed", n, n)
		}
	}
	if res.Rec.Hijacked {
		if !res.Conn.Closed {
			return "hijacked-conn-left-open", ""
		}
		return "", "ws"
	}
	if res.HTTPCode < 100 || res.HTTPCode > 599 {
		return "bad-http-status", fmt.Sprintf("%d", res.HTTPCode)
	}
	return "", fmt.Sprintf("%dxx", res.HTTPCode/100)
}

// doGRPCRaw is doGRPC with a free verb/query (robustness inputs).
func doGRPCRaw(m http.Handler, verb, path, query, ct string, hdr http.Header, body reqBody) *callResult {
	rd, _ := body.reader()
	hdr.Set("Content-Type", ct)
	req := newPostRequest(path, hdr, rd, -1)
	req.Method = verb
	req.URL.RawQuery = query
	req.Proto, req.ProtoMajor, req.ProtoMinor = "HTTP/2.0", 2, 0
	sr := serveReq(m, req)
	return &callResult{Proto: "grpc", Panicked: sr.Panicked, Panic: sr.Panic, HTTPCode: sr.Code, Header: sr.Header, Body: sr.Body, Rec: sr.Rec, Reader: rd}
}

// ---- generators --------------------------------------------------------------------------

func c09Paths(maxLen int) []string {
	alpha := []string{"/", ":", "a", "*", ".", "{", " ", "é", "\x80"}
	var out []string
	var rec func(cur string, d int)
	rec = func(cur string, d int) {
		out = append(out, cur)
		if d == maxLen {
			return
		}
		for _, a := range alpha {
			rec(cur+a, d+1)
		}
	}
	rec("", 0)
	return out
}

func c09QueryKeys() []string {
	seen := map[string]bool{}
	var out []string
	add := func(k string) {
		if !seen[k] {
			seen[k] = true
			out = append(out, k)
		}
	}
	var walk func(prefix string, md protoreflect.MessageDescriptor, depth int)
	walk = func(prefix string, md protoreflect.MessageDescriptor, depth int) {
		fs := md.Fields()
		for i := 0; i < fs.Len(); i++ {
			fd := fs.Get(i)
			k := prefix + string(fd.Name())
			add(k)
			if fd.JSONName() != string(fd.Name()) && depth == 0 {
				add(prefix + fd.JSONName())
			}
			add(k + ".zz")
			if fd.Message() != nil && depth < 2 {
				if depth == 1 && strings.HasPrefix(string(fd.Message().FullName()), "google.protobuf.") && i > 2 {
					continue
				}
				walk(k+".", fd.Message(), depth+1)
			}
		}
	}
	walk("", complexDesc, 0)
	for _, k := range []string{"", "zz", ".", "..", "nested.", ".nested", "nested..string_value", "string_map.k", "string_map[k]", "nested_map.a.string_value", "any.@type", "struct.fields.a", "nested_list.0.string_value"} {
		add(k)
	}
	return out
}

func c09Frame(flag byte, n uint32, payload []byte) []byte { return wire.GRPCFrameLen(flag, n, payload) }

func c09Bodies(ts *tSchema) map[string][][]byte {
	valid, _ := proto.Marshal(ts.newReq("x", []byte{1, 2}, 3))
	validJS, _ := protojson.Marshal(ts.newReq("x", []byte{1, 2}, 3))
	junk := []byte{0xff, 0xfe, 0x00, 0x80, 0x80, 0x80}
	var frames [][]byte
	for _, flag := range []byte{0, 1, 2, 0x80, 0xff} {
		for _, n := range []uint32{0, 1, 3, 5, 64, 65, 1<<32 - 1} {
			for _, pl := range [][]byte{valid, valid[:len(valid)/2], junk, nil, gzipBytes(valid), gzipBytes(valid)[:8]} {
				frames = append(frames, c09Frame(flag, n, pl))
				if int(n) == len(pl) {
					frames = append(frames, append(c09Frame(flag, n, pl), c09Frame(0, uint32(len(valid)), valid)...))
				}
			}
		}
		frames = append(frames, c09Frame(flag, uint32(len(valid)), valid), c09Frame(flag, uint32(len(validJS)), validJS))
	}
	frames = append(frames, nil, []byte{0}, []byte{0, 0, 0, 0}, bytes.Repeat([]byte{0}, 5), bytes.Repeat([]byte{0}, 15))
	var varints [][]byte
	for l := 1; l <= 10; l++ {
		for _, last := range []byte{0x00, 0x01, 0x7f, 0x80} {
			p := append(bytes.Repeat([]byte{0xff}, l-1), last)
			varints = append(varints, p, append(append([]byte{}, p...), valid...))
		}
	}
	varints = append(varints, bytes.Repeat([]byte{0x80}, 11), append(refVarint(uint64(len(valid))), valid...), append(refVarint(uint64(len(valid))), valid[:3]...))
	jsons := [][]byte{nil, []byte("{"), []byte("}"), []byte("{}"), []byte("null"), []byte("[]"), []byte(`"x"`), []byte(`{"s":1}`), []byte(`{"zz":1}`), []byte(`{"s":"\`),
		[]byte("}{"), []byte("{{{"), []byte("}}}"), []byte(`{}{}{"s":"x"}`), []byte(`{"s":"}"}{`), []byte("\xff\xfe"), bytes.Repeat([]byte("["), 20000), bytes.Repeat([]byte(`{"a":`), 5000),
		[]byte(`{"b":"!!!"}`), []byte(`{"n":1e99}`), []byte(`{"s":"x"} trailing`), validJS}
	gz := [][]byte{gzipBytes(validJS), gzipBytes(validJS)[:10], []byte{0x1f, 0x8b}, []byte{0x1f, 0x8b, 8, 0, 0, 0, 0, 0, 0, 0xff}, junk, nil}
	mask := [4]byte{1, 2, 3, 4}
	huge := []byte{0x81, 0xff}
	var l8 [8]byte
	binary.BigEndian.PutUint64(l8[:], 1<<63)
	huge = append(append(huge, l8[:]...), mask[:]...)
	wsf := [][]byte{
		nil,
		wsText(validJS),
		append(wsText(validJS), wsClose(1000, "")...),
		{0x81, 0x05, 'h', 'e', 'l', 'l', 'o'}, // unmasked client frame
		huge,
		wire.WSClientFrame(false, wire.OpText, []byte(`{"s":`), mask),                                                                         // fragment start, no continuation
		append(wire.WSClientFrame(false, wire.OpText, []byte(`{"s":`), mask), wire.WSClientFrame(true, wire.OpCont, []byte(`"x"}`), mask)...), // fragmented message
		wire.WSClientFrame(true, wire.OpCont, []byte("x"), mask),                                                                              // continuation without start
		wire.WSClientFrame(true, wire.OpPing, []byte("p"), mask),
		append(wire.WSClientFrame(true, wire.OpPing, bytes.Repeat([]byte("p"), 125), mask), wsText(validJS)...),
		wire.WSClientFrame(true, wire.OpPing, bytes.Repeat([]byte("p"), 126), mask), // oversized control frame
		wire.WSClientFrame(true, wire.OpPong, nil, mask),
		wire.WSClientFrame(true, wire.OpClose, []byte{0x03}, mask), // 1-byte close payload
		wire.WSClientFrame(true, wire.OpClose, append([]byte{0x03, 0xe8}, 0xff, 0xfe), mask),
		wire.WSClientFrame(true, 0x3, []byte("x"), mask), // reserved opcode
		{0xf1, 0x80, 1, 2, 3, 4}, // RSV bits
		wsText([]byte("not json")), wsText(nil), wsText(bytes.Repeat([]byte("x"), 70000)), wire.WSClientFrame(true, wire.OpBin, valid, mask),
		wsText(validJS)[:3],
	}
	return map[string][][]byte{"frames": frames, "varints": varints, "json": jsons, "gzip": gz, "ws": wsf}
}

func hx(b []byte) string { return fmt.Sprintf("%x", b) }

func c09Cases(ts *tSchema, thorough bool) []c09Case {
	var out []c09Case
	// G1 paths (the materialised part; the deep sweep is c09PathSweep)
	for _, p := range c09Paths(3) {
		for _, verb := range []string{"GET", "POST"} {
			out = append(out, c09Case{Entry: "http", Mux: "route", Verb: verb, Path: p, CL: 0})
		}
		if len(p) <= 3 {
			out = append(out, c09Case{Entry: "http", Mux: "route", Verb: "GET", Path: "/a" + p, CL: 0},
				c09Case{Entry: "http", Mux: "route", Verb: "GET", Path: "/a/a" + p + ":a", CL: 0},
				c09Case{Entry: "grpc", Mux: "route", Verb: "POST", Path: p, BodyHex: "0000000000"},
				c09Case{Entry: "ws", Mux: "t", Verb: "GET", Path: "/ws" + p})
		}
	}
	// long paths: token limit
	for _, n := range []int{30, 31, 32, 33, 64, 65, 200} {
		out = append(out, c09Case{Entry: "http", Mux: "route", Verb: "GET", Path: strings.Repeat("/a", n), CL: 0},
			c09Case{Entry: "http", Mux: "route", Verb: "GET", Path: "/a/a" + strings.Repeat("/x", n) + ":a", CL: 0},
			c09Case{Entry: "http", Mux: "route", Verb: "GET", Path: "/a" + strings.Repeat(":a", n), CL: 0})
	}
	// G2 query
	vals := []string{"", "1", "x", "null", "{}", "a,b", "true"}
	for _, k := range c09QueryKeys() {
		for _, v := range vals {
			out = append(out, c09Case{Entry: "http", Mux: "complex", Verb: "GET", Path: "/c/q", Query: k + "=" + v, CL: 0})
		}
		out = append(out, c09Case{Entry: "http", Mux: "complex", Verb: "GET", Path: "/c/q", Query: k, CL: 0},
			c09Case{Entry: "http", Mux: "complex", Verb: "GET", Path: "/c/q", Query: k + "=1&" + k + "=2", CL: 0},
			c09Case{Entry: "http", Mux: "complex", Verb: "POST", Path: "/c/n", Query: k + "=1", BodyHex: hx([]byte(`{"stringValue":"b"}`)), CL: -2})
	}
	for _, q := range []string{"%zz", "a=b;c=d", "=v", "&&&", "rs=1&rs=2&mp=3", "n=1", "n.s=1&n=2", "mp.a=1", "rs.0=1", "small=99999999999", "i=1.5"} {
		out = append(out, c09Case{Entry: "http", Mux: "route", Verb: "GET", Path: "/a/x", Query: q, CL: 0})
		out = append(out, c09Case{Entry: "ws", Mux: "t", Verb: "GET", Path: "/ws/bidi", Query: q})
	}
	// G3 headers
	cts := []string{"", "application/json", "application/protobuf", "application/octet-stream", "google.api.HttpBody", "text/plain", "application/grpc", "application/grpc+proto", "application/grpc+json", "application/grpc+body", "application/grpc+", "application/grpcx", "application/grpc-web", "application/grpc-web+body", "application/grpc-web+json", "application/grpc-web-text", "application/grpc-web-textx", "application/grpc-web-text+json", ";", "application/json; charset=utf-8", "APPLICATION/GRPC", "application/x-rev", "application/grpc+rev", "application/grpc-web+rev"}
	accepts := []string{"", "application/json", "google.api.HttpBody", "*/*", "junk", ";q=", "a/b;q=1.5", ",", "application/protobuf;q=0", "application/x-rev"}
	aencs := []string{"", "gzip", "identity", "*", "application/json", "junk"}
	cencs := []string{"", "gzip", "identity", "br", "x-rot"}
	gencs := []string{"", "gzip", "identity", "br", "gzip,identity", "x-rot"}
	timeouts := []string{"", "1S", "0n", "99999999H", "1", "S", "1x", "-1S", "123456789S", " 1S", "1S ", "00000001n", "1m"}
	bd := c09Bodies(ts)
	validPB := bd["varints"][len(bd["varints"])-2]
	_ = validPB
	validJS := bd["json"][len(bd["json"])-1]
	validFrame := bd["frames"][0]
	for _, f := range bd["frames"] {
		if len(f) > 5 && f[0] == 0 && int(binary.BigEndian.Uint32(f[1:5])) == len(f)-5 {
			validFrame = f
			break
		}
	}
	for _, ct := range cts {
		for _, ac := range accepts {
			for _, major := range []string{"http", "grpc"} {
				for _, route := range [][2]string{{"/t/unary", "/vs.T/Unary"}, {"/t/bidi", "/vs.T/Bidi"}, {"/t/raw/f", "/vs.T/Raw"}, {"/t/up/f", "/vs.T/Upload"}} {
					for _, body := range [][]byte{validJS, validFrame} {
						hs := [][2]string{}
						if ct != "" {
							hs = append(hs, [2]string{"Content-Type", ct})
						}
						if ac != "" {
							hs = append(hs, [2]string{"Accept", ac})
						}
						out = append(out, c09Case{Entry: major, Mux: "t", Verb: "POST", Path: route[0], Headers: hs, BodyHex: hx(body), CL: -2})
						out = append(out, c09Case{Entry: major, Mux: "t", Verb: "POST", Path: route[1], Headers: hs, BodyHex: hx(body), CL: -2})
					}
				}
			}
		}
	}
	for _, ae := range aencs {
		for _, ce := range cencs {
			for _, body := range bd["gzip"] {
				for _, p := range []string{"/t/unary", "/t/cs", "/t/raw/f", "/t/up/f"} {
					hs := [][2]string{{"Content-Type", "application/json"}}
					if ae != "" {
						hs = append(hs, [2]string{"Accept-Encoding", ae})
					}
					if ce != "" {
						hs = append(hs, [2]string{"Content-Encoding", ce})
					}
					out = append(out, c09Case{Entry: "http", Mux: "t", Verb: "POST", Path: p, Headers: hs, BodyHex: hx(body), CL: -2})
				}
			}
		}
	}
	for _, ge := range gencs {
		for _, to := range timeouts {
			for _, ct := range []string{"application/grpc", "application/grpc-web+proto", "application/grpc-web-text"} {
				hs := [][2]string{{"Content-Type", ct}}
				if ge != "" {
					hs = append(hs, [2]string{"Grpc-Encoding", ge})
				}
				if to != "" {
					hs = append(hs, [2]string{"Grpc-Timeout", to})
				}
				entry := "grpc"
				body := validFrame
				if strings.Contains(ct, "web") {
					entry = "http"
				}
				if strings.Contains(ct, "text") {
					body = wire.EncodeWebText(validFrame)
				}
				out = append(out, c09Case{Entry: entry, Mux: "t", Verb: "POST", Path: "/vs.T/Unary", Headers: hs, BodyHex: hx(body), CL: -2})
				out = append(out, c09Case{Entry: entry, Mux: "t", Verb: "POST", Path: "/vs.T/Bidi", Headers: hs, BodyHex: hx(body), CL: -2})
			}
		}
	}
	for _, up := range []string{"websocket", "Websocket", "h2c", "websocket, h2c"} {
		for _, extra := range [][2]string{{"", ""}, {"Content-Type", "application/grpc-web"}, {"Twirp-Version", "v7"}, {"Sec-Websocket-Version", "12"}, {"Sec-Websocket-Key", ""}, {"Connection", "close"}} {
			for _, p := range []string{"/ws/bidi", "/ws/unary", "/t/unary", "/vs.T/Bidi", "/nope"} {
				hs := [][2]string{{"Upgrade", up}, {"Connection", "Upgrade"}, {"Sec-Websocket-Version", "13"}, {"Sec-Websocket-Key", "dGhlIHNhbXBsZSBub25jZQ=="}}
				if extra[0] != "" {
					hs = append(hs, extra)
				}
				out = append(out, c09Case{Entry: "http", Mux: "t", Verb: "GET", Path: p, Headers: hs, CL: 0})
			}
		}
	}
	// error texts of every length around the close frame's capacity (125 bytes less the code): a
	// client picks the length of a decode error through an unknown field name of its choosing
	for n := 1; n <= 150; n++ {
		msg := []byte(`{"` + strings.Repeat("k", n) + `":1}`)
		frame := wire.WSClientFrame(true, 1, msg, [4]byte{1, 2, 3, 4})
		for _, p := range []string{"/ws/unary", "/ws/bidi"} {
			out = append(out, c09Case{Entry: "ws", Mux: "t", Opts: n % 4, Verb: "GET", Path: p, BodyHex: hx(frame)})
		}
	}
	// handshakes that fail once the connection has been taken over
	for _, bad := range [][2]string{{"Sec-Websocket-Key", "-"}, {"Sec-Websocket-Key", "c2hvcnQ="}, {"Sec-Websocket-Key", "not base64 !!"}, {"Sec-Websocket-Version", "12"}, {"Sec-Websocket-Version", "-"}, {"Connection", "keep-alive"}, {"Sec-Websocket-Extensions", "\x00bad"}} {
		for _, p := range []string{"/ws/bidi", "/ws/unary", "/ws/nobody/unary/x"} {
			for opts := 0; opts < 4; opts++ {
				out = append(out, c09Case{Entry: "ws-bad-handshake", Mux: "t", Opts: opts, Verb: "GET", Path: p, Headers: [][2]string{bad}, CL: 0})
			}
		}
	}
	// G4 bodies
	for _, f := range bd["frames"] {
		for _, m := range []string{"/vs.T/Unary", "/vs.T/CS", "/vs.T/Bidi", "/vs.T/Upload"} {
			out = append(out, c09Case{Entry: "grpc", Mux: "t", Verb: "POST", Path: m, BodyHex: hx(f), Headers: [][2]string{{"Content-Type", "application/grpc"}}})
			out = append(out, c09Case{Entry: "grpc", Mux: "t", Verb: "POST", Path: m, BodyHex: hx(f), Headers: [][2]string{{"Content-Type", "application/grpc"}, {"Grpc-Encoding", "gzip"}}, MaxRead: 1})
			out = append(out, c09Case{Entry: "grpc", Mux: "t", Verb: "POST", Path: m, BodyHex: hx(f), Headers: [][2]string{{"Content-Type", "application/grpc"}, {"Grpc-Encoding", "identity"}}})
			out = append(out, c09Case{Entry: "http", Mux: "t", Verb: "POST", Path: m, BodyHex: hx(f), Headers: [][2]string{{"Content-Type", "application/grpc-web+proto"}, {"Grpc-Encoding", "identity"}}, CL: -2})
			out = append(out, c09Case{Entry: "http", Mux: "t", Verb: "POST", Path: m, BodyHex: hx(f), Headers: [][2]string{{"Content-Type", "application/grpc-web+proto"}, {"Grpc-Encoding", "gzip"}}, CL: -2})
			out = append(out, c09Case{Entry: "http", Mux: "t", Verb: "POST", Path: m, BodyHex: hx(f), Headers: [][2]string{{"Content-Type", "application/grpc-web+proto"}}, CL: -2})
			out = append(out, c09Case{Entry: "http", Mux: "t", Verb: "POST", Path: m, BodyHex: hx(wire.EncodeWebText(f)), Headers: [][2]string{{"Content-Type", "application/grpc-web-text"}}, CL: -2})
			out = append(out, c09Case{Entry: "http", Mux: "t", Verb: "POST", Path: m, BodyHex: hx(f), Headers: [][2]string{{"Content-Type", "application/grpc-web-text"}}, CL: -2})
		}
	}
	for _, v := range bd["varints"] {
		for _, p := range []string{"/t/cs", "/t/bidi", "/t/unary", "/t/up/f"} {
			out = append(out, c09Case{Entry: "http", Mux: "t", Verb: "POST", Path: p, BodyHex: hx(v), Headers: [][2]string{{"Content-Type", "application/protobuf"}}, CL: -1})
			out = append(out, c09Case{Entry: "http", Mux: "t", Verb: "POST", Path: p, BodyHex: hx(v), Headers: [][2]string{{"Content-Type", "application/octet-stream"}}, CL: -2, MaxRead: 1})
		}
	}
	for _, j := range bd["json"] {
		for _, p := range []string{"/t/cs", "/t/bidi", "/t/unary", "/t/ss", "/t/sel", "/vs.T/Unary"} {
			out = append(out, c09Case{Entry: "http", Mux: "t", Verb: "POST", Path: p, BodyHex: hx(j), Headers: [][2]string{{"Content-Type", "application/json"}}, CL: -1})
			out = append(out, c09Case{Entry: "http", Mux: "t", Verb: "POST", Path: p, BodyHex: hx(j), CL: -2, MaxRead: 1})
			out = append(out, c09Case{Entry: "http", Mux: "t", Verb: "POST", Path: p, BodyHex: hx(j), CL: 0})
			out = append(out, c09Case{Entry: "http", Mux: "t", Verb: "POST", Path: p, BodyHex: hx(j), Headers: [][2]string{{"Twirp-Version", "v7"}}, CL: -2})
		}
		for _, p := range []string{"/c/b", "/c/n", "/c/s", "/c/l", "/c/m"} {
			out = append(out, c09Case{Entry: "http", Mux: "complex", Verb: "POST", Path: p, BodyHex: hx(j), CL: -2})
		}
	}
	// body-less WebSocket rules: the request message comes from the URL, no frame is consumed -
	// a handler that receives until the stream ends must still get an end
	for _, p := range []string{"/ws/nobody/unary/x", "/ws/nobody/cs/x", "/ws/nobody/ss/x", "/ws/nobody/bidi/x"} {
		for _, f := range [][]byte{nil, wsClose(1000, ""), wsText([]byte(`{"s":"y"}`)), append(wsText([]byte(`{}`)), wsClose(1000, "")...)} {
			out = append(out, c09Case{Entry: "ws", Mux: "t", Verb: "GET", Path: p, BodyHex: hx(f)})
		}
	}
	for _, f := range bd["ws"] {
		for _, p := range []string{"/ws/unary", "/ws/cs", "/ws/ss", "/ws/bidi"} {
			out = append(out, c09Case{Entry: "ws", Mux: "t", Verb: "GET", Path: p, BodyHex: hx(f)})
			out = append(out, c09Case{Entry: "ws", Mux: "t", Verb: "GET", Path: p, BodyHex: hx(f), MaxRead: 1})
		}
	}
	// G5 handler outcomes
	for _, code := range []uint32{0, 1, 16, 17, 18, 1 << 31, 1<<32 - 1} {
		for _, ent := range []c09Case{
			{Entry: "http", Path: "/t/unary", BodyHex: hx(validJS), CL: -2}, {Entry: "http", Path: "/t/ss", BodyHex: hx(validJS), CL: -2},
			{Entry: "http", Path: "/vs.T/Unary", BodyHex: hx(validJS), CL: -2, Headers: [][2]string{{"Twirp-Version", "v7"}}},
			{Entry: "grpc", Path: "/vs.T/Unary", BodyHex: hx(validFrame)}, {Entry: "grpc", Path: "/vs.T/SS", BodyHex: hx(validFrame)},
			{Entry: "http", Path: "/vs.T/SS", BodyHex: hx(validFrame), CL: -2, Headers: [][2]string{{"Content-Type", "application/grpc-web"}}},
			{Entry: "ws", Path: "/ws/ss", BodyHex: hx(wsText(validJS))},
		} {
			ent.Mux, ent.Verb, ent.ErrCode = "t", "POST", code
			if ent.Entry == "ws" {
				ent.Verb = "GET"
			}
			out = append(out, ent)
		}
	}
	// every case under every option set
	var all []c09Case
	for _, tc := range out {
		for b := 0; b < 4; b++ {
			if !thorough && b != 0 && b != 3 && tc.Mux == "route" && tc.Entry == "http" && len(tc.Path) > 3 {
				continue // quick: the big path sweep runs with no options and with all options
			}
			c := tc
			c.Opts = b
			all = append(all, c)
		}
	}
	return all
}

func runC09(c *Ctx) {
	r := c.Run
	r.Rule("entry path{transcoding, gRPC, gRPC-web(-text), WebSocket upgrade} × mux options{plain, interceptors, stats handler, both; a custom non-stream codec and a custom compressor registered on all} × (all paths of length <= 6 (thorough 7) over {/ : a * . { space é 0x80} incl. behind '/a', '/a/a…:a'; token-limit paths; every query key of depth <= 3 through scalar/message/repeated/map/oneof/wrapper/unknown fields × 7 values; header alphabets for Content-Type × Accept, Accept-Encoding × Content-Encoding × gzip junk, Grpc-Encoding × grpc-timeout, Upgrade variants; bodies: every frame header flag{0,1,2,0x80,0xff} × length{0,1,3,5,L,L+1,2^32-1} × payload{valid,truncated,junk,empty,gzip,cut gzip}, all 1..10-byte varint prefixes, JSON brace streams and deep nesting, WebSocket protocol violations; body-less WebSocket rules on all four call shapes with a handler that keeps receiving; handler codes incl. out of range); reply path: gzip-negotiated gRPC / gRPC-web calls (unary, server-streaming) whose incompressible reply takes every size 0..1200 (thorough 9000), ascending then descending on one mux; distinct = (entry, mux, outcome class, input family)")
	r.Assume("small-scope hypothesis: 'for all byte strings' is covered up to the stated lengths and alphabets", "a case that does not return within 120 s is reported as a hang (the normal cost of a case is microseconds)")
	ts, err := newTSchema()
	if err != nil {
		panic(err)
	}
	cases := c09Cases(ts, c.Thorough())
	r.Set("cases", len(cases))
	envs := make([]*c09Env, explore.Workers)
	cur := make([]atomic.Int64, explore.Workers)
	started := make([]atomic.Int64, explore.Workers)
	for i := range cur {
		cur[i].Store(-1)
	}
	stop := make(chan struct{})
	go func() { // watchdog
		t := time.NewTicker(5 * time.Second)
		defer t.Stop()
		for {
			select {
			case <-stop:
				return
			case <-t.C:
				now := time.Now().UnixNano()
				for w := range cur {
					i := cur[w].Load()
					if i >= 0 && now-started[w].Load() > int64(120*time.Second) {
						tc := cases[i]
						r.Violation(report.Violation{Oracle: "hang", Key: fmt.Sprintf("hang entry=%s mux=%s opts=%d %s %q?%s body=%s", tc.Entry, tc.Mux, tc.Opts, tc.Verb, tc.Path, tc.Query, truncS(tc.BodyHex, 40)), Case: tc, Note: "the request did not return within 120 s"})
						os.Exit(r.Finish())
					}
				}
			}
		}
	}()
	explore.ParallelFor(len(cases), func() bool { return r.TooManyViolations() || r.Expired() }, func(w, i int) {
		if envs[w] == nil {
			envs[w] = newC09Env()
		}
		started[w].Store(time.Now().UnixNano())
		cur[w].Store(int64(i))
		tc := &cases[i]
		oracle, note := envs[w].exec(tc)
		cur[w].Store(-1)
		r.Eval(1)
		fam := tc.Mux
		switch {
		case tc.Query != "":
			fam += "/query"
		case tc.BodyHex != "":
			fam += "/body"
		case len(tc.Headers) > 0:
			fam += "/headers"
		default:
			fam += "/path"
		}
		if oracle != "" {
			r.Outcome("FAIL:" + oracle)
			r.Violation(report.Violation{Oracle: oracle, Key: fmt.Sprintf("%s entry=%s mux=%s opts=%d %s %q?%s hdr=%v body=%s cl=%d maxread=%d code=%d", oracle, tc.Entry, tc.Mux, tc.Opts, tc.Verb, tc.Path, tc.Query, tc.Headers, truncS(tc.BodyHex, 60), tc.CL, tc.MaxRead, tc.ErrCode), Case: *tc, Note: note})
			return
		}
		r.Outcome(tc.Entry + ":" + note)
		if i%7 == 0 {
			r.Distinct(fmt.Sprintf("%s|%s|%s|%d|%d", tc.Entry, fam, note, tc.Opts, len(tc.Path)%5))
		}
		if r.WantSample() && i%9973 == 11 {
			r.Sample(*tc)
		}
	})
	c09PathSweep(c, envs, cur, started)
	close(stop)
	c09ReplySweep(c)
	c09ProxiedDeadline(c)
}

// parkedStream is the back-end side of a proxied streaming call that never answers: its
// receive returns when the call's context is done, with that context's error (what grpc-go's
// client stream does when the deadline passes).
type parkedStream struct {
	ctx      context.Context
	finishes bool      // the back-end ends the call (status NotFound) instead of staying silent ...
	body     *openBody // ... once the front's pump is parked reading this request body
}

func (p *parkedStream) Header() (metadata.MD, error) { return nil, nil }
func (p *parkedStream) Trailer() metadata.MD         { return nil }
func (p *parkedStream) CloseSend() error             { return nil }
func (p *parkedStream) Context() context.Context     { return p.ctx }
func (p *parkedStream) SendMsg(m any) error          { return nil }
func (p *parkedStream) RecvMsg(m any) error {
	if p.finishes {
		if p.body != nil {
			select {
			case <-p.body.parked: // the pump is in its read now
			case <-time.After(2 * time.Second):
			}
		}
		return status.Error(codes.NotFound, "back-end is done")
	}
	<-p.ctx.Done()
	return status.FromContextError(p.ctx.Err()).Err()
}

// openBody is a request body like an HTTP/2 server's: after its data a Read blocks until the
// client sends more (it never does) or the handler closes the body.
type openBody struct {
	data     []byte
	closed   chan struct{}
	once     atomic.Bool
	parked   chan struct{} // closed when a Read finds no data and parks
	parkOnce atomic.Bool
}

func (b *openBody) Read(p []byte) (int, error) {
	if len(b.data) > 0 {
		n := copy(p, b.data)
		b.data = b.data[n:]
		return n, nil
	}
	if b.parkOnce.CompareAndSwap(false, true) {
		close(b.parked)
	}
	<-b.closed
	return 0, fmt.Errorf("http2: request body closed due to handler exiting")
}
func (b *openBody) Close() error {
	if b.once.CompareAndSwap(false, true) {
		close(b.closed)
	}
	return nil
}

// c09ProxiedDeadline: a proxied client-streaming / bidi call whose client keeps its upload open
// without sending, and whose back-end either ends the call at once or does not answer at all
// under a grpc-timeout. When the
// deadline has passed the mux must give control back (the client of such a call has usually
// gone; one that has not must not pin the server): ServeHTTP returns. The only clock-dependent
// family of this check: the deadline is 100 ms, the verdict "did not return" is given after
// 45 s.
func c09ProxiedDeadline(c *Ctx) {
	r := c.Run
	ts, err := newTSchema()
	if err != nil {
		panic(err)
	}
	type pending struct {
		key  string
		cs   map[string]any
		done chan string
		body *openBody
	}
	var all []*pending
	var conns []*grpc.ClientConn
	var bodies sync.Map // case id (sent as request metadata, relayed to the back-end) -> its request body
	for _, variant := range []int{0, 1, 2, 3} {
		withOpts, finishes := variant&1 == 1, variant&2 == 2
		var mopts []larking.MuxOption
		if withOpts {
			mopts = c15PassThroughOpts()
		}
		m, err := larking.NewMux(mopts...)
		if err != nil {
			panic(err)
		}
		be := env.NewBackend("parked", []protoreflect.FileDescriptor{ts.fd}, []string{"vs.T"})
		be.NewStream = func(ctx context.Context, desc *grpc.StreamDesc, method string) (grpc.ClientStream, error) {
			ps := &parkedStream{ctx: ctx, finishes: finishes}
			if md, ok := metadata.FromOutgoingContext(ctx); ok && len(md.Get("x-case")) > 0 {
				if b, ok := bodies.Load(md.Get("x-case")[0]); ok {
					ps.body = b.(*openBody)
				}
			}
			return ps, nil
		}
		if err := m.RegisterConn(context.Background(), be.Conn()); err != nil {
			panic(err)
		}
		conns = append(conns, be.Conn())
		pb, _ := proto.Marshal(ts.newReq("", []byte("first"), 0))
		for _, method := range []string{"/vs.T/Bidi", "/vs.T/CS"} {
			for _, front := range []string{"application/grpc", "application/grpc-web+proto"} {
				// the first message is there: the proxy's handler is past its own first receive,
				// which it makes itself (a handler parked in a receive of its own when the deadline
				// passes is released by the client's next move only; that is not demanded here)
				for _, first := range []bool{true} {
					body := &openBody{closed: make(chan struct{}), parked: make(chan struct{})}
					caseID := fmt.Sprint(len(all))
					bodies.Store(caseID, body)
					if first {
						body.data = wire.GRPCFrame(0, pb)
					}
					req, _ := http.NewRequest("POST", method, body)
					req.Header.Set("Content-Type", front)
					if !finishes {
						req.Header.Set("Grpc-Timeout", "100m")
					}
					req.Header.Set("Te", "trailers")
					req.Header.Set("X-Case", caseID)
					req.Proto, req.ProtoMajor, req.ProtoMinor = "HTTP/2.0", 2, 0
					req.ContentLength = -1
					rec := env.NewRecorder()
					p := &pending{done: make(chan string, 1), body: body,
						key: fmt.Sprintf("proxied %s front=%s first-message=%v opts=%v %s, upload left open", method, front, first, withOpts, map[bool]string{false: "grpc-timeout=100m, back-end silent", true: "no timeout, back-end ends the call at once"}[finishes]),
						cs:  map[string]any{"family": "proxied-deadline", "method": method, "front": front, "first": first, "opts": withOpts, "backend_finishes": finishes}}
					all = append(all, p)
					go func() {
						pan, txt := guard(func() { m.ServeHTTP(rec, req) })
						if pan {
							p.done <- "panic: " + txt
						} else {
							p.done <- ""
						}
					}()
				}
			}
		}
	}
	// all calls run at once; the verdict "did not return" is given 45 s after a 100 ms deadline
	limit := time.After(45 * time.Second)
	for _, p := range all {
		r.Eval(1)
		r.Distinct("proxied-deadline|" + p.key)
		select {
		case res := <-p.done:
			if res != "" {
				r.Outcome("FAIL:panic")
				r.Violation(report.Violation{Oracle: "panic", Key: "panic " + p.key, Case: p.cs, Note: res})
			} else {
				r.Outcome("proxied-deadline:returned")
			}
		case <-limit:
			limit = time.After(0)
			r.Outcome("FAIL:wedged-after-deadline")
			r.Violation(report.Violation{Oracle: "wedged-after-deadline", Key: "wedged-after-deadline " + p.key, Case: p.cs, Note: "ServeHTTP had not returned after 45 s although the handler returned at once (back-end done) or 100 ms in (grpc-timeout): the mux waits for the proxy's pump, which is parked reading a request body nobody closes"})
			p.body.Close() // let the goroutine go
		}
	}
	for _, cc := range conns {
		cc.Close()
	}
}

// c09ReplySweep: the reply path. Requests that negotiate gzip message compression, against a
// handler whose reply is incompressible and of every size 0..N: the compressed reply takes
// every length relative to the capacity of whatever pooled send buffer is in use (grow /
// re-slice arithmetic). Sequential on one mux (ascending, then descending sizes), gRPC and
// gRPC-web, unary and server-streaming. No panic; the reply decodes to what the handler sent.
func c09ReplySweep(c *Ctx) {
	r := c.Run
	maxSize := 1200
	if c.Thorough() {
		maxSize = 9000
	}
	r.Set("reply_sweep_max_size", maxSize)
	ts, err := newTSchema()
	if err != nil {
		panic(err)
	}
	m, impl, err := ts.newMux()
	if err != nil {
		panic(err)
	}
	noise := func(n int) []byte { // deterministic, incompressible
		b := make([]byte, n)
		x := uint32(2463534242)
		for i := range b {
			x ^= x << 13
			x ^= x >> 17
			x ^= x << 5
			b[i] = byte(x >> 11)
		}
		return b
	}
	reqPB, _ := proto.Marshal(ts.newReq("q", nil, 0))
	reqFrame := wire.GRPCFrame(1, gzipBytes(reqPB))
	one := func(entry, shape string, size int) {
		want := ts.newRsp("", noise(size), 0)
		replies := []proto.Message{want}
		if shape == "SS" {
			replies = append(replies, ts.newRsp("", noise(size/2), 0))
		}
		impl.reset(hScript{RecvN: -1, Replies: replies})
		hdr := http.Header{"Grpc-Encoding": {"gzip"}, "Grpc-Accept-Encoding": {"gzip"}}
		var res *callResult
		if entry == "grpc" {
			res = doGRPC(m, "/vs.T/"+shape, "application/grpc", hdr, reqBody{Data: reqFrame})
		} else {
			res = doWeb(m, "/vs.T/"+shape, "application/grpc-web+proto", hdr, reqBody{Data: reqFrame})
		}
		r.Eval(1)
		tc := c09Case{Entry: "reply-sweep", Mux: "t", Verb: entry, Path: "/vs.T/" + shape, CL: int64(size)}
		key := fmt.Sprintf("entry=reply-sweep/%s %s reply-size=%d", entry, shape, size)
		switch {
		case res.Panicked:
			r.Outcome("FAIL:panic")
			r.Violation(report.Violation{Oracle: "panic", Key: "panic " + key, Case: tc, Note: res.Panic})
		case res.ParseErr != "" || res.Status == nil || res.Status.Code != 0 || len(res.Msgs) != len(replies):
			r.Outcome("FAIL:malformed-response")
			r.Violation(report.Violation{Oracle: "malformed-response", Key: "malformed-response " + key, Case: tc, Note: fmt.Sprintf("parse=%q status=%+v replies=%d want %d", res.ParseErr, res.Status, len(res.Msgs), len(replies))})
		default:
			got := dynamicpb.NewMessage(ts.rsp)
			if err := proto.Unmarshal(res.Msgs[0], got); err != nil || !proto.Equal(got, want) {
				r.Outcome("FAIL:malformed-response")
				r.Violation(report.Violation{Oracle: "malformed-response", Key: "malformed-response " + key, Case: tc, Note: fmt.Sprintf("the compressed reply does not decode to what the handler sent (err=%v)", err)})
				return
			}
			r.Outcome(entry + ":reply-sweep-ok")
		}
	}
	for _, entry := range []string{"grpc", "web"} {
		for _, shape := range []string{"Unary", "SS"} {
			for size := 0; size <= maxSize; size++ {
				one(entry, shape, size)
			}
			for size := maxSize; size >= 0; size -= 3 {
				one(entry, shape, size)
			}
			r.Distinct("reply-sweep|" + entry + "|" + shape)
		}
	}
}

// c09PathSweep enumerates every path up to the tier's length bound without materialising the
// cases: sharded on the first two characters, run with no options and with all options.
func c09PathSweep(c *Ctx, envs []*c09Env, cur, started []atomic.Int64) {
	r := c.Run
	maxLen := 6
	if c.Thorough() {
		maxLen = 7
	}
	r.Set("path_sweep_max_len", maxLen)
	alpha := []string{"/", ":", "a", "*", ".", "{", " ", "é", "\x80"}
	var shards []string
	for _, a := range alpha {
		for _, b := range alpha {
			shards = append(shards, a+b)
		}
	}
	done := explore.ParallelFor(len(shards), func() bool { return r.TooManyViolations() || r.Expired() }, func(w, si int) {
		if envs[w] == nil {
			envs[w] = newC09Env()
		}
		e := envs[w]
		var n int64
		outc := map[string]int64{}
		tc := c09Case{Entry: "http", Mux: "route", CL: 0}
		var rec func(p string, d int)
		rec = func(p string, d int) {
			for _, prefix := range []string{"", "/a", "/a/a/"} {
				for _, verb := range []string{"GET", "POST"} {
					for _, opts := range []int{0, 3} {
						tc.Verb, tc.Path, tc.Opts = verb, prefix+p, opts
						started[w].Store(time.Now().UnixNano())
						oracle, note := e.exec(&tc)
						n++
						if oracle != "" {
							r.Violation(report.Violation{Oracle: oracle, Key: fmt.Sprintf("%s entry=http mux=route opts=%d %s %q", oracle, opts, verb, tc.Path), Case: tc, Note: note})
							outc["FAIL:"+oracle]++
						} else {
							outc["http:"+note]++
						}
					}
				}
			}
			if d == maxLen {
				return
			}
			for _, a := range alpha {
				rec(p+a, d+1)
			}
		}
		cur[w].Store(0)
		rec(shards[si], 2)
		cur[w].Store(-1)
		r.Eval(n)
		for k, v := range outc {
			r.OutcomeN(k, v)
		}
		r.Distinct("sweep|" + shards[si])
	})
	if !done {
		r.CapHit("path sweep stopped at the deadline")
	}
}

func replayC09(c *Ctx, v report.Violation) {
	if m, ok := v.Case.(map[string]any); ok && m["family"] == "proxied-deadline" {
		sub := *c
		sub.Run = report.NewRun("C09", "quick", 0, "exploration")
		c09ProxiedDeadline(&sub)
		fmt.Printf("replay: proxied-deadline family re-run -> %d violations\n", sub.Run.NumViolations())
		if sub.Run.NumViolations() > 0 {
			c.Run.Violation(v)
		}
		return
	}
	var tc c09Case
	if !remarshal(v.Case, &tc) {
		fmt.Println("replay: cannot decode case")
		return
	}
	if tc.Entry == "reply-sweep" {
		// the outcome depends on the pooled buffers the earlier replies left behind: re-run the sweep
		sub := *c
		sub.Run = report.NewRun("C09", "quick", 0, "exploration")
		c09ReplySweep(&sub)
		fmt.Printf("replay: reply sweep re-run -> %d violations\n", sub.Run.NumViolations())
		if sub.Run.NumViolations() > 0 {
			c.Run.Violation(report.Violation{Oracle: v.Oracle, Key: v.Key, Case: tc, Note: "the reply sweep still fails"})
		}
		return
	}
	oracle, note := newC09Env().exec(&tc)
	fmt.Printf("replay: entry=%s mux=%s opts=%d %s %q?%s -> oracle=%q %s\n", tc.Entry, tc.Mux, tc.Opts, tc.Verb, tc.Path, tc.Query, oracle, truncS(note, 400))
	if oracle != "" {
		c.Run.Violation(report.Violation{Oracle: oracle, Key: v.Key, Case: tc, Note: note})
	}
}
