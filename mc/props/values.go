package props

import (
	"encoding/base64"
	"fmt"
	"math"
	"strconv"
	"strings"

	"google.golang.org/protobuf/proto"
	"google.golang.org/protobuf/reflect/protoreflect"
	"google.golang.org/protobuf/types/dynamicpb"
	"google.golang.org/protobuf/types/known/durationpb"
	"google.golang.org/protobuf/types/known/fieldmaskpb"
	"google.golang.org/protobuf/types/known/timestamppb"
	"google.golang.org/protobuf/types/known/wrapperspb"

	"larking.io/api/testpb"

	"verif/dyn"
)

// Client-side reference for google.api.http transcoding over testpb.ComplexRequest: which
// values a field can take (boundary values per kind), how each is spelled as URL text (the
// proto3-JSON text form, with alternative spellings), and how to build the expected message.

// textVal is one value of a field with its URL spellings.
type textVal struct {
	val      protoreflect.Value // scalar or message value
	texts    []string           // texts[0] is canonical
	pathSafe []bool             // per text: consists only of characters valid in a path segment
	name     string
}

func isPathSafe(s string) bool {
	if s == "" {
		return false
	}
	for _, r := range s {
		switch {
		case r >= 'a' && r <= 'z', r >= 'A' && r <= 'Z', r >= '0' && r <= '9', r > 127 && (r == 'é' || r == 'Ж'):
		case strings.ContainsRune("-_.~!$&'()*+,;=@", r):
		default:
			return false
		}
	}
	return true
}

func tv(v protoreflect.Value, texts ...string) textVal {
	t := textVal{val: v, texts: texts, name: texts[0]}
	for _, s := range texts {
		t.pathSafe = append(t.pathSafe, isPathSafe(s))
	}
	return t
}

func b64All(b []byte) []string {
	out := []string{base64.StdEncoding.EncodeToString(b)}
	for _, s := range []string{base64.RawStdEncoding.EncodeToString(b), base64.URLEncoding.EncodeToString(b), base64.RawURLEncoding.EncodeToString(b)} {
		dup := false
		for _, o := range out {
			if o == s {
				dup = true
			}
		}
		if !dup {
			out = append(out, s)
		}
	}
	return out
}

var c03Bytes = [][]byte{{}, {0xfb}, {0xfb, 0xff}, {0xfb, 0xff, 0xbe}, {0x00, 0x41}, {0xff, 0xff, 0xff, 0xfe}}

// kindValues lists the boundary values of a scalar kind.
func kindValues(fd protoreflect.FieldDescriptor) []textVal {
	i32 := func(v int32) textVal { return tv(protoreflect.ValueOfInt32(v), strconv.FormatInt(int64(v), 10)) }
	i64 := func(v int64) textVal { return tv(protoreflect.ValueOfInt64(v), strconv.FormatInt(v, 10)) }
	u32 := func(v uint32) textVal { return tv(protoreflect.ValueOfUint32(v), strconv.FormatUint(uint64(v), 10)) }
	u64 := func(v uint64) textVal { return tv(protoreflect.ValueOfUint64(v), strconv.FormatUint(v, 10)) }
	switch fd.Kind() {
	case protoreflect.Int32Kind, protoreflect.Sint32Kind, protoreflect.Sfixed32Kind:
		return []textVal{i32(0), i32(1), i32(-1), i32(math.MinInt32), i32(math.MaxInt32)}
	case protoreflect.Int64Kind, protoreflect.Sint64Kind, protoreflect.Sfixed64Kind:
		return []textVal{i64(0), i64(1), i64(-1), i64(math.MinInt64), i64(math.MaxInt64), i64(1<<53 + 1)}
	case protoreflect.Uint32Kind, protoreflect.Fixed32Kind:
		return []textVal{u32(0), u32(1), u32(math.MaxUint32)}
	case protoreflect.Uint64Kind, protoreflect.Fixed64Kind:
		return []textVal{u64(0), u64(1), u64(math.MaxUint64), u64(1<<53 + 1)}
	case protoreflect.FloatKind:
		var out []textVal
		for _, f := range []float32{0, 1.5, -1.5, math.MaxFloat32, math.SmallestNonzeroFloat32} {
			out = append(out, tv(protoreflect.ValueOfFloat32(f), strconv.FormatFloat(float64(f), 'g', -1, 32)))
		}
		return out
	case protoreflect.DoubleKind:
		var out []textVal
		for _, f := range []float64{0, 1.5, -1.5, math.MaxFloat64, math.SmallestNonzeroFloat64} {
			out = append(out, tv(protoreflect.ValueOfFloat64(f), strconv.FormatFloat(f, 'g', -1, 64)))
		}
		return out
	case protoreflect.BoolKind:
		return []textVal{tv(protoreflect.ValueOfBool(true), "true"), tv(protoreflect.ValueOfBool(false), "false")}
	case protoreflect.StringKind:
		var out []textVal
		for _, s := range []string{strings.Repeat("Lg", 150), strings.Repeat("a.b-c_d~", 700), strings.Repeat("é /&=%+", 600), "x", "7", "a.b-c_d~", ".", "..", "...", ".x.", "é", "Ж9", "a=b", "a+b", "", " ", "/", "&=", "%", "+", "a b", `{"a":1}`, "null", "true", "123", "a/b?c#d", "%41"} {
			out = append(out, tv(protoreflect.ValueOfString(s), s))
		}
		return out
	case protoreflect.BytesKind:
		var out []textVal
		for _, b := range c03Bytes {
			out = append(out, tv(protoreflect.ValueOfBytes(b), b64All(b)...))
		}
		return out
	case protoreflect.EnumKind:
		var out []textVal
		vals := fd.Enum().Values()
		for i := 0; i < vals.Len() && i < 2; i++ {
			ev := vals.Get(i)
			out = append(out, tv(protoreflect.ValueOfEnum(ev.Number()), string(ev.Name()), strconv.Itoa(int(ev.Number()))))
		}
		// open enum: a number without a name is kept as it is, up to the int32 bounds
		if fd.Enum().FullName() == "google.protobuf.NullValue" {
			return out // proto3-JSON writes every NullValue as null: an unnamed number has no body form
		}
		out = append(out, tv(protoreflect.ValueOfEnum(77), "77"), tv(protoreflect.ValueOfEnum(math.MaxInt32), "2147483647"), tv(protoreflect.ValueOfEnum(math.MinInt32), "-2147483648"))
		return out
	}
	return nil
}

// wktValues lists values for the well-known message types that have a scalar JSON form.
func wktValues(md protoreflect.MessageDescriptor) []textVal {
	mv := func(m proto.Message, texts ...string) textVal {
		return tv(protoreflect.ValueOfMessage(m.ProtoReflect()), texts...)
	}
	switch md.FullName() {
	case "google.protobuf.Timestamp":
		return []textVal{
			mv(&timestamppb.Timestamp{Seconds: 1484443815, Nanos: 10000000}, "2017-01-15T01:30:15.01Z", "2017-01-15T01:30:15.010Z", "2017-01-15T02:30:15.01+01:00"),
			mv(&timestamppb.Timestamp{}, "1970-01-01T00:00:00Z"),
			mv(&timestamppb.Timestamp{Seconds: 253402300799, Nanos: 999999999}, "9999-12-31T23:59:59.999999999Z"),
		}
	case "google.protobuf.Duration":
		return []textVal{
			mv(&durationpb.Duration{Seconds: 3, Nanos: 500000000}, "3.5s", "3.500s"),
			mv(&durationpb.Duration{Seconds: -1}, "-1s"),
			mv(&durationpb.Duration{}, "0s"),
			mv(&durationpb.Duration{Seconds: 315576000000}, "315576000000s"),
		}
	case "google.protobuf.BoolValue":
		return []textVal{mv(wrapperspb.Bool(true), "true"), mv(wrapperspb.Bool(false), "false")}
	case "google.protobuf.Int32Value":
		return []textVal{mv(wrapperspb.Int32(-7), "-7"), mv(wrapperspb.Int32(math.MaxInt32), "2147483647")}
	case "google.protobuf.Int64Value":
		return []textVal{mv(wrapperspb.Int64(math.MaxInt64), "9223372036854775807"), mv(wrapperspb.Int64(0), "0")}
	case "google.protobuf.UInt32Value":
		return []textVal{mv(wrapperspb.UInt32(math.MaxUint32), "4294967295")}
	case "google.protobuf.UInt64Value":
		return []textVal{mv(wrapperspb.UInt64(math.MaxUint64), "18446744073709551615")}
	case "google.protobuf.FloatValue":
		return []textVal{mv(wrapperspb.Float(1.5), "1.5")}
	case "google.protobuf.DoubleValue":
		return []textVal{mv(wrapperspb.Double(-1.5), "-1.5"), mv(wrapperspb.Double(math.MaxFloat64), "1.7976931348623157e+308")}
	case "google.protobuf.BytesValue":
		return []textVal{mv(wrapperspb.Bytes([]byte{0xfb, 0xff}), b64All([]byte{0xfb, 0xff})...), mv(wrapperspb.Bytes([]byte{0, 0x41, 0x42}), b64All([]byte{0, 0x41, 0x42})...)}
	case "google.protobuf.StringValue":
		return []textVal{mv(wrapperspb.String("hello"), "hello"), mv(wrapperspb.String("a b&c=d/é"), "a b&c=d/é")}
	case "google.protobuf.FieldMask":
		return []textVal{mv(&fieldmaskpb.FieldMask{Paths: []string{"a", "b_c.d"}}, "a,bC.d"), mv(&fieldmaskpb.FieldMask{Paths: []string{"x"}}, "x")}
	}
	return nil
}

// invalidTexts lists texts that are invalid for the field's type under every reading.
func invalidTexts(fd protoreflect.FieldDescriptor) []string {
	switch fd.Kind() {
	case protoreflect.Int32Kind, protoreflect.Sint32Kind, protoreflect.Sfixed32Kind:
		return []string{"abc", "1.5", "2147483648", "-2147483649", "1x", "--1", "99999999999999999999"}
	case protoreflect.Int64Kind, protoreflect.Sint64Kind, protoreflect.Sfixed64Kind:
		return []string{"abc", "1.5", "9223372036854775808", "-9223372036854775809", "1x", "99999999999999999999"}
	case protoreflect.Uint32Kind, protoreflect.Fixed32Kind:
		return []string{"abc", "1.5", "-1", "4294967296", "1x"}
	case protoreflect.Uint64Kind, protoreflect.Fixed64Kind:
		return []string{"abc", "1.5", "-1", "18446744073709551616", "1x"}
	case protoreflect.FloatKind:
		return []string{"abc", "1.2.3", "--1", "1e", "0x", "1e39", "-1e39", "3.5e38", "1e309"} // incl. numbers beyond the float32 range
	case protoreflect.DoubleKind:
		return []string{"abc", "1.2.3", "--1", "1e", "0x", "1e309", "-1e400"}
	case protoreflect.BoolKind:
		return []string{"yes", "2", "truee", "t"}
	case protoreflect.BytesKind:
		return []string{"!!!!", "a", "@@", "a=b="}
	case protoreflect.EnumKind:
		// incl. numbers beyond the int32 range of an enum number (must not wrap around)
		return []string{"NOPE", "1.5", "enum_value", "2147483648", "-2147483649", "4294967297", "4294967296", "99999999999999999999", "1x"}
	case protoreflect.MessageKind:
		switch fd.Message().FullName() {
		case "google.protobuf.Timestamp":
			return []string{"2017-13-45T00:00:00Z", "yesterday", "2017-01-15", "1484443815"}
		case "google.protobuf.Duration":
			return []string{"5", "abc", "1.5", "s"}
		case "google.protobuf.Int32Value":
			return []string{"abc", "1.5", "1x", "2147483648", "-2147483649"}
		case "google.protobuf.UInt32Value":
			return []string{"abc", "1.5", "1x", "-1", "4294967296"}
		case "google.protobuf.Int64Value":
			return []string{"abc", "1.5", "1x", "9223372036854775808"}
		case "google.protobuf.UInt64Value":
			return []string{"abc", "1.5", "1x", "-1", "18446744073709551616"}
		case "google.protobuf.BoolValue":
			return []string{"yes", "2"}
		case "google.protobuf.FloatValue":
			return []string{"abc", "1.2.3", "1e39", "-3.5e38"}
		case "google.protobuf.DoubleValue":
			return []string{"abc", "1.2.3", "1e309"}
		case "google.protobuf.BytesValue":
			return []string{"!!!!", "a"}
		}
	}
	return nil
}

// complexDesc is the descriptor of larking.testpb.ComplexRequest.
var complexDesc = (&testpb.ComplexRequest{}).ProtoReflect().Descriptor()

// fieldRef is a dotted field path into ComplexRequest.
type fieldRef struct {
	path string // proto names
	json string // json names
	fds  []protoreflect.FieldDescriptor
}

func (f fieldRef) leaf() protoreflect.FieldDescriptor { return f.fds[len(f.fds)-1] }

func resolveRef(md protoreflect.MessageDescriptor, path string) fieldRef {
	r := fieldRef{path: path}
	var js []string
	for _, p := range strings.Split(path, ".") {
		fd := md.Fields().ByName(protoreflect.Name(p))
		if fd == nil {
			panic("no field " + path)
		}
		r.fds = append(r.fds, fd)
		js = append(js, fd.JSONName())
		md = fd.Message()
	}
	r.json = strings.Join(js, ".")
	return r
}

// setRef sets (or appends, for lists) v at ref in m.
func setRef(m protoreflect.Message, ref fieldRef, v protoreflect.Value) {
	cur := m
	for i, fd := range ref.fds {
		if i == len(ref.fds)-1 {
			if fd.IsList() {
				cur.Mutable(fd).List().Append(cloneValue(v))
			} else {
				cur.Set(fd, cloneValue(v))
			}
			return
		}
		cur = cur.Mutable(fd).Message()
	}
}

func cloneValue(v protoreflect.Value) protoreflect.Value {
	if m, ok := v.Interface().(protoreflect.Message); ok {
		return protoreflect.ValueOfMessage(proto.Clone(m.Interface()).ProtoReflect())
	}
	if b, ok := v.Interface().([]byte); ok {
		return protoreflect.ValueOfBytes(append([]byte(nil), b...))
	}
	return v
}

// urlFields enumerates every ComplexRequest field path whose values have a URL text form:
// top-level scalars, enums, repeated scalars, well-known wrappers/time types, the scalar
// members of `nested`, and the scalar / well-known oneof members.
func urlFields() []fieldRef {
	var out []fieldRef
	fs := complexDesc.Fields()
	for i := 0; i < fs.Len(); i++ {
		fd := fs.Get(i)
		switch {
		case fd.IsMap():
		case fd.Kind() == protoreflect.MessageKind || fd.Kind() == protoreflect.GroupKind:
			if fd.IsList() {
				continue
			}
			if wktValues(fd.Message()) != nil {
				out = append(out, resolveRef(complexDesc, string(fd.Name())))
			}
			if fd.Name() == "nested" {
				nfs := fd.Message().Fields()
				for j := 0; j < nfs.Len(); j++ {
					out = append(out, resolveRef(complexDesc, "nested."+string(nfs.Get(j).Name())))
				}
			}
		default:
			out = append(out, resolveRef(complexDesc, string(fd.Name())))
		}
	}
	return out
}

func valuesOf(ref fieldRef) []textVal {
	fd := ref.leaf()
	if fd.Kind() == protoreflect.MessageKind {
		return wktValues(fd.Message())
	}
	return kindValues(fd)
}

// complexSchema: dynamic service vt3.C with Check(ComplexRequest) returns (ComplexRequest),
// rules supplied through service config.
type complexSchema struct {
	*routeSchema
}

func newComplexSchema() (*routeSchema, error) {
	f := dyn.File{Name: "vt3/c.proto", Pkg: "vt3", Deps: []protoreflect.FileDescriptor{testpb.File_larking_api_test_proto},
		Services: []dyn.Service{{Name: "C", Methods: []dyn.Method{
			{Name: "M1", In: ".larking.testpb.ComplexRequest", Out: ".larking.testpb.ComplexRequest"},
		}}}}
	fd, reg, err := f.Build()
	if err != nil {
		return nil, err
	}
	rs := &routeSchema{pkg: "vt3", fd: fd, reg: reg, sd: fd.Services().Get(0)}
	rs.gsd = dyn.ServiceDesc(rs.sd)
	rs.reqDesc = complexDesc
	rs.rspDesc = complexDesc
	rs.methods = []string{"/vt3.C/M1"}
	return rs, nil
}

func newComplexMsg() protoreflect.Message { return dynamicpb.NewMessage(complexDesc) }

func fmtMsg(m proto.Message) string {
	if m == nil {
		return "<nil>"
	}
	return fmt.Sprintf("%v", m)
}
