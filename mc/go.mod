module verif

go 1.22.7

require (
	github.com/anishathalye/porcupine v1.3.0
	github.com/gobwas/ws v1.2.0
	golang.org/x/net v0.29.0
	google.golang.org/genproto v0.0.0-20230410155749-daa745c078e1
	google.golang.org/grpc v1.68.0
	google.golang.org/protobuf v1.34.2
	larking.io v0.0.0
)

require (
	github.com/gobwas/httphead v0.1.0 // indirect
	github.com/gobwas/pool v0.2.1 // indirect
	golang.org/x/sys v0.25.0 // indirect
	golang.org/x/text v0.18.0 // indirect
)

replace larking.io => /repo
