// Package dyn builds protobuf services at run time (descriptors with google.api.http
// annotations, grpc.ServiceDesc with recording handlers) so that rule sets and schemas can
// be enumerated without generated code.
package dyn

import (
	"context"
	"fmt"
	"strings"

	"google.golang.org/genproto/googleapis/api/annotations"
	"google.golang.org/genproto/googleapis/api/httpbody"
	"google.golang.org/grpc"
	"google.golang.org/protobuf/proto"
	"google.golang.org/protobuf/reflect/protodesc"
	"google.golang.org/protobuf/reflect/protoreflect"
	"google.golang.org/protobuf/reflect/protoregistry"
	"google.golang.org/protobuf/types/descriptorpb"
	"google.golang.org/protobuf/types/dynamicpb"
	"google.golang.org/protobuf/types/known/anypb"
	"google.golang.org/protobuf/types/known/durationpb"
	"google.golang.org/protobuf/types/known/emptypb"
	"google.golang.org/protobuf/types/known/fieldmaskpb"
	"google.golang.org/protobuf/types/known/structpb"
	"google.golang.org/protobuf/types/known/timestamppb"
	"google.golang.org/protobuf/types/known/wrapperspb"
)

// Rule is a google.api.http rule.
type Rule struct {
	Kind string // get put post delete patch, anything else = custom kind
	Path string
	Body string
	Resp string
	Add  []Rule
	Sel  string // selector (service-config rules only)
}

// Verb returns the HTTP verb the rule is served under ("*" for the any-kind).
func (r Rule) Verb() string { return strings.ToUpper(r.Kind) }

func (r Rule) Proto() *annotations.HttpRule {
	h := &annotations.HttpRule{Selector: r.Sel, Body: r.Body, ResponseBody: r.Resp}
	switch r.Kind {
	case "get":
		h.Pattern = &annotations.HttpRule_Get{Get: r.Path}
	case "put":
		h.Pattern = &annotations.HttpRule_Put{Put: r.Path}
	case "post":
		h.Pattern = &annotations.HttpRule_Post{Post: r.Path}
	case "delete":
		h.Pattern = &annotations.HttpRule_Delete{Delete: r.Path}
	case "patch":
		h.Pattern = &annotations.HttpRule_Patch{Patch: r.Path}
	default:
		h.Pattern = &annotations.HttpRule_Custom{Custom: &annotations.CustomHttpPattern{Kind: r.Kind, Path: r.Path}}
	}
	for _, a := range r.Add {
		h.AdditionalBindings = append(h.AdditionalBindings, a.Proto())
	}
	return h
}

func (r Rule) String() string {
	s := fmt.Sprintf("%s %s", r.Kind, r.Path)
	if r.Body != "" {
		s += " body=" + r.Body
	}
	if r.Resp != "" {
		s += " resp=" + r.Resp
	}
	for _, a := range r.Add {
		s += " +[" + a.String() + "]"
	}
	return s
}

type Method struct {
	Name   string
	In     string // message name, relative to the package or fully qualified with leading '.'
	Out    string
	CS, SS bool
	Rule   *Rule // annotation
}

type Service struct {
	Name    string
	Methods []Method
}

type File struct {
	Name     string
	Pkg      string
	Messages []*descriptorpb.DescriptorProto
	Enums    []*descriptorpb.EnumDescriptorProto
	Services []Service
	Deps     []protoreflect.FileDescriptor // extra imports (e.g. testpb.File_api_test_proto)
}

var wellKnownDeps = []protoreflect.FileDescriptor{
	annotations.File_google_api_annotations_proto,
	annotations.File_google_api_http_proto,
	httpbody.File_google_api_httpbody_proto,
	timestamppb.File_google_protobuf_timestamp_proto,
	durationpb.File_google_protobuf_duration_proto,
	wrapperspb.File_google_protobuf_wrappers_proto,
	fieldmaskpb.File_google_protobuf_field_mask_proto,
	structpb.File_google_protobuf_struct_proto,
	anypb.File_google_protobuf_any_proto,
	emptypb.File_google_protobuf_empty_proto,
	descriptorpb.File_google_protobuf_descriptor_proto,
}

func typeName(pkg, n string) string {
	if strings.HasPrefix(n, ".") {
		return n
	}
	return "." + pkg + "." + n
}

// Proto renders the FileDescriptorProto.
func (f File) Proto() *descriptorpb.FileDescriptorProto {
	fdp := &descriptorpb.FileDescriptorProto{
		Name:        proto.String(f.Name),
		Package:     proto.String(f.Pkg),
		Syntax:      proto.String("proto3"),
		MessageType: f.Messages,
		EnumType:    f.Enums,
	}
	for _, d := range wellKnownDeps {
		fdp.Dependency = append(fdp.Dependency, d.Path())
	}
	for _, d := range f.Deps {
		fdp.Dependency = append(fdp.Dependency, d.Path())
	}
	for _, s := range f.Services {
		sp := &descriptorpb.ServiceDescriptorProto{Name: proto.String(s.Name)}
		for _, m := range s.Methods {
			mp := &descriptorpb.MethodDescriptorProto{
				Name:       proto.String(m.Name),
				InputType:  proto.String(typeName(f.Pkg, m.In)),
				OutputType: proto.String(typeName(f.Pkg, m.Out)),
			}
			if m.CS {
				mp.ClientStreaming = proto.Bool(true)
			}
			if m.SS {
				mp.ServerStreaming = proto.Bool(true)
			}
			if m.Rule != nil {
				opts := &descriptorpb.MethodOptions{}
				proto.SetExtension(opts, annotations.E_Http, m.Rule.Proto())
				mp.Options = opts
			}
			sp.Method = append(sp.Method, mp)
		}
		fdp.Service = append(fdp.Service, sp)
	}
	return fdp
}

// Build creates the file descriptor and a registry holding it plus its dependencies.
func (f File) Build() (protoreflect.FileDescriptor, *protoregistry.Files, error) {
	reg := &protoregistry.Files{}
	for _, d := range append(append([]protoreflect.FileDescriptor{}, wellKnownDeps...), f.Deps...) {
		if _, err := reg.FindFileByPath(d.Path()); err == nil {
			continue
		}
		if err := registerWithDeps(reg, d); err != nil {
			return nil, nil, err
		}
	}
	fd, err := protodesc.NewFile(f.Proto(), reg)
	if err != nil {
		return nil, nil, err
	}
	if err := reg.RegisterFile(fd); err != nil {
		return nil, nil, err
	}
	return fd, reg, nil
}

func registerWithDeps(reg *protoregistry.Files, fd protoreflect.FileDescriptor) error {
	if _, err := reg.FindFileByPath(fd.Path()); err == nil {
		return nil
	}
	imps := fd.Imports()
	for i := 0; i < imps.Len(); i++ {
		if err := registerWithDeps(reg, imps.Get(i).FileDescriptor); err != nil {
			return err
		}
	}
	return reg.RegisterFile(fd)
}

// Call is what a recording handler sees.
type Call struct {
	Method string // /pkg.Service/Method
	Desc   protoreflect.MethodDescriptor
	Ctx    context.Context
	Req    proto.Message     // unary: the decoded request
	Stream grpc.ServerStream // streaming methods
	Info   any               // *grpc.UnaryServerInfo / nil
}

// Impl implements every method of a dynamic service.
type Impl interface {
	// Unary handles a unary call; DecErr is the error of decoding the request (nil if ok).
	Unary(c *Call) (proto.Message, error)
	Stream(c *Call) error
}

type dynServer interface{ impl() Impl }

type server struct{ i Impl }

func (s *server) impl() Impl { return s.i }

// NewServer wraps an Impl as the "ss" argument for RegisterService.
func NewServer(i Impl) any { return &server{i} }

// ServiceDesc builds a grpc.ServiceDesc whose handlers behave like generated code
// (decode, interceptor, call) and hand every call to the Impl passed as the service value.
func ServiceDesc(sd protoreflect.ServiceDescriptor) *grpc.ServiceDesc {
	gsd := &grpc.ServiceDesc{
		ServiceName: string(sd.FullName()),
		HandlerType: (*dynServer)(nil),
		Metadata:    sd.ParentFile().Path(),
	}
	mds := sd.Methods()
	for i := 0; i < mds.Len(); i++ {
		md := mds.Get(i)
		full := fmt.Sprintf("/%s/%s", sd.FullName(), md.Name())
		if md.IsStreamingClient() || md.IsStreamingServer() {
			gsd.Streams = append(gsd.Streams, grpc.StreamDesc{
				StreamName:    string(md.Name()),
				ClientStreams: md.IsStreamingClient(),
				ServerStreams: md.IsStreamingServer(),
				Handler: func(srv interface{}, stream grpc.ServerStream) error {
					return srv.(dynServer).impl().Stream(&Call{Method: full, Desc: md, Ctx: stream.Context(), Stream: stream})
				},
			})
			continue
		}
		gsd.Methods = append(gsd.Methods, grpc.MethodDesc{
			MethodName: string(md.Name()),
			Handler: func(srv interface{}, ctx context.Context, dec func(interface{}) error, interceptor grpc.UnaryServerInterceptor) (interface{}, error) {
				in := dynamicpb.NewMessage(md.Input())
				if err := dec(in); err != nil {
					return nil, err
				}
				im := srv.(dynServer).impl()
				if interceptor == nil {
					return wrapReply(im.Unary(&Call{Method: full, Desc: md, Ctx: ctx, Req: in}))
				}
				info := &grpc.UnaryServerInfo{Server: srv, FullMethod: full}
				h := func(ctx context.Context, req interface{}) (interface{}, error) {
					return wrapReply(im.Unary(&Call{Method: full, Desc: md, Ctx: ctx, Req: req.(proto.Message), Info: info}))
				}
				return interceptor(ctx, in, info, h)
			},
		})
	}
	return gsd
}

func wrapReply(m proto.Message, err error) (interface{}, error) {
	if err != nil {
		return nil, err
	}
	return m, nil
}

// Msg is a tiny helper to declare messages.
func Msg(name string, fields ...*descriptorpb.FieldDescriptorProto) *descriptorpb.DescriptorProto {
	return &descriptorpb.DescriptorProto{Name: proto.String(name), Field: fields}
}

func field(name string, num int32, t descriptorpb.FieldDescriptorProto_Type) *descriptorpb.FieldDescriptorProto {
	return &descriptorpb.FieldDescriptorProto{
		Name:     proto.String(name),
		Number:   proto.Int32(num),
		Type:     t.Enum(),
		Label:    descriptorpb.FieldDescriptorProto_LABEL_OPTIONAL.Enum(),
		JsonName: proto.String(jsonName(name)),
	}
}

func jsonName(s string) string {
	var b strings.Builder
	up := false
	for _, r := range s {
		if r == '_' {
			up = true
			continue
		}
		if up && r >= 'a' && r <= 'z' {
			r -= 'a' - 'A'
		}
		up = false
		b.WriteRune(r)
	}
	return b.String()
}

func Str(name string, num int32) *descriptorpb.FieldDescriptorProto {
	return field(name, num, descriptorpb.FieldDescriptorProto_TYPE_STRING)
}
func Int64(name string, num int32) *descriptorpb.FieldDescriptorProto {
	return field(name, num, descriptorpb.FieldDescriptorProto_TYPE_INT64)
}
func Int32(name string, num int32) *descriptorpb.FieldDescriptorProto {
	return field(name, num, descriptorpb.FieldDescriptorProto_TYPE_INT32)
}
func Bool(name string, num int32) *descriptorpb.FieldDescriptorProto {
	return field(name, num, descriptorpb.FieldDescriptorProto_TYPE_BOOL)
}
func Bytes(name string, num int32) *descriptorpb.FieldDescriptorProto {
	return field(name, num, descriptorpb.FieldDescriptorProto_TYPE_BYTES)
}
func Scalar(name string, num int32, t descriptorpb.FieldDescriptorProto_Type) *descriptorpb.FieldDescriptorProto {
	return field(name, num, t)
}
func MsgField(name string, num int32, typ string) *descriptorpb.FieldDescriptorProto {
	f := field(name, num, descriptorpb.FieldDescriptorProto_TYPE_MESSAGE)
	f.TypeName = proto.String(typ)
	return f
}
func EnumField(name string, num int32, typ string) *descriptorpb.FieldDescriptorProto {
	f := field(name, num, descriptorpb.FieldDescriptorProto_TYPE_ENUM)
	f.TypeName = proto.String(typ)
	return f
}
func Repeated(f *descriptorpb.FieldDescriptorProto) *descriptorpb.FieldDescriptorProto {
	f.Label = descriptorpb.FieldDescriptorProto_LABEL_REPEATED.Enum()
	return f
}

// MapField declares map<string,string> name = num inside message parent (adds the entry type).
func MapField(parent *descriptorpb.DescriptorProto, pkgQualifiedParent, name string, num int32) {
	entry := strings.ToUpper(name[:1]) + jsonName(name)[1:] + "Entry"
	parent.NestedType = append(parent.NestedType, &descriptorpb.DescriptorProto{
		Name:    proto.String(entry),
		Field:   []*descriptorpb.FieldDescriptorProto{Str("key", 1), Str("value", 2)},
		Options: &descriptorpb.MessageOptions{MapEntry: proto.Bool(true)},
	})
	f := MsgField(name, num, pkgQualifiedParent+"."+entry)
	f.Label = descriptorpb.FieldDescriptorProto_LABEL_REPEATED.Enum()
	parent.Field = append(parent.Field, f)
}
