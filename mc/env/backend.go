package env

import (
	"context"
	"fmt"
	"io"
	"strings"
	"sync"

	"google.golang.org/grpc"
	"google.golang.org/grpc/codes"
	"google.golang.org/grpc/credentials/insecure"
	"google.golang.org/grpc/metadata"
	rpb "google.golang.org/grpc/reflection/grpc_reflection_v1alpha"
	"google.golang.org/grpc/status"
	"google.golang.org/protobuf/proto"
	"google.golang.org/protobuf/reflect/protodesc"
	"google.golang.org/protobuf/reflect/protoreflect"
)

// Backend is a scripted gRPC back-end reachable through a real *grpc.ClientConn that never
// dials: the conn's interceptors answer instead of the transport. Reflection requests are
// answered from the descriptors the back-end currently offers; data-plane calls are handed
// to the script.
type Backend struct {
	Name     string
	mu       sync.Mutex
	files    []protoreflect.FileDescriptor
	services []string // full names currently offered (ListServices)
	cc       *grpc.ClientConn

	// Unary answers a unary call: fills reply or returns a status error.
	Unary func(ctx context.Context, method string, req, reply proto.Message) error
	// NewStream creates the back-end side of a streaming call (nil = Unimplemented).
	NewStream func(ctx context.Context, desc *grpc.StreamDesc, method string) (grpc.ClientStream, error)

	UnaryCalls  int
	StreamCalls int
	ReflCalls   int
	LastMethod  string
	LastMD      metadata.MD
	// FailCloseSend makes the reflection stream's CloseSend fail (the connection broke at the
	// very end of the exchange).
	FailCloseSend bool
	// FailReflection makes the n-th reflection request fail (1-based; 0 = never).
	FailReflection int
	reflReqs       int
}

func NewBackend(name string, files []protoreflect.FileDescriptor, services []string) *Backend {
	b := &Backend{Name: name, files: files, services: services}
	cc, err := grpc.NewClient("passthrough:///verif-"+name,
		grpc.WithTransportCredentials(insecure.NewCredentials()),
		grpc.WithUnaryInterceptor(b.unaryInterceptor),
		grpc.WithStreamInterceptor(b.streamInterceptor))
	if err != nil {
		panic(err)
	}
	b.cc = cc
	return b
}

func (b *Backend) Conn() *grpc.ClientConn { return b.cc }

// Offer changes what the back-end advertises through reflection.
func (b *Backend) Offer(files []protoreflect.FileDescriptor, services []string) {
	b.mu.Lock()
	b.files, b.services = files, services
	b.mu.Unlock()
}

func (b *Backend) Services() []string {
	b.mu.Lock()
	defer b.mu.Unlock()
	return append([]string(nil), b.services...)
}

func (b *Backend) unaryInterceptor(ctx context.Context, method string, req, reply any, cc *grpc.ClientConn, invoker grpc.UnaryInvoker, opts ...grpc.CallOption) error {
	b.mu.Lock()
	b.UnaryCalls++
	b.LastMethod = method
	b.LastMD, _ = metadata.FromOutgoingContext(ctx)
	fn := b.Unary
	b.mu.Unlock()
	if fn == nil {
		return status.Errorf(codes.Unimplemented, "backend %s: no unary script", b.Name)
	}
	return fn(ctx, method, req.(proto.Message), reply.(proto.Message))
}

func (b *Backend) streamInterceptor(ctx context.Context, desc *grpc.StreamDesc, cc *grpc.ClientConn, method string, streamer grpc.Streamer, opts ...grpc.CallOption) (grpc.ClientStream, error) {
	if strings.HasSuffix(method, "ServerReflection/ServerReflectionInfo") {
		b.mu.Lock()
		b.ReflCalls++
		b.mu.Unlock()
		return &reflStream{b: b, ctx: ctx}, nil
	}
	b.mu.Lock()
	b.StreamCalls++
	b.LastMethod = method
	b.LastMD, _ = metadata.FromOutgoingContext(ctx)
	fn := b.NewStream
	b.mu.Unlock()
	if fn == nil {
		return nil, status.Errorf(codes.Unimplemented, "backend %s: no stream script", b.Name)
	}
	return fn(ctx, desc, method)
}

// reflStream answers reflection requests synchronously: every Send computes the response
// that the next Recv returns (strict alternation, as larking uses it).
type reflStream struct {
	b       *Backend
	ctx     context.Context
	pending []*rpb.ServerReflectionResponse
	closed  bool
}

func (r *reflStream) Header() (metadata.MD, error) { return nil, nil }
func (r *reflStream) Trailer() metadata.MD         { return nil }
func (r *reflStream) CloseSend() error {
	r.closed = true
	if r.b.FailCloseSend {
		return status.Error(codes.Unavailable, "reflection stream broke while closing")
	}
	return nil
}
func (r *reflStream) Context() context.Context { return r.ctx }

func (r *reflStream) SendMsg(m any) error {
	req := m.(*rpb.ServerReflectionRequest)
	b := r.b
	b.mu.Lock()
	b.reflReqs++
	fail := b.FailReflection > 0 && b.reflReqs == b.FailReflection
	files, services := b.files, b.services
	b.mu.Unlock()
	if fail {
		return status.Error(codes.Unavailable, "backend: reflection stream broke")
	}
	out := &rpb.ServerReflectionResponse{ValidHost: req.Host, OriginalRequest: req}
	fileResp := func(fd protoreflect.FileDescriptor) {
		bts, err := proto.Marshal(protodesc.ToFileDescriptorProto(fd))
		if err != nil {
			panic(err)
		}
		out.MessageResponse = &rpb.ServerReflectionResponse_FileDescriptorResponse{FileDescriptorResponse: &rpb.FileDescriptorResponse{FileDescriptorProto: [][]byte{bts}}}
	}
	notFound := func(what string) {
		out.MessageResponse = &rpb.ServerReflectionResponse_ErrorResponse{ErrorResponse: &rpb.ErrorResponse{ErrorCode: int32(codes.NotFound), ErrorMessage: what + " not found"}}
	}
	switch q := req.MessageRequest.(type) {
	case *rpb.ServerReflectionRequest_ListServices:
		var svcs []*rpb.ServiceResponse
		for _, s := range services {
			svcs = append(svcs, &rpb.ServiceResponse{Name: s})
		}
		out.MessageResponse = &rpb.ServerReflectionResponse_ListServicesResponse{ListServicesResponse: &rpb.ListServiceResponse{Service: svcs}}
	case *rpb.ServerReflectionRequest_FileContainingSymbol:
		found := false
		for _, fd := range files {
			if containsSymbol(fd, q.FileContainingSymbol) {
				fileResp(fd)
				found = true
				break
			}
		}
		if !found {
			notFound(q.FileContainingSymbol)
		}
	case *rpb.ServerReflectionRequest_FileByFilename:
		found := false
		var search func(fd protoreflect.FileDescriptor) bool
		seen := map[string]bool{}
		search = func(fd protoreflect.FileDescriptor) bool {
			if seen[fd.Path()] {
				return false
			}
			seen[fd.Path()] = true
			if fd.Path() == q.FileByFilename {
				fileResp(fd)
				return true
			}
			imps := fd.Imports()
			for i := 0; i < imps.Len(); i++ {
				if search(imps.Get(i).FileDescriptor) {
					return true
				}
			}
			return false
		}
		for _, fd := range files {
			if search(fd) {
				found = true
				break
			}
		}
		if !found {
			notFound(q.FileByFilename)
		}
	default:
		notFound(fmt.Sprintf("%T", q))
	}
	r.pending = append(r.pending, out)
	return nil
}

func (r *reflStream) RecvMsg(m any) error {
	if len(r.pending) == 0 {
		if r.closed {
			return io.EOF
		}
		return status.Error(codes.Internal, "backend: reflection Recv without a pending request")
	}
	out := r.pending[0]
	r.pending = r.pending[1:]
	proto.Reset(m.(proto.Message))
	proto.Merge(m.(proto.Message), out)
	return nil
}

func containsSymbol(fd protoreflect.FileDescriptor, sym string) bool {
	name := protoreflect.FullName(sym)
	if fd.Services().ByName(name.Name()) != nil && name.Parent() == fd.Package() {
		return true
	}
	if fd.Messages().ByName(name.Name()) != nil && name.Parent() == fd.Package() {
		return true
	}
	// method symbol pkg.Service.Method
	if p := name.Parent(); p != "" {
		if sd := fd.Services().ByName(p.Name()); sd != nil && p.Parent() == fd.Package() {
			return sd.Methods().ByName(name.Name()) != nil
		}
	}
	return false
}
