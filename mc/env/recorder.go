// Package env is the in-process environment model: what net/http, the request body,
// a WebSocket peer and a proxied back-end look like from larking's side.
package env

import (
	"bufio"
	"bytes"
	"errors"
	"io"
	"net"
	"net/http"
	"strings"
)

// Recorder is an http.ResponseWriter that behaves like net/http's server side for the
// observables a client can see: the header snapshot taken at the first WriteHeader/Write/Flush,
// the body bytes, and the trailers (keys announced in "Trailer" before the snapshot, plus
// http.TrailerPrefix keys), exactly as net/http (h1 chunked and h2) would deliver them.
type Recorder struct {
	hdr         http.Header
	Code        int         // 0 until written
	Snap        http.Header // header snapshot at commit time
	Body        bytes.Buffer
	Flushes     int
	Writes      int
	WriteSizes  []int
	FailWriteAt int            // fail the n-th Write (1-based); 0 = never
	WriteErr    error          // error returned by a failing Write
	OnWrite     func(p []byte) // optional observation hook (scheduler point)
	Hijacked    bool
	HijackConn  net.Conn // returned by Hijack when non-nil
	announced   []string
}

func NewRecorder() *Recorder { return &Recorder{hdr: http.Header{}} }

func (r *Recorder) Header() http.Header { return r.hdr }

func (r *Recorder) commit(code int) {
	if r.Snap != nil {
		return
	}
	r.Code = code
	r.Snap = r.hdr.Clone()
	if r.Snap == nil {
		r.Snap = http.Header{}
	}
	for _, v := range r.hdr["Trailer"] {
		for _, k := range strings.Split(v, ",") {
			k = http.CanonicalHeaderKey(strings.TrimSpace(k))
			switch k {
			case "Transfer-Encoding", "Content-Length", "Trailer", "":
				continue
			}
			r.announced = append(r.announced, k)
		}
	}
}

func (r *Recorder) WriteHeader(code int) {
	if r.Snap != nil {
		return // net/http logs "superfluous WriteHeader" and ignores it
	}
	r.commit(code)
}

func (r *Recorder) Write(p []byte) (int, error) {
	r.commit(200)
	r.Writes++
	if r.OnWrite != nil {
		r.OnWrite(p)
	}
	if r.FailWriteAt > 0 && r.Writes >= r.FailWriteAt {
		err := r.WriteErr
		if err == nil {
			err = errors.New("env: write on closed connection")
		}
		return 0, err
	}
	r.WriteSizes = append(r.WriteSizes, len(p))
	return r.Body.Write(p)
}

func (r *Recorder) Flush() {
	r.commit(200)
	r.Flushes++
}

// Hijack implements http.Hijacker when HijackConn is set.
func (r *Recorder) Hijack() (net.Conn, *bufio.ReadWriter, error) {
	if r.HijackConn == nil {
		return nil, nil, errors.New("env: hijack not supported")
	}
	r.Hijacked = true
	rw := bufio.NewReadWriter(bufio.NewReader(r.HijackConn), bufio.NewWriter(r.HijackConn))
	return r.HijackConn, rw, nil
}

// Finish must be called after the handler returned: commits an implicit 200 like net/http.
func (r *Recorder) Finish() {
	if !r.Hijacked {
		r.commit(200)
	}
}

// Trailers returns the trailers a client would receive.
func (r *Recorder) Trailers() http.Header {
	t := http.Header{}
	for _, k := range r.announced {
		if vs, ok := r.hdr[k]; ok {
			t[k] = append([]string(nil), vs...)
		}
	}
	for k, vs := range r.hdr {
		if strings.HasPrefix(k, http.TrailerPrefix) {
			t[strings.TrimPrefix(k, http.TrailerPrefix)] = append([]string(nil), vs...)
		}
	}
	return t
}

// Script describes how a byte stream is handed out to Read calls.
type Script struct {
	Data []byte
	// Cuts are ascending offsets in (0,len(Data)) at which a Read must stop even if the
	// caller's buffer has room. nil = hand out as much as asked.
	Cuts []int
	// MaxRead > 0 caps every Read at that many bytes (uniform chunking).
	MaxRead int
	// EOFWithData: the Read that returns the last bytes also returns the terminal error.
	EOFWithData bool
	// Err is the terminal condition once Data is exhausted (nil = io.EOF).
	Err error
}

// Reader is a scripted io.ReadCloser.
type Reader struct {
	S         Script
	pos       int
	cut       int
	Reads     int
	PostEnd   int // Reads issued after the terminal error was delivered
	ended     bool
	Closed    bool
	ZeroReads int
	// ReadsAfterClose counts Reads issued after Close (they fail)
	ReadsAfterClose int
	OnRead          func() // optional scheduler point
}

func NewReader(s Script) *Reader { return &Reader{S: s} }

func (r *Reader) term() error {
	if r.S.Err != nil {
		return r.S.Err
	}
	return io.EOF
}

func (r *Reader) Read(p []byte) (int, error) {
	r.Reads++
	if r.OnRead != nil {
		r.OnRead()
	}
	if r.Closed {
		// as net/http's request bodies: closing is final (HTTP/1: ErrBodyReadAfterClose,
		// HTTP/2: "http2: request body closed due to handler exiting")
		r.ReadsAfterClose++
		return 0, http.ErrBodyReadAfterClose
	}
	if r.pos >= len(r.S.Data) {
		if r.ended {
			r.PostEnd++
		}
		r.ended = true
		return 0, r.term()
	}
	if len(p) == 0 {
		r.ZeroReads++
		return 0, nil
	}
	end := len(r.S.Data)
	for r.cut < len(r.S.Cuts) && r.S.Cuts[r.cut] <= r.pos {
		r.cut++
	}
	if r.cut < len(r.S.Cuts) && r.S.Cuts[r.cut] < end {
		end = r.S.Cuts[r.cut]
	}
	if r.S.MaxRead > 0 && r.pos+r.S.MaxRead < end {
		end = r.pos + r.S.MaxRead
	}
	n := copy(p, r.S.Data[r.pos:end])
	r.pos += n
	if r.pos >= len(r.S.Data) && r.S.EOFWithData {
		r.ended = true
		return n, r.term()
	}
	return n, nil
}

func (r *Reader) Close() error { r.Closed = true; return nil }

// Consumed returns how many bytes were handed out.
func (r *Reader) Consumed() int { return r.pos }

// AllCutSets enumerates every subset of cut positions {1..n-1} for a stream of n bytes
// (2^(n-1) partitions). fn may keep the slice only during the call.
func AllCutSets(n int, fn func(cuts []int)) {
	if n <= 1 {
		fn(nil)
		return
	}
	m := n - 1
	cuts := make([]int, 0, m)
	for mask := 0; mask < 1<<m; mask++ {
		cuts = cuts[:0]
		for i := 0; i < m; i++ {
			if mask&(1<<i) != 0 {
				cuts = append(cuts, i+1)
			}
		}
		fn(cuts)
	}
}

// SmallCutSets enumerates all cut sets of size <= k over positions 1..n-1.
func SmallCutSets(n, k int, fn func(cuts []int)) {
	fn(nil)
	if k >= 1 {
		for a := 1; a < n; a++ {
			fn([]int{a})
		}
	}
	if k >= 2 {
		for a := 1; a < n; a++ {
			for b := a + 1; b < n; b++ {
				fn([]int{a, b})
			}
		}
	}
}
