package env

import (
	"bytes"
	"errors"
	"net"
	"time"
)

// Conn is a scripted in-memory net.Conn: the peer's bytes come from a Reader script, the
// bytes written by the code under test are collected.
type Conn struct {
	R               *Reader
	W               bytes.Buffer
	Writes          int
	FailWriteAt     int // fail the n-th Write (1-based); 0 = never
	Closed          bool
	WriteAfterClose int
	OnWrite         func(n int) // observation hook, called after the n-th successful Write
}

func NewConn(s Script) *Conn { return &Conn{R: NewReader(s)} }

func (c *Conn) Read(p []byte) (int, error) {
	if c.Closed {
		return 0, net.ErrClosed
	}
	return c.R.Read(p)
}

func (c *Conn) Write(p []byte) (int, error) {
	if c.Closed {
		c.WriteAfterClose++
		return 0, net.ErrClosed
	}
	c.Writes++
	if c.FailWriteAt > 0 && c.Writes >= c.FailWriteAt {
		return 0, errors.New("env: write: broken pipe")
	}
	n, err := c.W.Write(p)
	if c.OnWrite != nil {
		c.OnWrite(c.Writes)
	}
	return n, err
}

func (c *Conn) Close() error                       { c.Closed = true; return nil }
func (c *Conn) LocalAddr() net.Addr                { return addr("local") }
func (c *Conn) RemoteAddr() net.Addr               { return addr("remote") }
func (c *Conn) SetDeadline(t time.Time) error      { return nil }
func (c *Conn) SetReadDeadline(t time.Time) error  { return nil }
func (c *Conn) SetWriteDeadline(t time.Time) error { return nil }

type addr string

func (a addr) Network() string { return "verif" }
func (a addr) String() string  { return string(a) }
