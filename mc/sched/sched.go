// Package sched is a cooperative, controlled scheduler for stateless model checking of the
// real code: exactly one controlled thread runs at a time; before every synchronisation
// operation (routed here by the shims in verif/shim) the running thread reaches a *point*,
// and the explorer decides which enabled thread continues. Blocking is modelled (a thread
// whose guard is false is simply not enabled), so a state with no enabled thread and
// unfinished threads is a deadlock — detected exactly, without timeouts.
//
// An execution is a function of its choice sequence. Choices are made at
//   - scheduling points (which enabled thread runs next; canonical order: the running thread
//     first if still enabled, then ascending thread ids), and
//   - environment points (Choose: pool emptied or not, which handler rand picks, …).
package sched

import (
	"crypto/sha256"
	"fmt"
	"runtime"
	"strings"
	"sync"
)

// Kind of a recorded choice point.
const (
	KindSched = iota
	KindEnv
)

// PointRec is one recorded choice point of an execution.
type PointRec struct {
	Kind           int
	N              int    // number of alternatives
	Chosen         int    // index taken
	RunningEnabled bool   // KindSched: alternative 0 is "keep running the current thread"
	Label          string // operation the *chosen* thread is about to perform / env label
	Thread         int    // chosen thread id (KindSched) or choosing thread (KindEnv)
	StateKey       string // TrackState: canonical key of the global state in which this choice is made
}

type thread struct {
	id    int
	name  string
	wake  chan struct{}
	guard func() bool // nil = always enabled
	label string
	done  bool
	atPt  bool
	hist  [32]byte // TrackState: running hash of everything this thread did and observed
	steps int      // points this thread has reached
}

// Abort is the panic value used to unwind parked threads when an execution is torn down.
type abortT struct{}

// S is one execution's scheduler.
type S struct {
	mu       sync.Mutex
	threads  []*thread
	cur      *thread
	prefix   []int
	Trace    []PointRec
	Deadlock bool
	DeadInfo string
	aborting bool
	finished chan struct{}
	live     int
	Diverged string // replay divergence (prefix choice out of range)
	MaxSteps int
	steps    int
	Livelock bool
	Log      []string // observation log (appended by harnesses through Logf)
	wg       sync.WaitGroup
	ghist    [32]byte // TrackState: running hash of the ordered observation log
}

// TrackState makes the scheduler compute a canonical state key at every recorded choice point
// (stateful exploration). The key is built from: per thread, the running hash of the labels
// of the points it reached, the values it observed (Observe), the environment answers it got
// and the log lines it wrote, plus whether it is finished or parked and at which operation;
// the running hash of the ordered observation log (so that oracles over the order of logged
// events give the same verdict for every path merged into one state); and StateKeyFn(), the
// scenario's fingerprint of the shared state that threads can reach outside hooked operations.
var TrackState bool

// StateKeyFn is the scenario's contribution to the state key (may be nil).
var StateKeyFn func() string

func fold(h [32]byte, parts ...string) [32]byte {
	hh := sha256.New()
	hh.Write(h[:])
	for _, p := range parts {
		hh.Write([]byte{0})
		hh.Write([]byte(p))
	}
	var out [32]byte
	copy(out[:], hh.Sum(nil))
	return out
}

// Observe folds a value the running thread has just read from shared state into its history
// (no-op unless TrackState). Shims and scenarios call it for every result of a hooked
// operation that can differ between interleavings.
func Observe(v string) {
	s := current
	if s == nil || !TrackState {
		return
	}
	s.mu.Lock()
	if s.cur != nil {
		s.cur.hist = fold(s.cur.hist, "obs", v)
	}
	s.mu.Unlock()
}

// ThreadSteps returns the number of points the running thread has reached so far.
func ThreadSteps() int {
	s := current
	if s == nil || s.cur == nil {
		return 0
	}
	return s.cur.steps
}

// stateKeyLocked computes the canonical key of the current global state.
func (s *S) stateKeyLocked(extra string) string {
	hh := sha256.New()
	for _, t := range s.threads {
		fmt.Fprintf(hh, "%d|%v|%v|%s|", t.id, t.done, t.atPt, t.label)
		hh.Write(t.hist[:])
	}
	hh.Write(s.ghist[:])
	hh.Write([]byte(extra))
	if StateKeyFn != nil {
		hh.Write([]byte(StateKeyFn()))
	}
	return string(hh.Sum(nil)[:16])
}

var (
	current   *S // the installed scheduler (nil = free-running mode)
	currentMu sync.Mutex
)

// Active reports whether a scheduler is installed (shims delegate to the real primitives when not).
func Active() *S { return current }

// Run executes body as thread 0 under a fresh scheduler that replays prefix and then always
// takes alternative 0. It returns when every controlled thread finished, or on deadlock /
// livelock / divergence (parked threads are then unwound).
func Run(prefix []int, maxSteps int, body func()) *S {
	s := &S{prefix: prefix, finished: make(chan struct{}), MaxSteps: maxSteps}
	currentMu.Lock()
	if current != nil {
		currentMu.Unlock()
		panic("sched: nested Run")
	}
	current = s
	currentMu.Unlock()

	t0 := s.newThread("main")
	s.cur = t0
	s.live = 1
	s.wg.Add(1)
	go s.threadMain(t0, body)
	t0.wake <- struct{}{}
	<-s.finished
	s.wg.Wait() // every controlled goroutine has really returned

	currentMu.Lock()
	current = nil
	currentMu.Unlock()
	return s
}

func (s *S) newThread(name string) *thread {
	t := &thread{id: len(s.threads), name: name, wake: make(chan struct{}, 1)}
	s.threads = append(s.threads, t)
	return t
}

func (s *S) threadMain(t *thread, body func()) {
	defer s.wg.Done()
	<-t.wake
	defer func() {
		if r := recover(); r != nil {
			if _, ok := r.(abortT); !ok {
				// a real panic in controlled code: record and tear down
				s.mu.Lock()
				if !s.aborting {
					s.Log = append(s.Log, fmt.Sprintf("PANIC in thread %d (%s): %v\n%s", t.id, t.name, r, shortStack()))
					s.abortLocked("panic")
				}
				s.mu.Unlock()
			}
		}
		s.exit(t)
	}()
	if s.aborting {
		return
	}
	body()
}

func shortStack() string {
	buf := make([]byte, 8192)
	n := runtime.Stack(buf, false)
	var keep []string
	for _, l := range strings.Split(string(buf[:n]), "\n") {
		if strings.Contains(l, "larking") || strings.Contains(l, "verif/props") {
			keep = append(keep, strings.TrimSpace(l))
		}
		if len(keep) > 12 {
			break
		}
	}
	return strings.Join(keep, "\n")
}

// Go starts fn as a new controlled thread (the rewritten form of a `go` statement). In
// free-running mode it is a plain goroutine.
func Go(fn func()) { GoNamed("go", fn) }

func GoNamed(name string, fn func()) {
	s := current
	if s == nil {
		go fn()
		return
	}
	s.mu.Lock()
	if s.aborting {
		s.mu.Unlock()
		return
	}
	t := s.newThread(name)
	s.live++
	s.wg.Add(1)
	// the new thread is enabled from now on; the parent keeps running until its next point
	t.atPt = true
	t.label = "start " + name
	s.mu.Unlock()
	go s.threadMain(t, fn)
}

// Monitor, when set, is called by the running thread at every point before the next thread is
// chosen (state invariants are evaluated here). It must not call back into the scheduler.
var Monitor func(label string)

// exit marks t finished and hands the processor over.
func (s *S) exit(t *thread) {
	s.mu.Lock()
	t.done = true
	t.atPt = false
	s.live--
	if s.live == 0 {
		s.mu.Unlock()
		close(s.finished)
		return
	}
	if s.aborting {
		s.mu.Unlock()
		return
	}
	if s.cur == t {
		next := s.pickLocked(nil)
		s.mu.Unlock()
		if next != nil {
			next.wake <- struct{}{}
		}
		return
	}
	s.mu.Unlock()
}

// abortLocked tears the execution down: every parked thread is woken and unwinds.
func (s *S) abortLocked(why string) {
	if s.aborting {
		return
	}
	s.aborting = true
	for _, t := range s.threads {
		if !t.done && t != s.cur {
			select {
			case t.wake <- struct{}{}:
			default:
			}
		}
	}
}

// Point is called by the running thread before a synchronisation operation. guard (may be
// nil) says whether the operation can proceed; the call returns when this thread has been
// chosen to perform it (guard is then true).
func Point(label string, guard func() bool) {
	s := current
	if s == nil {
		return
	}
	s.point(label, guard)
}

func (s *S) point(label string, guard func() bool) {
	if Monitor != nil && !s.aborting {
		Monitor(label)
	}
	s.mu.Lock()
	if s.aborting {
		s.mu.Unlock()
		panic(abortT{})
	}
	t := s.cur
	t.guard, t.label, t.atPt = guard, label, true
	t.steps++
	if TrackState {
		t.hist = fold(t.hist, "pt", label)
	}
	s.steps++
	if s.MaxSteps > 0 && s.steps > s.MaxSteps {
		s.Livelock = true
		s.abortLocked("livelock")
		s.mu.Unlock()
		panic(abortT{})
	}
	next := s.pickLocked(t)
	if next == nil { // deadlock or divergence: abort
		s.mu.Unlock()
		panic(abortT{})
	}
	if next == t {
		t.atPt = false
		s.mu.Unlock()
		return
	}
	s.mu.Unlock()
	next.wake <- struct{}{}
	<-t.wake
	s.mu.Lock()
	if s.aborting {
		s.mu.Unlock()
		panic(abortT{})
	}
	t.atPt = false
	s.mu.Unlock()
}

// pickLocked chooses the next thread among the enabled ones (running = the thread at a point
// right now, nil if it exited) and records the choice. Returns nil on deadlock/divergence.
func (s *S) pickLocked(running *thread) *thread {
	var enabled []*thread
	runningEnabled := false
	if running != nil && (running.guard == nil || running.guard()) {
		enabled = append(enabled, running)
		runningEnabled = true
	}
	for _, t := range s.threads {
		if t.done || t == running || !t.atPt {
			continue
		}
		if t.guard == nil || t.guard() {
			enabled = append(enabled, t)
		}
	}
	if len(enabled) == 0 {
		s.Deadlock = true
		var parts []string
		for _, t := range s.threads {
			if !t.done {
				parts = append(parts, fmt.Sprintf("thread %d (%s) blocked at %q", t.id, t.name, t.label))
			}
		}
		s.DeadInfo = strings.Join(parts, "; ")
		s.abortLocked("deadlock")
		return nil
	}
	choice := 0
	if len(enabled) > 1 {
		i := len(s.Trace)
		if i < len(s.prefix) {
			choice = s.prefix[i]
			if choice < 0 || choice >= len(enabled) {
				s.Diverged = fmt.Sprintf("point %d: prefix choice %d but only %d alternatives", i, choice, len(enabled))
				s.abortLocked("diverged")
				return nil
			}
		}
		rec := PointRec{Kind: KindSched, N: len(enabled), Chosen: choice, RunningEnabled: runningEnabled, Label: enabled[choice].label, Thread: enabled[choice].id}
		if TrackState {
			rec.StateKey = s.stateKeyLocked("sched")
		}
		s.Trace = append(s.Trace, rec)
	}
	next := enabled[choice]
	s.cur = next
	return next
}

// Choose makes an environment choice with n alternatives (0 is the default answer).
func Choose(label string, n int) int {
	s := current
	if s == nil || n <= 1 {
		return 0
	}
	s.mu.Lock()
	defer s.mu.Unlock()
	if s.aborting {
		return 0
	}
	choice := 0
	i := len(s.Trace)
	if i < len(s.prefix) {
		choice = s.prefix[i]
		if choice < 0 || choice >= n {
			s.Diverged = fmt.Sprintf("point %d (%s): prefix choice %d but only %d alternatives", i, label, choice, n)
			choice = 0
		}
	}
	tid := 0
	if s.cur != nil {
		tid = s.cur.id
	}
	rec := PointRec{Kind: KindEnv, N: n, Chosen: choice, Label: label, Thread: tid}
	if TrackState {
		rec.StateKey = s.stateKeyLocked(fmt.Sprintf("env|%d|%s", tid, label))
		if s.cur != nil {
			s.cur.hist = fold(s.cur.hist, "env", label, fmt.Sprint(choice))
		}
	}
	s.Trace = append(s.Trace, rec)
	return choice
}

// Logf appends to the execution's observation log (used for determinism checks and replays).
func Logf(format string, args ...any) {
	s := current
	if s == nil {
		return
	}
	s.mu.Lock()
	tid := -1
	if s.cur != nil {
		tid = s.cur.id
	}
	line := fmt.Sprintf("[t%d] ", tid) + fmt.Sprintf(format, args...)
	s.Log = append(s.Log, line)
	if TrackState {
		s.ghist = fold(s.ghist, line)
		if s.cur != nil {
			s.cur.hist = fold(s.cur.hist, "log", line)
		}
	}
	s.mu.Unlock()
}

// Aborting reports whether the current execution is being torn down (shims then stop blocking).
func Aborting() bool {
	s := current
	if s == nil {
		return false
	}
	s.mu.Lock()
	defer s.mu.Unlock()
	return s.aborting
}

// ThreadID returns the id of the running controlled thread (-1 in free-running mode).
func ThreadID() int {
	s := current
	if s == nil || s.cur == nil {
		return -1
	}
	return s.cur.id
}

// ThreadCount returns the number of controlled threads created so far (ids are 0..n-1 in
// creation order).
func ThreadCount() int {
	s := current
	if s == nil {
		return 0
	}
	return len(s.threads)
}

// Choices returns the choice sequence actually taken.
func (s *S) Choices() []int {
	out := make([]int, len(s.Trace))
	for i, p := range s.Trace {
		out[i] = p.Chosen
	}
	return out
}
