// Package vsync mirrors the API of package sync. With no scheduler installed every type
// delegates to the real primitive (free-running mode, used for -race passes); under
// verif/sched every operation is a scheduling point and blocking is modelled.
package vsync

import (
	"reflect"
	"sync"

	"verif/sched"
)

type Locker = sync.Locker

// ---- Mutex -------------------------------------------------------------------------------

type Mutex struct {
	real   sync.Mutex
	locked bool
}

func (m *Mutex) Lock() {
	if sched.Active() == nil {
		m.real.Lock()
		return
	}
	sched.Point("Mutex.Lock", func() bool { return !m.locked })
	m.locked = true
}

func (m *Mutex) TryLock() bool {
	if sched.Active() == nil {
		return m.real.TryLock()
	}
	sched.Point("Mutex.TryLock", nil)
	if m.locked {
		return false
	}
	m.locked = true
	return true
}

func (m *Mutex) Unlock() {
	if sched.Active() == nil {
		m.real.Unlock()
		return
	}
	// Releasing is not a scheduling point: it cannot block, and whoever wants the lock has a
	// (guarded) point of its own before taking it. A thread that is not after the lock cannot
	// tell "before the release" from "after it" (larking uses no TryLock), so the switch that a
	// point here would offer is offered, with the same effect, by the releasing thread's next point.
	if !m.locked {
		panic("sync: unlock of unlocked mutex")
	}
	m.locked = false
}

// ---- RWMutex -----------------------------------------------------------------------------

type RWMutex struct {
	real    sync.RWMutex
	writer  bool
	readers int
}

func (m *RWMutex) Lock() {
	if sched.Active() == nil {
		m.real.Lock()
		return
	}
	sched.Point("RWMutex.Lock", func() bool { return !m.writer && m.readers == 0 })
	m.writer = true
}
func (m *RWMutex) Unlock() {
	if sched.Active() == nil {
		m.real.Unlock()
		return
	}
	if !m.writer {
		panic("sync: Unlock of unlocked RWMutex")
	}
	m.writer = false
}
func (m *RWMutex) RLock() {
	if sched.Active() == nil {
		m.real.RLock()
		return
	}
	sched.Point("RWMutex.RLock", func() bool { return !m.writer })
	m.readers++
}
func (m *RWMutex) RUnlock() {
	if sched.Active() == nil {
		m.real.RUnlock()
		return
	}
	if m.readers == 0 {
		panic("sync: RUnlock of unlocked RWMutex")
	}
	m.readers--
}
func (m *RWMutex) TryLock() bool {
	if sched.Active() == nil {
		return m.real.TryLock()
	}
	sched.Point("RWMutex.TryLock", nil)
	if m.writer || m.readers > 0 {
		return false
	}
	m.writer = true
	return true
}
func (m *RWMutex) TryRLock() bool {
	if sched.Active() == nil {
		return m.real.TryRLock()
	}
	sched.Point("RWMutex.TryRLock", nil)
	if m.writer {
		return false
	}
	m.readers++
	return true
}
func (m *RWMutex) RLocker() Locker { return (*rlocker)(m) }

type rlocker RWMutex

func (r *rlocker) Lock()   { (*RWMutex)(r).RLock() }
func (r *rlocker) Unlock() { (*RWMutex)(r).RUnlock() }

// ---- WaitGroup ---------------------------------------------------------------------------

type WaitGroup struct {
	real sync.WaitGroup
	n    int
	// contract monitor: a Wait has been entered by thread waiter when waitThreads threads existed
	waited      bool
	waiter      int
	waitThreads int
}

func (w *WaitGroup) Add(delta int) {
	if sched.Active() == nil {
		w.real.Add(delta)
		return
	}
	if WaitGroupAddIsPoint {
		sched.Point("WaitGroup.Add", nil)
	}
	// sync.WaitGroup's contract: an Add that takes the counter from zero must happen before the
	// Wait. A cooperative schedule orders everything, so the misuse is recognised by shape: the
	// counter leaves zero in a thread that already existed when another thread entered Wait on
	// this group (a thread started afterwards by the waiter is ordered behind the Wait). The race
	// detector reports the same situation as a data race, when its timing happens to produce it.
	if delta > 0 && w.n == 0 && w.waited {
		if id := sched.ThreadID(); id != w.waiter && id < w.waitThreads {
			sched.Logf("WAITGROUP-MISUSE Add from zero in thread %d although thread %d has already entered Wait on this group: the Add is not ordered before the Wait", id, w.waiter)
		}
	}
	w.n += delta
	if w.n < 0 {
		panic("sync: negative WaitGroup counter")
	}
}
func (w *WaitGroup) Done() { w.Add(-1) }
func (w *WaitGroup) Wait() {
	if sched.Active() == nil {
		w.real.Wait()
		return
	}
	w.waited, w.waiter, w.waitThreads = true, sched.ThreadID(), sched.ThreadCount()
	sched.Point("WaitGroup.Wait", func() bool { return w.n == 0 })
}

// Go is the Go 1.25 convenience (kept for API completeness).
func (w *WaitGroup) Go(f func()) {
	w.Add(1)
	sched.Go(func() {
		defer w.Done()
		f()
	})
}

// ---- Once --------------------------------------------------------------------------------

type Once struct {
	real    sync.Once
	done    bool
	running bool
}

func (o *Once) Do(f func()) {
	if sched.Active() == nil {
		o.real.Do(f)
		return
	}
	sched.Point("Once.Do", func() bool { return !o.running })
	if o.done {
		return
	}
	o.running = true
	defer func() { o.done, o.running = true, false }()
	f()
}

func OnceFunc(f func()) func() {
	var o Once
	return func() { o.Do(f) }
}
func OnceValue[T any](f func() T) func() T {
	var o Once
	var v T
	return func() T { o.Do(func() { v = f() }); return v }
}
func OnceValues[T1, T2 any](f func() (T1, T2)) func() (T1, T2) {
	var o Once
	var a T1
	var b T2
	return func() (T1, T2) { o.Do(func() { a, b = f() }); return a, b }
}

// ---- Pool --------------------------------------------------------------------------------

// Pool under the scheduler is a deterministic LIFO; at every Get the explorer may decide that
// the garbage collector emptied it. Model contents are dropped between executions.
type Pool struct {
	New   func() any
	real  sync.Pool
	items []any
	epoch uint64
}

var poolEpoch uint64 = 1

// ResetPools forgets the modelled contents of every pool (call between executions).
func ResetPools() { poolEpoch++ }

// WaitGroupAddIsPoint controls whether WaitGroup.Add/Done are scheduling points (Wait always
// is). Scenarios whose property does not depend on the Add-vs-Wait order switch them off.
var WaitGroupAddIsPoint = true

// Debug logs every pool operation into the execution log.
var Debug = false

// PoolGC controls whether Get offers the "emptied by GC" alternative.
var PoolGC = true

// PoolIsPoint controls whether pool operations are scheduling points at all (scenarios whose
// property does not involve the pools switch them off to keep the schedule space small).
var PoolIsPoint = true

func (p *Pool) sync() {
	if p.epoch != poolEpoch {
		p.items, p.epoch = nil, poolEpoch
	}
}

// leftoverMu guards the modelled contents outside the scheduler (see Get).
var leftoverMu sync.Mutex

func (p *Pool) Get() any {
	if sched.Active() == nil {
		// What the last scheduled execution left in the pool is what a call made right after it
		// (an oracle's follow-up request on the same system) gets: objects do not vanish because
		// the scheduler was taken away.
		leftoverMu.Lock()
		if n := len(p.items); n > 0 && p.epoch == poolEpoch {
			x := p.items[n-1]
			p.items = p.items[:n-1]
			leftoverMu.Unlock()
			return x
		}
		leftoverMu.Unlock()
		if p.real.New == nil && p.New != nil {
			p.real.New = p.New
		}
		return p.real.Get()
	}
	if PoolIsPoint {
		sched.Point("Pool.Get", nil)
	}
	p.sync()
	if Debug {
		sched.Logf("Pool.Get %p items=%d epoch=%d", p, len(p.items), p.epoch)
	}
	if len(p.items) > 0 && PoolGC && PoolIsPoint && sched.Choose("pool emptied by GC", 2) == 1 {
		p.items = nil
	}
	if n := len(p.items); n > 0 {
		x := p.items[n-1]
		p.items = p.items[:n-1]
		return x
	}
	if p.New != nil {
		return p.New()
	}
	return nil
}

func (p *Pool) Put(x any) {
	if sched.Active() == nil {
		p.real.Put(x)
		return
	}
	// The scheduling point of Put comes AFTER its effect (see the end of this function): what the
	// caller did to the object before giving it up cannot be seen by anyone else, but whatever it
	// still does with it afterwards races with the next holder - so the interesting place to switch
	// threads is right after the object went back. (Code between two points is assumed to touch
	// only thread-local state; a use-after-Put breaks exactly that assumption.)
	p.sync()
	if x == nil {
		if PoolIsPoint {
			sched.Point("Pool.Put", nil)
		}
		return
	}
	if Debug {
		sched.Logf("Pool.Put %p items=%d %T", p, len(p.items), x)
	}
	// pool discipline: an object that is already in the pool is put back again. Two later Gets
	// would hand the same object to two holders, so the execution is marked; the explorer reports
	// it (a cooperative schedule cannot interleave inside code without synchronisation, where the
	// two holders would collide, so the invariant is checked here instead).
	if id, ok := poolIdentity(x); ok {
		for _, it := range p.items {
			if iid, ok := poolIdentity(it); ok && iid == id {
				sched.Logf("POOL-DOUBLE-PUT %T is put back while it is already in the pool", x)
			}
		}
	}
	p.items = append(p.items, x)
	if PoolIsPoint {
		sched.Point("Pool.Put", nil)
	}
}

// poolIdentity: what makes two pooled values "the same object" - the address for pointers, the
// backing array for slices and pointers to slices with capacity (a pooled []T or *[]T put back
// twice hands one array to two holders just as a pointer does).
func poolIdentity(x any) (uintptr, bool) {
	rv := reflect.ValueOf(x)
	switch rv.Kind() {
	case reflect.Pointer:
		if !rv.IsNil() && rv.Elem().Kind() == reflect.Slice && rv.Elem().Cap() > 0 {
			return rv.Elem().Pointer(), true // *[]T: the array behind it, whichever header points at it
		}
		return rv.Pointer(), true
	case reflect.Slice:
		if rv.Cap() > 0 {
			return rv.Pointer(), true
		}
	}
	return 0, false
}

// ---- Map ---------------------------------------------------------------------------------

type Map struct {
	real sync.Map
}

func (m *Map) Load(k any) (any, bool) { sched.Point("Map.Load", nil); return m.real.Load(k) }
func (m *Map) Store(k, v any)         { sched.Point("Map.Store", nil); m.real.Store(k, v) }
func (m *Map) LoadOrStore(k, v any) (any, bool) {
	sched.Point("Map.LoadOrStore", nil)
	return m.real.LoadOrStore(k, v)
}
func (m *Map) LoadAndDelete(k any) (any, bool) {
	sched.Point("Map.LoadAndDelete", nil)
	return m.real.LoadAndDelete(k)
}
func (m *Map) Delete(k any)              { sched.Point("Map.Delete", nil); m.real.Delete(k) }
func (m *Map) Swap(k, v any) (any, bool) { sched.Point("Map.Swap", nil); return m.real.Swap(k, v) }
func (m *Map) CompareAndSwap(k, o, n any) bool {
	sched.Point("Map.CompareAndSwap", nil)
	return m.real.CompareAndSwap(k, o, n)
}
func (m *Map) CompareAndDelete(k, o any) bool {
	sched.Point("Map.CompareAndDelete", nil)
	return m.real.CompareAndDelete(k, o)
}
func (m *Map) Range(f func(k, v any) bool) { sched.Point("Map.Range", nil); m.real.Range(f) }
func (m *Map) Clear() {
	sched.Point("Map.Clear", nil)
	m.real.Range(func(k, _ any) bool { m.real.Delete(k); return true })
}

// ---- Cond --------------------------------------------------------------------------------

type Cond struct {
	L       Locker
	real    *sync.Cond
	waiters []*bool
}

func NewCond(l Locker) *Cond { return &Cond{L: l} }

func (c *Cond) Wait() {
	if sched.Active() == nil {
		if c.real == nil {
			c.real = sync.NewCond(c.L)
		}
		c.real.Wait()
		return
	}
	woken := false
	c.waiters = append(c.waiters, &woken)
	c.L.Unlock()
	sched.Point("Cond.Wait", func() bool { return woken })
	c.L.Lock()
}
func (c *Cond) Signal() {
	if sched.Active() == nil {
		if c.real == nil {
			c.real = sync.NewCond(c.L)
		}
		c.real.Signal()
		return
	}
	sched.Point("Cond.Signal", nil)
	if len(c.waiters) > 0 {
		*c.waiters[0] = true
		c.waiters = c.waiters[1:]
	}
}
func (c *Cond) Broadcast() {
	if sched.Active() == nil {
		if c.real == nil {
			c.real = sync.NewCond(c.L)
		}
		c.real.Broadcast()
		return
	}
	sched.Point("Cond.Broadcast", nil)
	for _, w := range c.waiters {
		*w = true
	}
	c.waiters = nil
}
