// Package vatomic mirrors sync/atomic; every operation is a scheduling point under verif/sched.
package vatomic

import (
	"sync/atomic"
	"unsafe"

	"verif/sched"
)

// StoreHook, when set, observes every Value.Store (used by the snapshot-immutability monitor).
var StoreHook func(v any)

// LoadHook, when set, observes every Value.Load.
var LoadHook func(v any)

type Value struct{ real atomic.Value }

func (v *Value) Load() any {
	sched.Point("atomic.Value.Load", nil)
	x := v.real.Load()
	if LoadHook != nil {
		LoadHook(x)
	}
	return x
}
func (v *Value) Store(x any) {
	sched.Point("atomic.Value.Store", nil)
	if StoreHook != nil {
		StoreHook(x)
	}
	v.real.Store(x)
}
func (v *Value) Swap(x any) any {
	sched.Point("atomic.Value.Swap", nil)
	if StoreHook != nil {
		StoreHook(x)
	}
	return v.real.Swap(x)
}
func (v *Value) CompareAndSwap(o, n any) bool {
	sched.Point("atomic.Value.CompareAndSwap", nil)
	ok := v.real.CompareAndSwap(o, n)
	if ok && StoreHook != nil {
		StoreHook(n)
	}
	return ok
}

type Bool struct{ real atomic.Bool }

func (b *Bool) Load() bool       { sched.Point("atomic.Bool.Load", nil); return b.real.Load() }
func (b *Bool) Store(v bool)     { sched.Point("atomic.Bool.Store", nil); b.real.Store(v) }
func (b *Bool) Swap(v bool) bool { sched.Point("atomic.Bool.Swap", nil); return b.real.Swap(v) }
func (b *Bool) CompareAndSwap(o, n bool) bool {
	sched.Point("atomic.Bool.CompareAndSwap", nil)
	return b.real.CompareAndSwap(o, n)
}

type Int32 struct{ real atomic.Int32 }

func (x *Int32) Load() int32        { sched.Point("atomic.Int32.Load", nil); return x.real.Load() }
func (x *Int32) Store(v int32)      { sched.Point("atomic.Int32.Store", nil); x.real.Store(v) }
func (x *Int32) Swap(v int32) int32 { sched.Point("atomic.Int32.Swap", nil); return x.real.Swap(v) }
func (x *Int32) Add(d int32) int32  { sched.Point("atomic.Int32.Add", nil); return x.real.Add(d) }
func (x *Int32) CompareAndSwap(o, n int32) bool {
	sched.Point("atomic.Int32.CompareAndSwap", nil)
	return x.real.CompareAndSwap(o, n)
}

type Int64 struct{ real atomic.Int64 }

func (x *Int64) Load() int64        { sched.Point("atomic.Int64.Load", nil); return x.real.Load() }
func (x *Int64) Store(v int64)      { sched.Point("atomic.Int64.Store", nil); x.real.Store(v) }
func (x *Int64) Swap(v int64) int64 { sched.Point("atomic.Int64.Swap", nil); return x.real.Swap(v) }
func (x *Int64) Add(d int64) int64  { sched.Point("atomic.Int64.Add", nil); return x.real.Add(d) }
func (x *Int64) CompareAndSwap(o, n int64) bool {
	sched.Point("atomic.Int64.CompareAndSwap", nil)
	return x.real.CompareAndSwap(o, n)
}

type Uint32 struct{ real atomic.Uint32 }

func (x *Uint32) Load() uint32         { sched.Point("atomic.Uint32.Load", nil); return x.real.Load() }
func (x *Uint32) Store(v uint32)       { sched.Point("atomic.Uint32.Store", nil); x.real.Store(v) }
func (x *Uint32) Swap(v uint32) uint32 { sched.Point("atomic.Uint32.Swap", nil); return x.real.Swap(v) }
func (x *Uint32) Add(d uint32) uint32  { sched.Point("atomic.Uint32.Add", nil); return x.real.Add(d) }
func (x *Uint32) CompareAndSwap(o, n uint32) bool {
	sched.Point("atomic.Uint32.CompareAndSwap", nil)
	return x.real.CompareAndSwap(o, n)
}

type Uint64 struct{ real atomic.Uint64 }

func (x *Uint64) Load() uint64         { sched.Point("atomic.Uint64.Load", nil); return x.real.Load() }
func (x *Uint64) Store(v uint64)       { sched.Point("atomic.Uint64.Store", nil); x.real.Store(v) }
func (x *Uint64) Swap(v uint64) uint64 { sched.Point("atomic.Uint64.Swap", nil); return x.real.Swap(v) }
func (x *Uint64) Add(d uint64) uint64  { sched.Point("atomic.Uint64.Add", nil); return x.real.Add(d) }
func (x *Uint64) CompareAndSwap(o, n uint64) bool {
	sched.Point("atomic.Uint64.CompareAndSwap", nil)
	return x.real.CompareAndSwap(o, n)
}

type Uintptr struct{ real atomic.Uintptr }

func (x *Uintptr) Load() uintptr   { sched.Point("atomic.Uintptr.Load", nil); return x.real.Load() }
func (x *Uintptr) Store(v uintptr) { sched.Point("atomic.Uintptr.Store", nil); x.real.Store(v) }
func (x *Uintptr) Swap(v uintptr) uintptr {
	sched.Point("atomic.Uintptr.Swap", nil)
	return x.real.Swap(v)
}
func (x *Uintptr) Add(d uintptr) uintptr {
	sched.Point("atomic.Uintptr.Add", nil)
	return x.real.Add(d)
}
func (x *Uintptr) CompareAndSwap(o, n uintptr) bool {
	sched.Point("atomic.Uintptr.CompareAndSwap", nil)
	return x.real.CompareAndSwap(o, n)
}

type Pointer[T any] struct{ real atomic.Pointer[T] }

func (p *Pointer[T]) Load() *T     { sched.Point("atomic.Pointer.Load", nil); return p.real.Load() }
func (p *Pointer[T]) Store(v *T)   { sched.Point("atomic.Pointer.Store", nil); p.real.Store(v) }
func (p *Pointer[T]) Swap(v *T) *T { sched.Point("atomic.Pointer.Swap", nil); return p.real.Swap(v) }
func (p *Pointer[T]) CompareAndSwap(o, n *T) bool {
	sched.Point("atomic.Pointer.CompareAndSwap", nil)
	return p.real.CompareAndSwap(o, n)
}

func AddInt32(a *int32, d int32) int32 {
	sched.Point("atomic.AddInt32", nil)
	return atomic.AddInt32(a, d)
}
func AddInt64(a *int64, d int64) int64 {
	sched.Point("atomic.AddInt64", nil)
	return atomic.AddInt64(a, d)
}
func AddUint32(a *uint32, d uint32) uint32 {
	sched.Point("atomic.AddUint32", nil)
	return atomic.AddUint32(a, d)
}
func AddUint64(a *uint64, d uint64) uint64 {
	sched.Point("atomic.AddUint64", nil)
	return atomic.AddUint64(a, d)
}
func AddUintptr(a *uintptr, d uintptr) uintptr {
	sched.Point("atomic.AddUintptr", nil)
	return atomic.AddUintptr(a, d)
}
func LoadInt32(a *int32) int32    { sched.Point("atomic.LoadInt32", nil); return atomic.LoadInt32(a) }
func LoadInt64(a *int64) int64    { sched.Point("atomic.LoadInt64", nil); return atomic.LoadInt64(a) }
func LoadUint32(a *uint32) uint32 { sched.Point("atomic.LoadUint32", nil); return atomic.LoadUint32(a) }
func LoadUint64(a *uint64) uint64 { sched.Point("atomic.LoadUint64", nil); return atomic.LoadUint64(a) }
func LoadUintptr(a *uintptr) uintptr {
	sched.Point("atomic.LoadUintptr", nil)
	return atomic.LoadUintptr(a)
}
func LoadPointer(a *unsafe.Pointer) unsafe.Pointer {
	sched.Point("atomic.LoadPointer", nil)
	return atomic.LoadPointer(a)
}
func StoreInt32(a *int32, v int32) { sched.Point("atomic.StoreInt32", nil); atomic.StoreInt32(a, v) }
func StoreInt64(a *int64, v int64) { sched.Point("atomic.StoreInt64", nil); atomic.StoreInt64(a, v) }
func StoreUint32(a *uint32, v uint32) {
	sched.Point("atomic.StoreUint32", nil)
	atomic.StoreUint32(a, v)
}
func StoreUint64(a *uint64, v uint64) {
	sched.Point("atomic.StoreUint64", nil)
	atomic.StoreUint64(a, v)
}
func StoreUintptr(a *uintptr, v uintptr) {
	sched.Point("atomic.StoreUintptr", nil)
	atomic.StoreUintptr(a, v)
}
func StorePointer(a *unsafe.Pointer, v unsafe.Pointer) {
	sched.Point("atomic.StorePointer", nil)
	atomic.StorePointer(a, v)
}
func SwapInt32(a *int32, v int32) int32 {
	sched.Point("atomic.SwapInt32", nil)
	return atomic.SwapInt32(a, v)
}
func SwapInt64(a *int64, v int64) int64 {
	sched.Point("atomic.SwapInt64", nil)
	return atomic.SwapInt64(a, v)
}
func SwapUint32(a *uint32, v uint32) uint32 {
	sched.Point("atomic.SwapUint32", nil)
	return atomic.SwapUint32(a, v)
}
func SwapUint64(a *uint64, v uint64) uint64 {
	sched.Point("atomic.SwapUint64", nil)
	return atomic.SwapUint64(a, v)
}
func SwapPointer(a *unsafe.Pointer, v unsafe.Pointer) unsafe.Pointer {
	sched.Point("atomic.SwapPointer", nil)
	return atomic.SwapPointer(a, v)
}
func CompareAndSwapInt32(a *int32, o, n int32) bool {
	sched.Point("atomic.CompareAndSwapInt32", nil)
	return atomic.CompareAndSwapInt32(a, o, n)
}
func CompareAndSwapInt64(a *int64, o, n int64) bool {
	sched.Point("atomic.CompareAndSwapInt64", nil)
	return atomic.CompareAndSwapInt64(a, o, n)
}
func CompareAndSwapUint32(a *uint32, o, n uint32) bool {
	sched.Point("atomic.CompareAndSwapUint32", nil)
	return atomic.CompareAndSwapUint32(a, o, n)
}
func CompareAndSwapUint64(a *uint64, o, n uint64) bool {
	sched.Point("atomic.CompareAndSwapUint64", nil)
	return atomic.CompareAndSwapUint64(a, o, n)
}
func CompareAndSwapPointer(a *unsafe.Pointer, o, n unsafe.Pointer) bool {
	sched.Point("atomic.CompareAndSwapPointer", nil)
	return atomic.CompareAndSwapPointer(a, o, n)
}
