// Package vrand mirrors the part of math/rand a library uses for load balancing: under
// verif/sched every bounded draw is an explorer choice (all values are enumerated).
package vrand

import (
	"math/rand"

	"verif/sched"
)

type (
	Rand     = rand.Rand
	Source   = rand.Source
	Source64 = rand.Source64
	Zipf     = rand.Zipf
)

func New(src Source) *Rand                             { return rand.New(src) }
func NewSource(seed int64) Source                      { return rand.NewSource(seed) }
func NewZipf(r *Rand, s, v float64, imax uint64) *Zipf { return rand.NewZipf(r, s, v, imax) }
func Seed(seed int64)                                  { rand.Seed(seed) } //nolint

// Override, when set, decides every bounded draw outside the scheduler (sequential explorers
// enumerate handler picks with it).
var Override func(n int) int

func bounded(label string, n int) (int, bool) {
	if n <= 0 || n > 64 {
		return 0, false
	}
	if sched.Active() == nil {
		if Override != nil {
			return Override(n), true
		}
		return 0, false
	}
	return sched.Choose(label, n), true
}

func Intn(n int) int {
	if v, ok := bounded("rand.Intn", n); ok {
		return v
	}
	return rand.Intn(n)
}
func Int31n(n int32) int32 {
	if v, ok := bounded("rand.Int31n", int(n)); ok {
		return int32(v)
	}
	return rand.Int31n(n)
}
func Int63n(n int64) int64 {
	if n <= 64 {
		if v, ok := bounded("rand.Int63n", int(n)); ok {
			return int64(v)
		}
	}
	return rand.Int63n(n)
}
func Int() int                           { return rand.Int() }
func Int31() int32                       { return rand.Int31() }
func Int63() int64                       { return rand.Int63() }
func Uint32() uint32                     { return rand.Uint32() }
func Uint64() uint64                     { return rand.Uint64() }
func Float32() float32                   { return rand.Float32() }
func Float64() float64                   { return rand.Float64() }
func ExpFloat64() float64                { return rand.ExpFloat64() }
func NormFloat64() float64               { return rand.NormFloat64() }
func Perm(n int) []int                   { return rand.Perm(n) }
func Shuffle(n int, swap func(i, j int)) { rand.Shuffle(n, swap) }
func Read(p []byte) (int, error)         { return rand.Read(p) } //nolint
