package wire

import "testing"

func TestWire(t *testing.T) {
	if got := DecodeGRPCMessage("a%25b%20%c3%a9%"); got != "a%b é%" {
		t.Errorf("%q", got)
	}
	if err := GRPCMessageWellFormed("a%25b"); err != nil {
		t.Error(err)
	}
	if err := GRPCMessageWellFormed("a%2"); err == nil {
		t.Error("truncated escape accepted")
	}
	if err := GRPCMessageWellFormed("é"); err == nil {
		t.Error("raw non-ascii accepted")
	}
	fs, rest := ParseFrames(append(GRPCFrame(0, []byte("ab")), 1, 0, 0))
	if len(fs) != 1 || string(fs[0].Payload) != "ab" || len(rest) != 3 {
		t.Errorf("%v %v", fs, rest)
	}
	b, err := DecodeWebText([]byte("YQ==YWI="))
	if err != nil || string(b) != "aab" {
		t.Errorf("%q %v", b, err)
	}
	cf := WSClientFrame(true, OpText, []byte("hello"), [4]byte{1, 2, 3, 4})
	pf, _, err := ParseWSFrames(cf)
	if err != nil || len(pf) != 1 || string(pf[0].Payload) != "hello" || !pf[0].Masked {
		t.Errorf("%v %v", pf, err)
	}
	if UTF8Prefix("aé", 2) != "a" {
		t.Error("prefix")
	}
}
