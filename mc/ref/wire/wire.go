// Package wire holds independent encoders/decoders for the wire formats larking speaks:
// gRPC length-prefixed frames, gRPC-web trailer frames and base64 text mode, percent-encoded
// grpc-message, RFC 6455 WebSocket frames, and the documented status tables. Nothing here
// is shared with larking or grpc-go's transport.
package wire

import (
	"encoding/base64"
	"encoding/binary"
	"errors"
	"fmt"
	"net/http"
	"strings"
	"unicode/utf8"
)

// ---- gRPC frames ------------------------------------------------------------------------

type Frame struct {
	Flag    byte
	Payload []byte
}

func GRPCFrame(flag byte, payload []byte) []byte {
	b := make([]byte, 5+len(payload))
	b[0] = flag
	binary.BigEndian.PutUint32(b[1:5], uint32(len(payload)))
	copy(b[5:], payload)
	return b
}

// GRPCFrameLen builds a header claiming length n followed by payload (n may lie).
func GRPCFrameLen(flag byte, n uint32, payload []byte) []byte {
	b := make([]byte, 5+len(payload))
	b[0] = flag
	binary.BigEndian.PutUint32(b[1:5], n)
	copy(b[5:], payload)
	return b
}

// ParseFrames splits b into complete frames; rest is what does not form a complete frame.
func ParseFrames(b []byte) (frames []Frame, rest []byte) {
	for len(b) >= 5 {
		n := int(binary.BigEndian.Uint32(b[1:5]))
		if len(b)-5 < n {
			break
		}
		frames = append(frames, Frame{Flag: b[0], Payload: append([]byte(nil), b[5:5+n]...)})
		b = b[5+n:]
	}
	return frames, b
}

// ---- grpc-message ------------------------------------------------------------------------

// DecodeGRPCMessage undoes the percent-encoding of the gRPC spec: %XX -> byte, anything else
// verbatim (an invalid escape is kept as is).
func DecodeGRPCMessage(s string) string {
	var b strings.Builder
	for i := 0; i < len(s); i++ {
		if s[i] == '%' && i+2 < len(s) {
			if h, ok1 := unhex(s[i+1]); ok1 {
				if l, ok2 := unhex(s[i+2]); ok2 {
					b.WriteByte(h<<4 | l)
					i += 2
					continue
				}
			}
		}
		b.WriteByte(s[i])
	}
	return b.String()
}

func unhex(c byte) (byte, bool) {
	switch {
	case c >= '0' && c <= '9':
		return c - '0', true
	case c >= 'a' && c <= 'f':
		return c - 'a' + 10, true
	case c >= 'A' && c <= 'F':
		return c - 'A' + 10, true
	}
	return 0, false
}

// GRPCMessageWellFormed: per the spec the encoded value consists of bytes 0x20..0x7E only
// and every '%' starts a valid %XX escape.
func GRPCMessageWellFormed(s string) error {
	for i := 0; i < len(s); i++ {
		c := s[i]
		if c < 0x20 || c > 0x7e {
			return fmt.Errorf("byte 0x%02x at %d is not allowed unencoded", c, i)
		}
		if c == '%' {
			if i+2 >= len(s) {
				return fmt.Errorf("truncated escape at %d", i)
			}
			if _, ok := unhex(s[i+1]); !ok {
				return fmt.Errorf("bad escape at %d", i)
			}
			if _, ok := unhex(s[i+2]); !ok {
				return fmt.Errorf("bad escape at %d", i)
			}
		}
	}
	return nil
}

// ---- gRPC-web ----------------------------------------------------------------------------

// DecodeWebText decodes a grpc-web-text body: a concatenation of base64 chunks, each of
// which may carry its own padding. Every 4-character quantum is decoded on its own.
func DecodeWebText(s []byte) ([]byte, error) {
	var out []byte
	for len(s) > 0 {
		if len(s) < 4 {
			return out, fmt.Errorf("dangling %d base64 characters: %q", len(s), s)
		}
		q := s[:4]
		s = s[4:]
		dec, err := base64.StdEncoding.DecodeString(string(q))
		if err != nil {
			return out, fmt.Errorf("bad base64 quantum %q: %v", q, err)
		}
		out = append(out, dec...)
	}
	return out, nil
}

// EncodeWebText encodes b as one padded base64 chunk.
func EncodeWebText(b []byte) []byte { return []byte(base64.StdEncoding.EncodeToString(b)) }

// ParseWebTrailer parses the payload of a 0x80 frame: HTTP/1-style "key: value\r\n" lines.
func ParseWebTrailer(p []byte) (http.Header, error) {
	h := http.Header{}
	for _, line := range strings.Split(string(p), "\r\n") {
		if line == "" {
			continue
		}
		k, v, ok := strings.Cut(line, ":")
		if !ok {
			return h, fmt.Errorf("malformed trailer line %q", line)
		}
		k = strings.ToLower(strings.TrimSpace(k))
		h[k] = append(h[k], strings.TrimSpace(v))
	}
	return h, nil
}

// ---- WebSocket (RFC 6455) ----------------------------------------------------------------

const (
	OpCont  = 0x0
	OpText  = 0x1
	OpBin   = 0x2
	OpClose = 0x8
	OpPing  = 0x9
	OpPong  = 0xA
)

type WSFrame struct {
	Fin     bool
	Op      byte
	Masked  bool
	Payload []byte
}

// WSClientFrame builds a masked client frame.
func WSClientFrame(fin bool, op byte, payload []byte, mask [4]byte) []byte {
	var b []byte
	b0 := op
	if fin {
		b0 |= 0x80
	}
	b = append(b, b0)
	n := len(payload)
	switch {
	case n <= 125:
		b = append(b, 0x80|byte(n))
	case n <= 0xffff:
		b = append(b, 0x80|126, byte(n>>8), byte(n))
	default:
		b = append(b, 0x80|127)
		var l [8]byte
		binary.BigEndian.PutUint64(l[:], uint64(n))
		b = append(b, l[:]...)
	}
	b = append(b, mask[:]...)
	for i, c := range payload {
		b = append(b, c^mask[i%4])
	}
	return b
}

// WSCloseBody builds a close payload.
func WSCloseBody(code uint16, reason string) []byte {
	b := []byte{byte(code >> 8), byte(code)}
	return append(b, reason...)
}

// ParseWSFrames parses server-to-client frames; rest = trailing incomplete bytes.
func ParseWSFrames(b []byte) (frames []WSFrame, rest []byte, err error) {
	for len(b) >= 2 {
		fin := b[0]&0x80 != 0
		if b[0]&0x70 != 0 {
			return frames, b, errors.New("reserved bits set")
		}
		op := b[0] & 0x0f
		masked := b[1]&0x80 != 0
		n := uint64(b[1] & 0x7f)
		hdr := 2
		switch n {
		case 126:
			if len(b) < 4 {
				return frames, b, nil
			}
			n = uint64(binary.BigEndian.Uint16(b[2:4]))
			hdr = 4
		case 127:
			if len(b) < 10 {
				return frames, b, nil
			}
			n = binary.BigEndian.Uint64(b[2:10])
			hdr = 10
		}
		var mask []byte
		if masked {
			if len(b) < hdr+4 {
				return frames, b, nil
			}
			mask = b[hdr : hdr+4]
			hdr += 4
		}
		if uint64(len(b)-hdr) < n {
			return frames, b, nil
		}
		p := append([]byte(nil), b[hdr:hdr+int(n)]...)
		for i := range p {
			if masked {
				p[i] ^= mask[i%4]
			}
		}
		frames = append(frames, WSFrame{Fin: fin, Op: op, Masked: masked, Payload: p})
		b = b[hdr+int(n):]
	}
	return frames, b, nil
}

// ValidateServerFrame checks what RFC 6455 demands of a single server frame.
func ValidateServerFrame(f WSFrame) error {
	if f.Masked {
		return errors.New("server frames must not be masked")
	}
	if f.Op >= 0x8 {
		if len(f.Payload) > 125 {
			return fmt.Errorf("control frame payload of %d bytes (max 125)", len(f.Payload))
		}
		if !f.Fin {
			return errors.New("fragmented control frame")
		}
	}
	if f.Op == OpClose && len(f.Payload) > 0 {
		if len(f.Payload) == 1 {
			return errors.New("close payload of one byte")
		}
		if !utf8.Valid(f.Payload[2:]) {
			return errors.New("close reason is not valid UTF-8")
		}
	}
	return nil
}

// ---- status tables -----------------------------------------------------------------------

// HTTPStatus is the google.rpc.Code -> HTTP mapping documented in google/rpc/code.proto.
var HTTPStatus = map[int][]int{
	0: {200}, 1: {499, 408}, 2: {500}, 3: {400}, 4: {504}, 5: {404}, 6: {409}, 7: {403}, 8: {429},
	9: {400}, 10: {409}, 11: {400}, 12: {501}, 13: {500}, 14: {503}, 15: {500}, 16: {401},
}

// WSCloseCode is larking's documented mapping of gRPC codes to WebSocket close codes (the
// exported WSStatusCode; there is no external standard for it, the table IS the contract the
// property calls "the mapped close code"): timeouts and conflicts "going away" (1001), invalid
// argument / unimplemented "unsupported data" (1003), unauthenticated "policy violation" (1008),
// everything else - and every out-of-range code - "internal error" (1011).
var WSCloseCode = map[int]int{
	1: 1001, 2: 1011, 3: 1003, 4: 1001, 5: 1011, 6: 1001, 7: 1011, 8: 1011,
	9: 1011, 10: 1011, 11: 1011, 12: 1003, 13: 1011, 14: 1011, 15: 1011, 16: 1008,
}

// TwirpName is the Twirp error code name for a gRPC code (Twirp spec, "Error codes").
var TwirpName = map[int]string{
	1: "canceled", 2: "unknown", 3: "invalid_argument", 4: "deadline_exceeded", 5: "not_found",
	6: "already_exists", 7: "permission_denied", 8: "resource_exhausted", 9: "failed_precondition",
	10: "aborted", 11: "out_of_range", 12: "unimplemented", 13: "internal", 14: "unavailable",
	15: "dataloss", 16: "unauthenticated",
}

// UTF8Prefix returns the longest prefix of s of at most n bytes that ends on a rune boundary.
func UTF8Prefix(s string, n int) string {
	if len(s) <= n {
		return s
	}
	for n > 0 && !utf8.RuneStart(s[n]) {
		n--
	}
	return s[:n]
}
