package template

import (
	"reflect"
	"testing"
)

func TestParseAndMatch(t *testing.T) {
	for _, tc := range []struct {
		in    string
		class Class
	}{
		{"/a", WellFormed}, {"/a/b:c", WellFormed}, {"/{s}", WellFormed}, {"/{s=a/*}/x", WellFormed},
		{"/{n.s=**}:v", WellFormed}, {"/**", WellFormed}, {"/*/a", WellFormed}, {"/a.b/c-d", WellFormed},
		{"/**/a", Grey}, {"/{a={b}}", Grey}, {"/1a", Grey}, {"/{s}/{s}", Grey},
		{"", Malformed}, {"a", Malformed}, {"/", Malformed}, {"/a/", Malformed}, {"/{s", Malformed}, {"/{}", Malformed},
		{"/a:", Malformed}, {"/a:b:c", Malformed}, {"/a}b", Malformed}, {"/{s=}", Malformed}, {"/a//b", Malformed},
		{"/***", Malformed}, {"/a*", Malformed}, {"/{s.}", Malformed},
	} {
		tt, c, _, err := Parse(tc.in)
		if c != tc.class {
			t.Errorf("%q: class %v want %v (err %v)", tc.in, c, tc.class, err)
		}
		if c != Malformed && tt.String() != tc.in {
			t.Errorf("%q: round trip %q", tc.in, tt.String())
		}
	}
	tt, _, _, _ := Parse("/v1/{s=a/*}/{t=**}:vb")
	got := tt.MayMatch("/v1/a/x/y/z:vb")
	want := []Capture{{"s": "a/x", "t": "y/z"}}
	if !reflect.DeepEqual(got, want) {
		t.Errorf("got %v", got)
	}
	if m := tt.MayMatch("/v1/a/x:vb"); len(m) != 1 || m[0]["t"] != "" {
		t.Errorf("zero ** : %v", m)
	}
	if m := tt.MayMatch("/v1/b/x:vb"); len(m) != 0 {
		t.Errorf("should not match: %v", m)
	}
	n := 0
	tt.Instantiate([]string{"x", "y"}, 2, func(p string, c Capture) {
		n++
		ms := tt.MayMatch(p)
		found := false
		for _, m := range ms {
			if reflect.DeepEqual(m, c) {
				found = true
			}
		}
		if !found {
			t.Errorf("instantiation %q caps %v not matched: %v", p, c, ms)
		}
	})
	if n != 2*(2+4) {
		t.Errorf("n=%d", n)
	}
}
