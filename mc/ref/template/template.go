// Package template is an independent reference model of google.api.http path templates:
// a recursive-descent parser for the documented grammar and a segment-wise matcher in two
// strengths. It shares no code with larking.
//
//	Template = "/" Segments [ Verb ] ;
//	Segments = Segment { "/" Segment } ;
//	Segment  = "*" | "**" | LITERAL | Variable ;
//	Variable = "{" FieldPath [ "=" Segments ] "}" ;
//	FieldPath = IDENT { "." IDENT } ;
//	Verb     = ":" LITERAL ;
package template

import (
	"fmt"
	"strings"
	"unicode"
)

type Kind int

const (
	Lit Kind = iota
	Star
	StarStar
	Var
)

// Seg is one template segment. For Var, Field is the dotted field path and Sub the
// sub-pattern (never nil: "{f}" is normalised to Sub = [*], Implicit = true).
type Seg struct {
	Kind     Kind
	Text     string
	Field    string
	Sub      []Seg
	Implicit bool // "{f}" written without "=..."
}

type T struct {
	Segs []Seg
	Verb string
}

func (s Seg) String() string {
	switch s.Kind {
	case Lit:
		return s.Text
	case Star:
		return "*"
	case StarStar:
		return "**"
	}
	if s.Implicit {
		return "{" + s.Field + "}"
	}
	return "{" + s.Field + "=" + joinSegs(s.Sub) + "}"
}

func joinSegs(ss []Seg) string {
	var p []string
	for _, s := range ss {
		p = append(p, s.String())
	}
	return strings.Join(p, "/")
}

func (t T) String() string {
	s := "/" + joinSegs(t.Segs)
	if t.Verb != "" {
		s += ":" + t.Verb
	}
	return s
}

// Pure reports whether the segment is a pure wildcard: *, **, {f}, {f=*}, {f=**}.
func (s Seg) Pure() bool {
	switch s.Kind {
	case Star, StarStar:
		return true
	case Var:
		return len(s.Sub) == 1 && (s.Sub[0].Kind == Star || s.Sub[0].Kind == StarStar)
	}
	return false
}

// Class is the verdict of the reference parser on a template string.
type Class int

const (
	WellFormed Class = iota // derivable from the grammar, unambiguous
	Grey                    // derivable only under one reading of the grammar (see Parse)
	Malformed               // not derivable under any reading
)

func isIdentRune(r rune) bool {
	return unicode.IsLetter(r) || unicode.IsNumber(r) || r == '_' || r == '-'
}
func isLiteralRune(r rune) bool { return isIdentRune(r) || r == '.' }

type parser struct {
	s    []rune
	pos  int
	grey []string
}

func (p *parser) peek() rune {
	if p.pos >= len(p.s) {
		return -1
	}
	return p.s[p.pos]
}

func (p *parser) run(ok func(rune) bool) string {
	st := p.pos
	for p.pos < len(p.s) && ok(p.s[p.pos]) {
		p.pos++
	}
	return string(p.s[st:p.pos])
}

func (p *parser) segments(depth int) ([]Seg, error) {
	var out []Seg
	for {
		sg, err := p.segment(depth)
		if err != nil {
			return nil, err
		}
		out = append(out, sg)
		if p.peek() != '/' {
			return out, nil
		}
		p.pos++
	}
}

func (p *parser) segment(depth int) (Seg, error) {
	switch r := p.peek(); {
	case r == '*':
		p.pos++
		if p.peek() == '*' {
			p.pos++
			return Seg{Kind: StarStar}, nil
		}
		return Seg{Kind: Star}, nil
	case r == '{':
		if depth > 0 {
			// The written grammar derives nested variables; google.api.http forbids them.
			p.grey = append(p.grey, "nested variable")
		}
		p.pos++
		var fp []string
		for {
			id := p.run(isIdentRune)
			if id == "" {
				return Seg{}, fmt.Errorf("offset %d: expected IDENT", p.pos)
			}
			if !unicode.IsLetter([]rune(id)[0]) && []rune(id)[0] != '_' {
				p.grey = append(p.grey, "IDENT starting with digit or '-'")
			}
			if strings.Contains(id, "-") {
				p.grey = append(p.grey, "IDENT containing '-'")
			}
			fp = append(fp, id)
			if p.peek() != '.' {
				break
			}
			p.pos++
		}
		sg := Seg{Kind: Var, Field: strings.Join(fp, ".")}
		if p.peek() == '=' {
			p.pos++
			sub, err := p.segments(depth + 1)
			if err != nil {
				return Seg{}, err
			}
			sg.Sub = sub
		} else {
			sg.Sub = []Seg{{Kind: Star}}
			sg.Implicit = true
		}
		if p.peek() != '}' {
			return Seg{}, fmt.Errorf("offset %d: expected '}'", p.pos)
		}
		p.pos++
		return sg, nil
	case r != -1 && isLiteralRune(r):
		lit := p.run(isLiteralRune)
		if !unicode.IsLetter([]rune(lit)[0]) {
			p.grey = append(p.grey, "LITERAL not starting with a letter")
		}
		return Seg{Kind: Lit, Text: lit}, nil
	default:
		return Seg{}, fmt.Errorf("offset %d: unexpected %q", p.pos, r)
	}
}

// Parse parses s. class is Malformed with err != nil, Grey when the string is derivable but
// only under a disputed reading (notes say why), WellFormed otherwise.
//
// Grey zone (never used to raise an alarm): nested variables, literals/idents that do not
// start with a letter, idents containing '-', "**" anywhere but the last segment, a literal
// verb not starting with a letter.
func Parse(s string) (t T, class Class, notes []string, err error) {
	p := &parser{s: []rune(s)}
	if p.peek() != '/' {
		return T{}, Malformed, nil, fmt.Errorf("offset 0: expected '/'")
	}
	p.pos++
	segs, err := p.segments(0)
	if err != nil {
		return T{}, Malformed, nil, err
	}
	t.Segs = segs
	if p.peek() == ':' {
		p.pos++
		v := p.run(isLiteralRune)
		if v == "" {
			return T{}, Malformed, nil, fmt.Errorf("offset %d: expected verb LITERAL", p.pos)
		}
		if !unicode.IsLetter([]rune(v)[0]) {
			p.grey = append(p.grey, "verb not starting with a letter")
		}
		t.Verb = v
	}
	if p.pos != len(p.s) {
		return T{}, Malformed, nil, fmt.Errorf("offset %d: trailing %q", p.pos, string(p.s[p.pos:]))
	}
	// "**" must be the last segment (google.api.http); elsewhere: grey.
	flat := t.Flat()
	for i, f := range flat {
		if f.Kind == StarStar && i != len(flat)-1 {
			p.grey = append(p.grey, "** not in last position")
		}
	}
	// the same field bound twice: grey
	seen := map[string]bool{}
	for _, v := range t.Vars() {
		if seen[v] {
			p.grey = append(p.grey, "field bound twice")
		}
		seen[v] = true
	}
	if len(p.grey) > 0 {
		return t, Grey, p.grey, nil
	}
	return t, WellFormed, nil, nil
}

// FlatSeg is a leaf segment with the index of the variable capturing it (-1 = none).
type FlatSeg struct {
	Kind Kind
	Text string
	Var  int
}

// Flat flattens variables into leaf segments (nested variables attribute to the outermost).
func (t T) Flat() []FlatSeg {
	var out []FlatSeg
	vi := -1
	var walk func(ss []Seg, cur int)
	walk = func(ss []Seg, cur int) {
		for _, s := range ss {
			if s.Kind == Var {
				c := cur
				if cur < 0 {
					vi++
					c = vi
				}
				walk(s.Sub, c)
				continue
			}
			out = append(out, FlatSeg{Kind: s.Kind, Text: s.Text, Var: cur})
		}
	}
	walk(t.Segs, -1)
	return out
}

// Vars lists the field paths of top-level variables in order.
func (t T) Vars() []string {
	var out []string
	var walk func(ss []Seg)
	walk = func(ss []Seg) {
		for _, s := range ss {
			if s.Kind == Var {
				out = append(out, s.Field)
				walk(s.Sub)
			}
		}
	}
	walk(t.Segs)
	return out
}

// Capture is one way a template covers a path: field path -> covered text.
type Capture map[string]string

// MayMatch returns every capture assignment under which path is covered by t in the
// *liberal* reading (anything some reasonable reading of google.api.http allows):
//   - one trailing "/" of the path may be ignored;
//   - "**" covers zero or more segments;
//   - with a template verb the path must end in ":"+verb; without one a ':' inside the
//     last segment is ordinary text;
//   - "*" covers exactly one non-empty segment; literals compare byte-wise.
//
// An empty result means no reading lets t cover path.
func (t T) MayMatch(path string) []Capture {
	var out []Capture
	cands := []string{path}
	if strings.HasSuffix(path, "/") && len(path) > 1 {
		cands = append(cands, strings.TrimSuffix(path, "/"))
	}
	for _, p := range cands {
		if !strings.HasPrefix(p, "/") {
			continue
		}
		p = p[1:]
		if t.Verb != "" {
			suf := ":" + t.Verb
			if !strings.HasSuffix(p, suf) {
				continue
			}
			p = strings.TrimSuffix(p, suf)
		}
		var segs []string
		if p != "" {
			segs = strings.Split(p, "/")
		}
		flat := t.Flat()
		vars := topVars(t)
		matchFlat(flat, segs, 0, 0, make([][]string, len(vars)), func(caps [][]string) {
			c := Capture{}
			for i, v := range vars {
				c[v] = strings.Join(caps[i], "/")
			}
			out = append(out, c)
		})
	}
	return out
}

func topVars(t T) []string {
	var out []string
	for _, s := range t.Segs {
		if s.Kind == Var {
			out = append(out, s.Field)
		}
	}
	return out
}

func matchFlat(flat []FlatSeg, segs []string, fi, si int, caps [][]string, emit func([][]string)) {
	if fi == len(flat) {
		if si == len(segs) {
			cp := make([][]string, len(caps))
			for i := range caps {
				cp[i] = append([]string(nil), caps[i]...)
			}
			emit(cp)
		}
		return
	}
	f := flat[fi]
	take := func(n int) {
		var saved []string
		if f.Var >= 0 && f.Var < len(caps) {
			saved = caps[f.Var]
			caps[f.Var] = append(append([]string(nil), saved...), segs[si:si+n]...)
		}
		matchFlat(flat, segs, fi+1, si+n, caps, emit)
		if f.Var >= 0 && f.Var < len(caps) {
			caps[f.Var] = saved
		}
	}
	switch f.Kind {
	case Lit:
		if si < len(segs) && segs[si] == f.Text {
			take(1)
		}
	case Star:
		if si < len(segs) && segs[si] != "" {
			take(1)
		}
	case StarStar:
		for n := 0; si+n <= len(segs); n++ {
			ok := true
			for _, s := range segs[si : si+n] {
				if s == "" {
					ok = false
				}
			}
			if ok {
				take(n)
			}
		}
	}
}

// Instantiate enumerates paths obtained by filling every "*" with one value of fills and
// every "**" with 1..maxDeep values (all combinations), literals as written, plus the verb.
// Each result comes with the captures it induces. These paths match t under every reading.
func (t T) Instantiate(fills []string, maxDeep int, fn func(path string, caps Capture)) {
	flat := t.Flat()
	vars := topVars(t)
	segs := make([]string, 0, 8)
	caps := make([][]string, len(vars))
	var rec func(fi int)
	rec = func(fi int) {
		if fi == len(flat) {
			p := "/" + strings.Join(segs, "/")
			if t.Verb != "" {
				p += ":" + t.Verb
			}
			c := Capture{}
			for i, v := range vars {
				c[v] = strings.Join(caps[i], "/")
			}
			fn(p, c)
			return
		}
		f := flat[fi]
		push := func(vals ...string) {
			n := len(segs)
			segs = append(segs, vals...)
			var saved []string
			if f.Var >= 0 && f.Var < len(caps) {
				saved = caps[f.Var]
				caps[f.Var] = append(append([]string(nil), saved...), vals...)
			}
			rec(fi + 1)
			if f.Var >= 0 && f.Var < len(caps) {
				caps[f.Var] = saved
			}
			segs = segs[:n]
		}
		switch f.Kind {
		case Lit:
			push(f.Text)
		case Star:
			for _, v := range fills {
				push(v)
			}
		case StarStar:
			var deep func(cur []string, d int)
			deep = func(cur []string, d int) {
				if d > 0 {
					push(cur...)
				}
				if d == maxDeep {
					return
				}
				for _, v := range fills {
					deep(append(append([]string(nil), cur...), v), d+1)
				}
			}
			deep(nil, 0)
		}
	}
	rec(0)
}
